(* ConfigTree.v — the ISA definition as the tree the YAML loader produces, and the extraction of the facts validation reads
   (Config.vcfg) from it.  The harness only renders the loaded document as a term of type [yv]; which keys exist, which
   variants an instruction has, which operand configurations are constructed (index operands included) is decided here, the
   way AssemblerModel / InstructionSet / Instruction / OperandParser / OperandSet / the operand factory walk the document.
   No proofs. *)
From BA Require Export Base Expr Subst Layout Match Config.
Open Scope Z_scope.

Inductive yv :=
| YNull
| YBool (b : bool)
| YInt (z : Z)
| YStr (s : str)
| YList (l : list yv)
| YMap (m : list (str * yv)).

Definition k_general : str := [103; 101; 110; 101; 114; 97; 108].
Definition k_instructions : str := [105; 110; 115; 116; 114; 117; 99; 116; 105; 111; 110; 115].
Definition k_operand_sets : str := [111; 112; 101; 114; 97; 110; 100; 95; 115; 101; 116; 115].
Definition k_macros : str := [109; 97; 99; 114; 111; 115].
Definition k_registers : str := [114; 101; 103; 105; 115; 116; 101; 114; 115].
Definition k_predefined : str := [112; 114; 101; 100; 101; 102; 105; 110; 101; 100].
Definition k_memory_zones : str := [109; 101; 109; 111; 114; 121; 95; 122; 111; 110; 101; 115].
Definition k_name : str := [110; 97; 109; 101].
Definition k_start : str := [115; 116; 97; 114; 116].
Definition k_end : str := [101; 110; 100].
Definition k_address_size : str := [97; 100; 100; 114; 101; 115; 115; 95; 115; 105; 122; 101].
Definition k_origin : str := [111; 114; 105; 103; 105; 110].
Definition k_min_version : str := [109; 105; 110; 95; 118; 101; 114; 115; 105; 111; 110].
Definition k_bytecode : str := [98; 121; 116; 101; 99; 111; 100; 101].
Definition k_variants : str := [118; 97; 114; 105; 97; 110; 116; 115].
Definition k_operands : str := [111; 112; 101; 114; 97; 110; 100; 115].
Definition k_count : str := [99; 111; 117; 110; 116].
Definition k_list : str := [108; 105; 115; 116].
Definition k_specific_operands : str := [115; 112; 101; 99; 105; 102; 105; 99; 95; 111; 112; 101; 114; 97; 110; 100; 115].
Definition k_index_operands : str := [105; 110; 100; 101; 120; 95; 111; 112; 101; 114; 97; 110; 100; 115].
Definition k_type : str := [116; 121; 112; 101].
Definition k_register : str := [114; 101; 103; 105; 115; 116; 101; 114].
Definition k_min : str := [109; 105; 110].
Definition k_max : str := [109; 97; 120].
Definition k_operand_values : str := [111; 112; 101; 114; 97; 110; 100; 95; 118; 97; 108; 117; 101; 115].
Definition k_indirect_register : str := [105; 110; 100; 105; 114; 101; 99; 116; 95; 114; 101; 103; 105; 115; 116; 101; 114].
Definition k_indexed_register : str := [105; 110; 100; 101; 120; 101; 100; 95; 114; 101; 103; 105; 115; 116; 101; 114].
Definition k_indirect_indexed_register : str := [105; 110; 100; 105; 114; 101; 99; 116; 95; 105; 110; 100; 101; 120; 101; 100; 95; 114; 101; 103; 105; 115; 116; 101; 114].
Definition k_relative_address : str := [114; 101; 108; 97; 116; 105; 118; 101; 95; 97; 100; 100; 114; 101; 115; 115].
Definition k_argument : str := [97; 114; 103; 117; 109; 101; 110; 116].
Definition k_numeric_bytecode : str := [110; 117; 109; 101; 114; 105; 99; 95; 98; 121; 116; 101; 99; 111; 100; 101].

Fixpoint yassoc (m : list (str * yv)) (k : str) : option yv :=
  match m with [] => None | (a, v) :: r => if str_eqb a k then Some v else yassoc r k end.

Definition yget (v : yv) (k : str) : option yv := match v with YMap m => yassoc m k | _ => None end.
Definition yhas (v : yv) (k : str) : bool := match yget v k with Some _ => true | None => false end.
Definition ymap (o : option yv) : list (str * yv) := match o with Some (YMap m) => m | _ => [] end.       (* `x or {}` *)
Definition ylist (o : option yv) : list yv := match o with Some (YList l) => l | _ => [] end.               (* `x or []` *)
Definition ystr (v : yv) : str := match v with YStr s => s | _ => [] end.
Definition yint (v : yv) (d : Z) : Z := match v with YInt z => z | _ => d end.
Definition keys_of (m : list (str * yv)) : list str := map fst m.
Definition values_of (m : list (str * yv)) : list yv := map snd m.

(* Instruction.__init__: the top level is a variant only if it carries bytecode; then the entries of 'variants' *)
Definition instr_variants (ic : yv) : list yv :=
  (if yhas ic k_bytecode then [ic] else []) ++ ylist (yget ic k_variants).

Definition no_variant : vvariant :=
  {| vv_needs_bytecode := true; vv_has_bytecode := false; vv_has_operands := false; vv_count := None; vv_sets := None;
     vv_specific_lens := [] |}.

Definition variant_of (needs : bool) (v : yv) : vvariant :=
  let ops := yget v k_operands in
  {| vv_needs_bytecode := needs;
     vv_has_bytecode := yhas v k_bytecode;
     vv_has_operands := match ops with Some _ => true | None => false end;
     vv_count := match ops with
                 | Some o => match yget o k_count with Some (YInt c) => Some c | _ => None end
                 | None => None
                 end;
     vv_sets := match ops with
                | Some o => match yget o k_operand_sets with
                            | Some s => Some (map ystr (ylist (yget s k_list)))
                            | None => None
                            end
                | None => None
                end;
     vv_specific_lens := match ops with
                         | Some o => map (fun sc => Z.of_nat (length (ymap (yget sc k_list)))) (values_of (ymap (yget o k_specific_operands)))
                         | None => []
                         end |}.

(* every operand configuration the loader constructs from one configuration: itself and, recursively, its index operands
   (the depth of a YAML document is finite; 8 levels are more than any definition has) *)
Fixpoint opcfgs (fuel : nat) (v : yv) : list yv :=
  match fuel with
  | O => []
  | S f => match v with
           | YMap _ => v :: flat_map (opcfgs f) (values_of (ymap (yget v k_index_operands)))
           | _ => []
           end
  end.

Definition all_variants (doc : yv) : list yv :=
  flat_map instr_variants (values_of (ymap (yget doc k_instructions)))
  ++ flat_map (fun ml => match ml with YList l => l | _ => [] end) (values_of (ymap (yget doc k_macros))).

Definition all_opcfgs (doc : yv) : list yv :=
  flat_map (fun s => flat_map (opcfgs 8) (values_of (ymap (yget s k_operand_values)))) (values_of (ymap (yget doc k_operand_sets)))
  ++ flat_map (fun v =>
       flat_map (fun sc => flat_map (opcfgs 8) (values_of (ymap (yget sc k_list))))
                (values_of (ymap (match yget v k_operands with Some o => yget o k_specific_operands | None => None end))))
     (all_variants doc).

Definition is_reg_type (t : str) : bool :=
  str_eqb t k_register || str_eqb t k_indirect_register || str_eqb t k_indexed_register || str_eqb t k_indirect_indexed_register.

Definition type_of (oc : yv) : str := match yget oc k_type with Some t => ystr t | None => [] end.

Definition abstract_doc (doc : yv) : vcfg :=
  let g := match yget doc k_general with Some x => x | None => YMap [] end in
  {| vc_general := yhas doc k_general; vc_instructions := yhas doc k_instructions; vc_operand_sets := yhas doc k_operand_sets;
     vc_keywords := KEYWORDS;
     vc_mnemonics := keys_of (ymap (yget doc k_instructions));
     vc_macros := keys_of (ymap (yget doc k_macros));
     vc_registers := map ystr (ylist (yget g k_registers));
     vc_set_names := keys_of (ymap (yget doc k_operand_sets));
     vc_variants :=
       flat_map (fun ic => match instr_variants ic with
                           | [] => [no_variant]
                           | vs => map (variant_of true) vs
                           end) (values_of (ymap (yget doc k_instructions)))
       ++ flat_map (fun ml => map (variant_of false) (match ml with YList l => l | _ => [] end)) (values_of (ymap (yget doc k_macros)));
     vc_reg_operands := flat_map (fun oc => if is_reg_type (type_of oc)
                                            then [match yget oc k_register with Some r => ystr r | None => [] end] else [])
                                 (all_opcfgs doc);
     vc_ranges := flat_map (fun oc => if str_eqb (type_of oc) k_numeric_bytecode
                                      then match yget oc k_bytecode with
                                           | Some bc => [(match yget bc k_min with Some x => yint x 0 | None => 0 end,
                                                          match yget bc k_max with Some x => yint x 0 | None => 0 end)]
                                           | None => []
                                           end
                                      else if str_eqb (type_of oc) k_relative_address
                                      (* a relative address: checked only when both bounds are configured (D48) *)
                                      then match yget oc k_argument with
                                           | Some a => match yget a k_min, yget a k_max with
                                                       | Some (YInt lo), Some (YInt hi) => [(lo, hi)]
                                                       | _, _ => []
                                                       end
                                           | None => []
                                           end
                                      else []) (all_opcfgs doc);
     vc_addr_bits := match yget g k_address_size with Some x => yint x 16 | None => 16 end;
     vc_zones := map (fun z => (match yget z k_name with Some n => ystr n | None => [] end,
                                match yget z k_start with Some x => yint x 0 | None => 0 end,
                                match yget z k_end with Some x => yint x 0 | None => 0 end))
                     (ylist (match yget doc k_predefined with Some p => yget p k_memory_zones | None => None end));
     vc_origin := match yget g k_origin with Some x => yint x 0 | None => 0 end;
     vc_min_version := match yget g k_min_version with
                       | Some (YStr s) => Some (parse_version s)
                       | Some _ => Some None
                       | None => None
                       end |}.

Definition run_validate_doc (doc : yv) : bool := validate (abstract_doc doc).

(* ProgramProofs.v — theorems about the whole-program model (Program.v). *)
From BA Require Import Base Bits BitsSpec BitsProofs Expr Subst Cond CondEval Layout LayoutProofs Data Program.
From Coq Require Import ZifyBool.
Ltac Zify.zify_post_hook ::= Z.to_euclidean_division_equations.
Local Open Scope Z_scope.

(* ------------------------------------------------------------------------------------------ *)
(* C02: the bytes a line finally emits are exactly the space reserved for it in pass 1          *)

Lemma mapM_length {A B} (f : A -> result B) l : forall r, mapM f l = Ok r -> length r = length l.
Proof.
  induction l as [|x xs IH]; intros r; cbn [mapM].
  - intros H; inversion H; reflexivity.
  - destruct (f x) as [y| |]; cbn [bind]; try discriminate.
    destruct (mapM f xs) as [ys| |]; cbn [bind]; try discriminate.
    intros H; inversion H; subst. cbn [length]. f_equal. now apply IH.
Qed.

Lemma to_bytes_le_len v n : length (to_bytes_le v n) = n.
Proof. revert v; induction n as [|n IH]; intros v; cbn; [reflexivity|]. now rewrite IH. Qed.

Lemma data_value_bytes_length w e v : length (data_value_bytes w e v) = w.
Proof. unfold data_value_bytes. destruct e; [rewrite rev_length|]; apply to_bytes_le_len. Qed.

Lemma flat_map_const_length {A B} (f : A -> list B) n l :
  (forall x, length (f x) = n) -> length (flat_map f l) = (length l * n)%nat.
Proof.
  intros H. induction l as [|x xs IH]; cbn [flat_map length]; [reflexivity|].
  rewrite app_length, H, IH. lia.
Qed.

Lemma fill_bytes_length n v : 0 <= n -> Z.of_nat (length (fill_bytes n v)) = n.
Proof. intros H. unfold fill_bytes. rewrite repeat_length. lia. Qed.

Lemma total_bits_sizes_only ps qs :
  map (fun p => (p_size p, p_align p)) ps = map (fun p => (p_size p, p_align p)) qs ->
  forall tb, fold_left total_bits_step ps tb = fold_left total_bits_step qs tb.
Proof.
  revert qs. induction ps as [|p ps IH]; intros [|q qs] H tb; cbn in H; try discriminate; [reflexivity|].
  inversion H as [[H1 H2 H3]]. cbn [fold_left].
  assert (Hs : total_bits_step tb p = total_bits_step tb q) by (unfold total_bits_step; now rewrite H1, H2).
  rewrite Hs. now apply IH.
Qed.

Lemma byte_size_sizes_only ps qs :
  map (fun p => (p_size p, p_align p)) ps = map (fun p => (p_size p, p_align p)) qs -> byte_size ps = byte_size qs.
Proof. intros H. unfold byte_size, total_bits. now rewrite (total_bits_sizes_only ps qs H). Qed.

Lemma get_bytes_length ps bs : get_bytes ps = Ok bs -> Z.of_nat (length bs) = byte_size ps.
Proof.
  unfold get_bytes. destruct (append_parts p_init ps) as [s| |]; cbn [bind]; try discriminate.
  destruct (Z.of_nat (length (p_bytes s)) =? byte_size ps) eqn:E; [|discriminate].
  intros H; inversion H; subst. lia.
Qed.

Lemma combine_map_fst {A B} (l : list A) (r : list B) : length r = length l -> map fst (combine l r) = l.
Proof.
  revert r; induction l as [|x xs IH]; intros [|y ys] H; cbn in *; try discriminate; [reflexivity|].
  f_equal. apply IH. lia.
Qed.

Lemma instr_bytes_length ev addr ips bs :
  instr_bytes ev addr ips = Ok bs -> Z.of_nat (length bs) = instr_size ips.
Proof.
  unfold instr_bytes. destruct (mapM _ ips) as [vals| |] eqn:Em; cbn [bind]; try discriminate.
  intros H. apply get_bytes_length in H. rewrite H. unfold instr_size.
  apply byte_size_sizes_only. rewrite !map_map. cbn [p_size p_align].
  pose proof (mapM_length _ _ _ Em) as Hl.
  rewrite <- (combine_map_fst ips vals Hl) at 2. rewrite map_map. reflexivity.
Qed.

(* whatever the label values: if pass 1 reserved n bytes for a byte-producing line and pass 2 produced its
   bytes, there are exactly n of them *)
Theorem reserved_eq_emitted cfg ls1 ls2 (s : sized) bs :
  is_byte_stmt (p_stmt (s_line s)) = true ->
  line_size (eval_in cfg ls1 (p_scope (s_line s))) (s_addr s) (p_stmt (s_line s)) = Ok (s_size s) ->
  gen_bytes cfg ls2 s = Ok bs ->
  Z.of_nat (length bs) = s_size s.
Proof.
  unfold gen_bytes, line_size. destruct (p_stmt (s_line s)) as [n|n e|w e vals|b|c v|a|ips|steps|e z|z|e|]; cbn [is_byte_stmt];
    intros Hb Hsz Hg; try discriminate.
  - (* SData *)
    destruct (mapM _ vals) as [vs| |] eqn:Em; cbn [bind] in Hg; try discriminate.
    injection Hg as <-. injection Hsz as Hs.
    rewrite (flat_map_const_length _ w) by apply data_value_bytes_length.
    rewrite (mapM_length _ _ _ Em). lia.
  - (* SBytes *) injection Hg as <-. injection Hsz as Hs. exact Hs.
  - (* SFill *)
    destruct (eval_in cfg ls1 _ c) as [n| |]; cbn [bind] in Hsz; try discriminate.
    destruct (n <? 0) eqn:E; [discriminate|]. injection Hsz as Hs.
    destruct (eval_in cfg ls2 _ v) as [x| |]; cbn [bind] in Hg; try discriminate.
    injection Hg as <-. rewrite <- Hs. apply fill_bytes_length. lia.
  - (* SZeroUntil *)
    destruct (eval_in cfg ls1 _ a) as [t| |]; cbn [bind] in Hsz; try discriminate.
    injection Hsz as Hs. injection Hg as <-. rewrite <- Hs. apply fill_bytes_length.
    rewrite zerountil_size_spec. lia.
  - (* SInstr *)
    injection Hsz as Hs. apply instr_bytes_length in Hg. rewrite Hg. exact Hs.
  - (* SInstrs *)
    injection Hsz as Hs. rewrite <- Hs. clear Hs Hb.
    revert bs Hg. generalize (s_addr s) as a. induction steps as [|ips rest IH]; intros a bs Hg; cbn [instrs_bytes fold_right] in *.
    + injection Hg as <-. reflexivity.
    + destruct (instr_bytes _ a ips) as [b| |] eqn:E1; cbn [bind] in Hg; try discriminate.
      destruct (instrs_bytes _ (a + instr_size ips) rest) as [b2| |] eqn:E2; cbn [bind] in Hg; try discriminate.
      injection Hg as <-. rewrite app_length, Nat2Z.inj_add.
      apply instr_bytes_length in E1. rewrite E1. f_equal. eapply IH. exact E2.
Qed.

(* ------------------------------------------------------------------------------------------ *)
(* C02: a line is placed at its zone's cursor; a label takes the address of the line that follows it *)

Theorem plain_line_at_cursor cfg ev z g s :
  (forall e zn, s <> SOrg e zn) -> (forall e, s <> SAlign e) -> line_addr cfg ev z g s = Ok (z_cur z).
Proof.
  intros H1 H2. destruct s; try reflexivity; [now elim (H1 e z0) | now elim (H2 e)].
Qed.

Theorem align_line_addr cfg ev z g e a :
  line_addr cfg ev z g (SAlign e) = Ok a ->
  exists page, 1 <= page /\ z_cur z <= a /\ a mod page = 0 /\ (forall m, z_cur z <= m -> m mod page = 0 -> a <= m).
Proof.
  cbn [line_addr]. destruct (match e with Some e0 => ev e0 | None => Ok (c_page cfg) end) as [page| |]; cbn [bind]; try discriminate.
  intros H. exists page. now apply align_smallest_multiple.
Qed.

Theorem org_line_addr cfg ev z g e zn a :
  line_addr cfg ev z g (SOrg e zn) = Ok a ->
  exists v, ev e = Ok v /\ a = match zn with None => v | Some _ => z_start z + v end /\ z_start g <= a <= z_end g.
Proof.
  cbn [line_addr]. destruct (ev e) as [v| |]; cbn [bind]; try discriminate.
  destruct ((_ <? z_start g) || (_ >? z_end g)) eqn:E; [discriminate|].
  intros H; inversion H; subst. exists v. repeat split; try reflexivity; lia.
Qed.

(* a label, a constant, a directive reserve no bytes: the next line of the zone starts where they are *)
Theorem non_byte_line_size ev addr s : is_byte_stmt s = false -> line_size ev addr s = Ok 0.
Proof. destruct s; cbn; try discriminate; reflexivity. Qed.

(* find/update on zones *)
Lemma name_eqb_refl n : name_eqb n n = true.
Proof. apply list_eqb_refl, Z.eqb_refl. Qed.

Lemma name_eqb_eq a b : name_eqb a b = true -> a = b.
Proof.
  unfold name_eqb. revert b; induction a as [|x a IH]; intros [|y b]; cbn; try discriminate; [reflexivity|].
  intros H. apply andb_prop in H as [H1 H2]. apply Z.eqb_eq in H1. subst. f_equal. now apply IH.
Qed.

Lemma find_update_same zs z z' :
  find_zone zs (z_name z') = Some z -> find_zone (update_zone zs z') (z_name z') = Some z'.
Proof.
  induction zs as [|x r IH]; cbn [find_zone update_zone]; [discriminate|].
  destruct (name_eqb (z_name x) (z_name z')) eqn:E.
  - intros _. cbn [find_zone]. now rewrite name_eqb_refl.
  - intros H. cbn [find_zone]. rewrite E. now apply IH.
Qed.

Lemma find_update_other zs z' n :
  n <> z_name z' -> find_zone (update_zone zs z') n = find_zone zs n.
Proof.
  intros Hn. induction zs as [|x r IH]; cbn [find_zone update_zone]; [reflexivity|].
  destruct (name_eqb (z_name x) (z_name z')) eqn:E.
  - cbn [find_zone]. apply name_eqb_eq in E.
    destruct (name_eqb (z_name z') n) eqn:E2; [apply name_eqb_eq in E2; congruence|].
    rewrite E. now rewrite E2.
  - cbn [find_zone]. destruct (name_eqb (z_name x) n); [reflexivity | exact IH].
Qed.

(* C05: lines of other zones never move a zone's cursor; the line's own zone cursor becomes addr + size *)
Theorem pass1_step_cursors zs z z' addr size n :
  find_zone zs (z_name z) = Some z -> set_cursor z (addr + size) = Ok z' ->
  (n <> z_name z -> find_zone (update_zone zs z') n = find_zone zs n)
  /\ exists z2, find_zone (update_zone zs z') (z_name z) = Some z2 /\ z_cur z2 = addr + size
               /\ z_start z2 = z_start z /\ z_end z2 = z_end z.
Proof.
  intros Hf Hs. apply set_cursor_spec in Hs as [H1 [H2 [H3 [H4 H5]]]]. split.
  - intros Hn. apply find_update_other. congruence.
  - exists z'. rewrite <- H5. split; [apply (find_update_same zs z z'); now rewrite H5 | auto].
Qed.

(* every zone keeps start <= cursor <= end + 1 throughout pass 1, and zone bounds never change *)
Definition zones_wf (zs : list zone) : Prop := Forall zone_wf zs.

Lemma update_zone_wf zs z' : zones_wf zs -> zone_wf z' -> zones_wf (update_zone zs z').
Proof.
  intros H Hz. induction H as [|x r Hx Hr IH]; cbn [update_zone]; [constructor|].
  destruct (name_eqb (z_name x) (z_name z')); constructor; assumption.
Qed.

Theorem pass1_zones_wf cfg : forall ps zs ls acc out zs' ls',
  zones_wf zs -> pass1 cfg zs ls ps acc = Ok (out, zs', ls') -> zones_wf zs'.
Proof.
  induction ps as [|p rest IH]; intros zs ls acc out zs' ls' Hwf H; cbn [pass1] in H.
  - inversion H; subst. exact Hwf.
  - destruct (find_zone zs (p_zone p)) as [z|]; [|discriminate].
    destruct (find_zone zs GLOBAL) as [g|]; [|discriminate].
    destruct (line_addr cfg _ z g (p_stmt p)) as [addr| |]; cbn [bind] in H; try discriminate.
    destruct (line_size _ addr (p_stmt p)) as [size| |]; cbn [bind] in H; try discriminate.
    destruct (set_cursor z (addr + size)) as [z'| |] eqn:Hs; cbn [bind] in H; try discriminate.
    destruct (match p_stmt p with SLabel n => _ | _ => Ok ls end) as [ls2| |]; cbn [bind] in H; try discriminate.
    eapply IH; [|exact H]. apply update_zone_wf; [exact Hwf | eapply set_cursor_wf; exact Hs].
Qed.

(* every byte of a byte-producing line placed at its zone's cursor lies inside that zone (else it was rejected) *)
Theorem placed_bytes_inside_zone z addr size z' :
  zone_wf z -> addr = z_cur z -> 1 <= size -> set_cursor z (addr + size) = Ok z' ->
  forall a, addr <= a < addr + size -> z_start z <= a <= z_end z.
Proof. intros Hwf -> Hs H. now apply (bytes_inside_zone z size z'). Qed.

(* ------------------------------------------------------------------------------------------ *)
(* C06: a reference resolves only to a definition visible from the referencing line              *)

Theorem lookup_sound regs ls sc n v :
  lookup_label regs ls sc n = Some v ->
  (exists f r, sc = ScLocal f r /\ lfind ls (KLocal r n) = Some v)
  \/ lfind ls (KFile (scope_file sc) n) = Some v
  \/ (reg_mem n regs = false /\ lfind ls (KGlobal n) = Some v).
Proof.
  unfold lookup_label. destruct sc as [f|f r]; cbn [scope_file].
  - destruct (lfind ls (KFile f n)) as [x|] eqn:E1; [intros H; inversion H; subst; right; left; reflexivity|].
    destruct (reg_mem n regs) eqn:E; [discriminate|]. intros H. right. right. split; [reflexivity | exact H].
  - destruct (lfind ls (KLocal r n)) as [x|] eqn:E0;
      [intros H; inversion H; subst; left; exists f, r; split; [reflexivity | exact E0]|].
    destruct (lfind ls (KFile f n)) as [x|] eqn:E1; [intros H; inversion H; subst; right; left; reflexivity|].
    destruct (reg_mem n regs) eqn:E; [discriminate|]. intros H. right. right. split; [reflexivity | exact H].
Qed.

(* labels are stored under the key their prefix prescribes: a local label under its own region, a file label under its
   own file; so a same-named label of another region or another file is never found *)
Theorem set_label_key kw ls sc n v ls' :
  set_label kw ls sc n v = Ok ls' ->
  exists k, ls' = ls ++ [(k, v)] /\ lfind ls k = None /\
    match label_kind n with
    | LkGlobal => k = KGlobal n
    | LkFile => k = KFile (scope_file sc) n
    | LkLocal => exists f r, sc = ScLocal f r /\ k = KLocal r n
    end.
Proof.
  unfold set_label. destruct (mem (base_name n) kw); [discriminate|].
  destruct (label_kind n) eqn:K.
  - destruct (lfind ls (KGlobal n)) eqn:E; [discriminate|]. intros H; inversion H; subst. eauto.
  - destruct (lfind ls (KFile (scope_file sc) n)) eqn:E; [discriminate|]. intros H; inversion H; subst. eauto.
  - destruct sc as [f|f r]; [discriminate|].
    destruct (lfind ls (KLocal r n)) eqn:E; [discriminate|]. intros H; inversion H; subst.
    exists (KLocal r n). repeat split; eauto.
Qed.

(* defining a name twice in one scope is rejected; a local label without an enclosing non-local label is rejected;
   a keyword is rejected *)
Theorem set_label_duplicate kw ls sc n v v' ls1 :
  set_label kw ls sc n v = Ok ls1 -> set_label kw ls1 sc n v' = Rejected.
Proof.
  intros H. destruct (set_label_key _ _ _ _ _ _ H) as [k [-> [Hnone Hk]]].
  unfold set_label in *. destruct (mem (base_name n) kw); [discriminate|].
  assert (Hfind : forall k0, lkey_eqb k0 k0 = true).
  { intros [x|f x|r x]; cbn; rewrite ?Nat.eqb_refl; cbn; apply list_eqb_refl, Z.eqb_refl. }
  assert (Hl : forall l, lfind l k = None -> lfind (l ++ [(k, v)]) k = Some v).
  { induction l as [|[k1 v1] r IH]; cbn [lfind app]; [intros _; now rewrite Hfind|].
    destruct (lkey_eqb k1 k); [discriminate | exact IH]. }
  destruct (label_kind n).
  - subst k. now rewrite (Hl ls Hnone).
  - subst k. now rewrite (Hl ls Hnone).
  - destruct Hk as [f [r [-> ->]]]. now rewrite (Hl ls Hnone).
Qed.

Theorem set_label_local_without_region kw ls f n v :
  label_kind n = LkLocal -> set_label kw ls (ScFile f) n v = Rejected.
Proof. intros H. unfold set_label. destruct (mem (base_name n) kw); [reflexivity|]. now rewrite H. Qed.

Theorem set_label_keyword kw ls sc n v : mem (base_name n) kw = true -> set_label kw ls sc n v = Rejected.
Proof. intros H. unfold set_label. now rewrite H. Qed.

(* a register name never resolves as a label through the global scope *)
Theorem register_not_a_label regs ls f n :
  reg_mem n regs = true -> lfind ls (KFile f n) = None -> lookup_label regs ls (ScFile f) n = None.
Proof. intros H1 H2. unfold lookup_label. cbn. now rewrite H2, H1. Qed.

(* ------------------------------------------------------------------------------------------ *)
(* C12: configured operand value constraints are enforced: a part's value is produced iff it satisfies them *)

Definition sat_max (v : Z) (mx : option Z) : Prop := match mx with None => True | Some m => v <= m end.
Definition sat_min (v : Z) (mn : option Z) : Prop := match mn with None => True | Some m => m <= v end.
Definition sat_bounds (v : Z) (b : option (Z * Z)) : Prop := match b with None => True | Some (lo, hi) => lo <= v <= hi end.

Lemma opt_le_iff v mx : opt_le v mx = true <-> sat_max v mx.
Proof. destruct mx; cbn; [lia | tauto]. Qed.
Lemma opt_ge_iff v mn : opt_ge v mn = true <-> sat_min v mn.
Proof. destruct mn; cbn; [lia | tauto]. Qed.
Lemma in_bounds_iff v b : in_bounds b v = true <-> sat_bounds v b.
Proof. destruct b as [[lo hi]|]; cbn; [lia | tauto]. Qed.

Definition mkpart (pv : pval) (size : Z) (al : bool) (e : endian) : ipart :=
  {| ip_val := pv; ip_size := size; ip_align := al; ip_endian := e |}.

Theorem part_minmax ev addr isz e mx mn size al en r :
  part_value ev addr isz (mkpart (VValid e mx mn) size al en) = Ok r
  <-> ev e = Ok r /\ sat_max r mx /\ sat_min r mn.
Proof.
  unfold part_value, mkpart. cbn [ip_val]. destruct (ev e) as [v| |]; cbn [bind].
  - split.
    + destruct (opt_le v mx) eqn:E1; destruct (opt_ge v mn) eqn:E2; cbn [andb]; intros H; try discriminate.
      injection H as <-. repeat split; [now apply opt_le_iff | now apply opt_ge_iff].
    + intros [H [H1 H2]]. injection H as <-. apply opt_le_iff in H1. apply opt_ge_iff in H2. now rewrite H1, H2.
  - split; [discriminate | intros [H _]; discriminate].
  - split; [discriminate | intros [H _]; discriminate].
Qed.

Theorem part_zone ev addr isz e b size al en r :
  part_value ev addr isz (mkpart (VZone e b) size al en) = Ok r <-> ev e = Ok r /\ sat_bounds r b.
Proof.
  unfold part_value, mkpart. cbn [ip_val]. destruct (ev e) as [v| |]; cbn [bind].
  - split.
    + destruct (in_bounds b v) eqn:E; intros H; try discriminate. injection H as <-. split; [reflexivity | now apply in_bounds_iff].
    + intros [H H1]. injection H as <-. apply in_bounds_iff in H1. now rewrite H1.
  - split; [discriminate | intros [H _]; discriminate].
  - split; [discriminate | intros [H _]; discriminate].
Qed.

Theorem part_enum ev addr isz e d size al en r :
  part_value ev addr isz (mkpart (VEnum e d) size al en) = Ok r
  <-> exists v, ev e = Ok v /\ dict_get d v = Some r.
Proof.
  unfold part_value, mkpart. cbn [ip_val]. destruct (ev e) as [v| |]; cbn [bind].
  - destruct (dict_get d v) as [x|] eqn:E; split.
    + intros H; inversion H; subst. eauto.
    + intros [v' [H1 H2]]. inversion H1; subst. congruence.
    + discriminate.
    + intros [v' [H1 H2]]. inversion H1; subst. congruence.
  - split; [discriminate | intros [v' [H _]]; discriminate].
  - split; [discriminate | intros [v' [H _]]; discriminate].
Qed.

(* relative offsets are measured from the instruction's address, or from its last byte when so configured *)
Theorem part_relative ev addr isz e mn mx from_end b size al en r :
  part_value ev addr isz (mkpart (VRel e mn mx from_end b) size al en) = Ok r
  <-> exists v, ev e = Ok v /\ sat_bounds v b
                /\ r = (if from_end then v - (addr + (isz - 1)) else v - addr)
                /\ sat_max r mx /\ sat_min r mn.
Proof.
  unfold part_value, mkpart. cbn [ip_val]. destruct (ev e) as [v| |]; cbn [bind].
  - destruct (in_bounds b v) eqn:Eb; cbn [negb].
    + set (rel := if from_end then v - addr - (isz - 1) else v - addr).
      destruct (opt_le rel mx) eqn:E1; destruct (opt_ge rel mn) eqn:E2; cbn [andb]; split.
      * intros H; inversion H; subst. exists v. split; [reflexivity|]. split; [now apply in_bounds_iff|].
        split; [unfold rel; destruct from_end; lia|]. split; [now apply opt_le_iff | now apply opt_ge_iff].
      * intros [v' [H1 [H2 [H3 _]]]]. inversion H1; subst. f_equal. unfold rel. destruct from_end; lia.
      * discriminate.
      * intros [v' [H1 [_ [H3 [_ H5]]]]]. inversion H1; subst. apply opt_ge_iff in H5.
        assert (rel = (if from_end then v' - (addr + (isz - 1)) else v' - addr)) by (unfold rel; destruct from_end; lia). congruence.
      * discriminate.
      * intros [v' [H1 [_ [H3 [H4 _]]]]]. inversion H1; subst. apply opt_le_iff in H4.
        assert (rel = (if from_end then v' - (addr + (isz - 1)) else v' - addr)) by (unfold rel; destruct from_end; lia). congruence.
      * discriminate.
      * intros [v' [H1 [_ [H3 [H4 _]]]]]. inversion H1; subst. apply opt_le_iff in H4.
        assert (rel = (if from_end then v' - (addr + (isz - 1)) else v' - addr)) by (unfold rel; destruct from_end; lia). congruence.
    + split; [discriminate|]. intros [v' [H1 [H2 _]]]. inversion H1; subst. apply in_bounds_iff in H2. congruence.
  - split; [discriminate | intros [v' [H _]]; discriminate].
  - split; [discriminate | intros [v' [H _]]; discriminate].
Qed.

(* sliced addresses: the bits above the slice must equal those of the instruction's own address *)
Theorem part_sliced_address ev addr isz e b size al en r :
  0 <= size ->
  (part_value ev addr isz (mkpart (VAddr e b true true) size al en) = Ok r
   <-> exists v, ev e = Ok v /\ sat_bounds v b /\ addr / 2 ^ size = v / 2 ^ size /\ r = v mod 2 ^ size).
Proof.
  intros Hs. unfold part_value, mkpart. cbn [ip_val ip_size andb]. destruct (ev e) as [v| |]; cbn [bind].
  - destruct (in_bounds b v) eqn:Eb; cbn [negb].
    + rewrite !Z.shiftr_div_pow2 by lia.
      replace (2 ^ size - 1) with (Z.ones size) by (rewrite Z.ones_equiv; lia). rewrite Z.land_ones by lia.
      destruct (addr / 2 ^ size =? v / 2 ^ size) eqn:E; split.
      * intros H; inversion H; subst. exists v. repeat split; [now apply in_bounds_iff | lia].
      * intros [v' [H1 [_ [_ H4]]]]. inversion H1; subst. reflexivity.
      * discriminate.
      * intros [v' [H1 [_ [H3 _]]]]. inversion H1; subst. lia.
    + split; [discriminate|]. intros [v' [H1 [H2 _]]]. inversion H1; subst. apply in_bounds_iff in H2. congruence.
  - split; [discriminate | intros [v' [H _]]; discriminate].
  - split; [discriminate | intros [v' [H _]]; discriminate].
Qed.

Theorem part_address_in_zone ev addr isz e b size al en r :
  part_value ev addr isz (mkpart (VAddr e b false false) size al en) = Ok r <-> ev e = Ok r /\ sat_bounds r b.
Proof.
  unfold part_value, mkpart. cbn [ip_val andb]. destruct (ev e) as [v| |]; cbn [bind].
  - split.
    + destruct (in_bounds b v) eqn:E; cbn [negb]; intros H; try discriminate. injection H as <-.
      split; [reflexivity | now apply in_bounds_iff].
    + intros [H H1]. injection H as <-. apply in_bounds_iff in H1. now rewrite H1.
  - split; [discriminate | intros [H _]; discriminate].
  - split; [discriminate | intros [H _]; discriminate].
Qed.

(* Cond.v — implementation model of conditional assembly as performed while a file is read:
     src/bespokeasm/assembler/preprocessor/condition_stack.py  (ConditionStack.process_condition / currently_active, mute counter)
     src/bespokeasm/assembler/preprocessor/condition.py        (parent checks of #elif / #else)
     src/bespokeasm/assembler/line_object/preprocessor_line/factory.py (directives take effect only in a selected branch)
     src/bespokeasm/assembler/assembly_file.py:97-115          (compilable / is_muted flags of every parsed line)
   The evaluation of a condition against the symbol table is a parameter ([ceval]); its concrete
   definition (symbol substitution + expression evaluation + comparison) is in CondEval.v.  No proofs here. *)
From BA Require Export Base.

Section Cond.
  Variable sym : Type.                 (* symbol table *)
  Variable cond : Type.                (* a condition as written on an #if / #elif / #ifdef / #ifndef line *)
  Variable ceval : sym -> cond -> result bool.          (* may be Rejected (syntax error, ...) *)
  Variable payload : Type.             (* a directive with a side effect: #define, #create_memzone, ... *)
  Variable apply : sym -> payload -> result sym.        (* duplicate definition => Rejected *)
  Variable lineT outT : Type.          (* an ordinary source line, and what it contributes when selected *)
  Variable emit : sym -> lineT -> result outT.          (* symbol substitution happens against the table at that point *)

  Inductive directive :=
  | DOpen (c : cond)                   (* #if / #ifdef / #ifndef *)
  | DElif (c : cond)
  | DElse
  | DEndif
  | DMute
  | DUnmute
  | DEffect (p : payload)
  | DLine (l : lineT).                 (* any ordinary line *)

  Inductive kind := KOpen | KElif | KElse.

  (* one entry of ConditionStack._stack/_decisions: kind of the latest directive of the chain and
     (enclosing blocks active, a branch already selected, this branch selected) *)
  Record entry := { e_kind : kind; e_enclosing : bool; e_taken : bool; e_active : bool }.

  Record cstate := {
    st_sym : sym;
    st_mute : nat;                     (* _mute_counter *)
    st_out : list (outT * bool);          (* compilable lines in source order with their is_muted flag (newest first) *)
    st_stack : list entry              (* innermost chain first *)
  }.

  Definition currently_active (stk : list entry) : bool :=
    match stk with [] => true | e :: _ => e_active e end.

  Definition with_stack (s : cstate) (stk : list entry) : cstate :=
    {| st_sym := st_sym s; st_mute := st_mute s; st_out := st_out s; st_stack := stk |}.

  Definition step (s : cstate) (d : directive) : result cstate :=
    let stk := st_stack s in
    match d with
    | DOpen c =>
        let enclosing := currently_active stk in
        if enclosing then
          do b <- ceval (st_sym s) c;
          Ok (with_stack s ({| e_kind := KOpen; e_enclosing := true; e_taken := b; e_active := b |} :: stk))
        else
          Ok (with_stack s ({| e_kind := KOpen; e_enclosing := false; e_taken := false; e_active := false |} :: stk))
    | DElif c =>
        match stk with
        | [] => Rejected                                   (* IndexError -> "no matching counterpart" *)
        | e :: rest =>
            match e_kind e with
            | KElse => Rejected                            (* '#elif can only have #if ... as a parent' *)
            | _ =>
              if e_enclosing e && negb (e_taken e) then
                do b <- ceval (st_sym s) c;
                Ok (with_stack s ({| e_kind := KElif; e_enclosing := e_enclosing e; e_taken := e_taken e || b; e_active := b |} :: rest))
              else
                Ok (with_stack s ({| e_kind := KElif; e_enclosing := e_enclosing e; e_taken := e_taken e; e_active := false |} :: rest))
            end
        end
    | DElse =>
        match stk with
        | [] => Rejected
        | e :: rest =>
            match e_kind e with
            | KElse => Rejected                            (* '#else must have a conditional as a parent' *)
            | _ =>
              let b := e_enclosing e && negb (e_taken e) in
              Ok (with_stack s ({| e_kind := KElse; e_enclosing := e_enclosing e; e_taken := e_taken e || b; e_active := b |} :: rest))
            end
        end
    | DEndif =>
        match stk with
        | [] => Rejected
        | _ :: rest => Ok (with_stack s rest)
        end
    | DMute =>
        if currently_active stk
        then Ok {| st_sym := st_sym s; st_mute := S (st_mute s); st_out := st_out s; st_stack := stk |}
        else Ok s
    | DUnmute =>
        if currently_active stk
        then Ok {| st_sym := st_sym s; st_mute := pred (st_mute s); st_out := st_out s; st_stack := stk |}
        else Ok s
    | DEffect p =>
        if currently_active stk
        then do t <- apply (st_sym s) p;
             Ok {| st_sym := t; st_mute := st_mute s; st_out := st_out s; st_stack := stk |}
        else Ok s
    | DLine l =>
        if currently_active stk
        then do o <- emit (st_sym s) l;
             Ok {| st_sym := st_sym s; st_mute := st_mute s;
                   st_out := (o, negb (Nat.eqb (st_mute s) 0)) :: st_out s; st_stack := stk |}
        else Ok s
    end.

  Fixpoint run (s : cstate) (ds : list directive) : result cstate :=
    match ds with
    | [] => Ok s
    | d :: r => do s' <- step s d; run s' r
    end.

  Definition init (t : sym) : cstate := {| st_sym := t; st_mute := 0; st_out := []; st_stack := [] |}.

  (* what a whole file contributes: selected lines in source order with mute flags, and the final table *)
  Definition run_file (t : sym) (ds : list directive) : result (list (outT * bool) * sym) :=
    do s <- run (init t) ds; Ok (rev (st_out s), st_sym s).

End Cond.

Arguments DOpen {cond payload lineT}.
Arguments DElif {cond payload lineT}.
Arguments DElse {cond payload lineT}.
Arguments DEndif {cond payload lineT}.
Arguments DMute {cond payload lineT}.
Arguments DUnmute {cond payload lineT}.
Arguments DEffect {cond payload lineT}.
Arguments DLine {cond payload lineT}.

(* MatchProofs.v — theorems about operand matching, field ordering and macro expansion (Match.v). *)
From BA Require Import Base Bits Expr Subst Layout Program Match.
From Coq Require Import ZifyBool Sorting.Permutation Sorting.Sorted.
Local Open Scope Z_scope.

(* ------------------------------------------------------------------------------------------ *)
(* C13: selection follows definition order and the documented type priority only                *)

Definition variant_rejects regs ops (v : variant) : Prop := variant_parts regs v ops = inl None.

(* the selected variant is the first, in definition order, that accepts the operands *)
Theorem select_first_accepting regs ops vs1 v vs2 ps :
  Forall (variant_rejects regs ops) vs1 ->
  variant_parts regs v ops = inl (Some ps) ->
  select_variant regs (vs1 ++ v :: vs2) ops = Ok ps.
Proof.
  intros Hrej Hacc. induction Hrej as [|x r Hx Hr IH]; cbn [app select_variant].
  - now rewrite Hacc.
  - unfold variant_rejects in Hx. now rewrite Hx.
Qed.

(* a statement no variant accepts is rejected *)
Theorem select_none_rejected regs ops vs :
  Forall (variant_rejects regs ops) vs -> select_variant regs vs ops = Rejected.
Proof.
  induction 1 as [|x r Hx Hr IH]; cbn [select_variant]; [reflexivity|].
  unfold variant_rejects in Hx. now rewrite Hx.
Qed.

(* conversely, whatever is selected comes from a variant all of whose predecessors rejected *)
Theorem select_sound regs ops vs ps :
  select_variant regs vs ops = Ok ps ->
  exists vs1 v vs2, vs = vs1 ++ v :: vs2 /\ Forall (variant_rejects regs ops) vs1 /\ variant_parts regs v ops = inl (Some ps).
Proof.
  induction vs as [|x r IH]; cbn [select_variant]; [discriminate|].
  destruct (variant_parts regs x ops) as [[p|]|[]] eqn:E.
  - intros H; inversion H; subst. exists [], x, r. repeat split; [constructor | exact E].
  - intros H. destruct (IH H) as [vs1 [v [vs2 [-> [H1 H2]]]]].
    exists (x :: vs1), v, vs2. repeat split; [constructor; assumption | exact H2].
  - discriminate.
Qed.

(* within an operand set the alternatives are tried in order; the first that does not say "no" decides *)
Theorem try_set_first regs l1 o l2 txt :
  Forall (fun x => try_operand regs x txt = PNo) l1 ->
  try_operand regs o txt <> PNo ->
  try_set regs (l1 ++ o :: l2) txt = try_operand regs o txt.
Proof.
  intros H Ho. induction H as [|x r Hx Hr IH]; cbn [app try_set].
  - destruct (try_operand regs o txt); [reflexivity | now elim Ho | reflexivity].
  - now rewrite Hx.
Qed.

Theorem try_set_none regs l txt :
  Forall (fun x => try_operand regs x txt = PNo) l -> try_set regs l txt = PNo.
Proof. induction 1 as [|x r Hx Hr IH]; cbn [try_set]; [reflexivity|]. now rewrite Hx. Qed.

(* the order tried inside a set is the definition order stably sorted by the type priority *)
Definition prio_le (a b : opcfg) : Prop := kind_priority (op_kind a) <= kind_priority (op_kind b).

Lemma insert_op_perm x l : Permutation (insert_op x l) (x :: l).
Proof.
  induction l as [|y r IH]; cbn [insert_op]; [reflexivity|].
  destruct (kind_priority (op_kind y) <=? kind_priority (op_kind x)); [|reflexivity].
  rewrite IH. apply perm_swap.
Qed.

Lemma insert_op_sorted x l : StronglySorted prio_le l -> StronglySorted prio_le (insert_op x l).
Proof.
  induction 1 as [|y r Hs IH Hall]; cbn [insert_op]; [repeat constructor|].
  destruct (kind_priority (op_kind y) <=? kind_priority (op_kind x)) eqn:E.
  - constructor; [exact IH|]. rewrite Forall_forall. intros z Hz.
    apply (Permutation_in _ (insert_op_perm x r)) in Hz. destruct Hz as [<-|Hz].
    + unfold prio_le. lia.
    + rewrite Forall_forall in Hall. now apply Hall.
  - constructor; [constructor; assumption|]. constructor; [unfold prio_le; lia|].
    rewrite Forall_forall in *. intros z Hz. specialize (Hall z Hz). unfold prio_le in *. lia.
Qed.

Lemma fold_insert_sorted l : forall acc, StronglySorted prio_le acc ->
  StronglySorted prio_le (fold_left (fun a x => insert_op x a) l acc).
Proof. induction l as [|x r IH]; intros acc H; cbn [fold_left]; [exact H|]. apply IH. now apply insert_op_sorted. Qed.

Lemma fold_insert_perm l : forall acc, Permutation (fold_left (fun a x => insert_op x a) l acc) (acc ++ l).
Proof.
  induction l as [|x r IH]; intros acc; cbn [fold_left]; [now rewrite app_nil_r|].
  rewrite IH, insert_op_perm. rewrite <- Permutation_middle. reflexivity.
Qed.

Theorem sort_ops_sorted l : StronglySorted prio_le (sort_ops l) /\ Permutation (sort_ops l) l.
Proof.
  unfold sort_ops. split; [apply fold_insert_sorted; constructor | apply (fold_insert_perm l [])].
Qed.

(* stability: alternatives of equal priority keep their definition order (x defined before y => x tried before y) *)
Lemma insert_op_after_equal x l :
  Forall (fun y => kind_priority (op_kind y) <= kind_priority (op_kind x)) l -> insert_op x l = l ++ [x].
Proof.
  induction 1 as [|y r Hy Hr IH]; cbn [insert_op app]; [reflexivity|].
  destruct (kind_priority (op_kind y) <=? kind_priority (op_kind x)) eqn:E; [now rewrite IH | lia].
Qed.

Theorem sort_ops_stable_same_priority l :
  (forall a b, In a l -> In b l -> kind_priority (op_kind a) = kind_priority (op_kind b)) -> sort_ops l = l.
Proof.
  intros H. unfold sort_ops.
  assert (G : forall r acc, (forall a b, In a (acc ++ r) -> In b (acc ++ r) -> kind_priority (op_kind a) = kind_priority (op_kind b)) ->
                fold_left (fun a x => insert_op x a) r acc = acc ++ r).
  { induction r as [|x r IH]; intros acc Hs; cbn [fold_left]; [now rewrite app_nil_r|].
    rewrite insert_op_after_equal.
    - rewrite IH; [now rewrite <- app_assoc|]. intros a b Ha Hb. apply Hs; rewrite <- app_assoc in *; assumption.
    - rewrite Forall_forall. intros y Hy.
      rewrite (Hs y x); [lia | apply in_or_app; now left | apply in_or_app; right; now left]. }
  apply (G l []). exact H.
Qed.

(* explicitly listed operand combinations are tried before operand sets *)
Theorem specific_before_sets regs pp ops sps m :
  negb ((pp_count pp =? 0) && Nat.eqb (length ops) 0) = true ->
  pp_specific pp = Some sps -> find_specific regs sps ops (pp_count pp) = MOk m ->
  find_matching regs pp ops = MOk m.
Proof.
  intros Hc Hs Hf. unfold find_matching. apply negb_true_iff in Hc. rewrite Hc, Hs, Hf. reflexivity.
Qed.

(* a disallowed combination is skipped *)
Theorem disallowed_skipped regs sm ops ms :
  Nat.eqb (length ops) (length (sm_sets sm)) = true ->
  match_sets regs (sm_sets sm) ops [] = inl (Some ms) ->
  existsb (ids_eqb (map m_id ms)) (sm_disallowed sm) = true ->
  find_sets regs sm ops = MNo.
Proof. intros H1 H2 H3. unfold find_sets. now rewrite H1, H2, H3. Qed.

(* a register name is never accepted where a numeric expression or label is expected *)
Theorem register_never_numeric regs o a valid txt m :
  op_kind o = KNumeric a valid -> try_operand regs o txt = PMatch m ->
  exists ts e, plain_tokens txt = Some ts /\ parse_tokens ts = Ok e /\ mentions_register regs e = false.
Proof.
  intros Hk. unfold try_operand. rewrite Hk.
  destruct (has_square txt || has_brace txt); [discriminate|].
  destruct (plain_tokens txt) as [ts|]; [|discriminate].
  unfold numeric_arg. destruct (parse_tokens ts) as [e| |] eqn:E; try discriminate.
  destruct (mentions_register regs e) eqn:R; [discriminate|]. intros _. eauto.
Qed.

Theorem register_never_address regs o a b s ms txt m :
  op_kind o = KAddress a b s ms -> try_operand regs o txt = PMatch m ->
  exists ts e, plain_tokens txt = Some ts /\ parse_tokens ts = Ok e /\ mentions_register regs e = false.
Proof.
  intros Hk. unfold try_operand. rewrite Hk.
  destruct (has_square txt || has_brace txt); [discriminate|].
  destruct (plain_tokens txt) as [ts|]; [|discriminate].
  destruct (parse_tokens ts) as [e| |] eqn:E; try discriminate.
  destruct (mentions_register regs e) eqn:R; [discriminate|]. intros _. eauto.
Qed.

(* ------------------------------------------------------------------------------------------ *)
(* C01: the documented field order                                                              *)

Definition prefix_codes (ops : list matched) : list ipart :=
  flat_map (fun x => match m_code x, m_pos x with Some c, PosPrefix => [c] | _, _ => [] end) ops.
Definition suffix_codes (ops : list matched) : list ipart :=
  flat_map (fun x => match m_code x, m_pos x with Some c, PosSuffix => [c] | _, _ => [] end) ops.
Definition arguments (ops : list matched) : list ipart :=
  flat_map (fun x => match m_arg x with Some a => [a] | None => [] end) ops.

Lemma fold_prefix_rev ops : forall acc,
  fold_left (fun acc x => match m_code x, m_pos x with Some c, PosPrefix => c :: acc | _, _ => acc end) ops acc
  = rev (prefix_codes ops) ++ acc.
Proof.
  induction ops as [|x r IH]; intros acc; cbn [fold_left prefix_codes flat_map]; [reflexivity|].
  rewrite IH. fold (prefix_codes r).
  destruct (m_code x) as [c|]; [destruct (m_pos x)|]; cbn [app rev]; try reflexivity.
  now rewrite <- app_assoc.
Qed.

(* prefix-positioned operand codes (nearest operand first: mirrored operand order), the opcode, suffix-positioned operand
   codes in operand order, the opcode suffix, then the arguments in operand order; each reverse option reverses exactly the
   group it names: operand codes (both code groups) or arguments *)
Theorem field_order m base suf :
  generate_bytecode m base suf
  = (if ms_rev_code m then prefix_codes (ms_ops m) else rev (prefix_codes (ms_ops m)))
    ++ [base]
    ++ (if ms_rev_code m then rev (suffix_codes (ms_ops m)) else suffix_codes (ms_ops m))
    ++ (match suf with Some s => [s] | None => [] end)
    ++ (if ms_rev_arg m then rev (arguments (ms_ops m)) else arguments (ms_ops m)).
Proof.
  unfold generate_bytecode. rewrite fold_prefix_rev, app_nil_r.
  fold (suffix_codes (ms_ops m)). fold (arguments (ms_ops m)).
  destruct (ms_rev_code m); [rewrite rev_involutive|]; reflexivity.
Qed.

(* the reverse-argument option leaves opcode and operand codes alone, and vice versa *)
Theorem reverse_arg_only_args ops rc base suf :
  exists front,
    generate_bytecode {| ms_ops := ops; ms_rev_arg := false; ms_rev_code := rc |} base suf = front ++ arguments ops
    /\ generate_bytecode {| ms_ops := ops; ms_rev_arg := true; ms_rev_code := rc |} base suf = front ++ rev (arguments ops).
Proof.
  eexists. rewrite !field_order. cbn [ms_rev_arg ms_rev_code ms_ops].
  split; rewrite !app_assoc; reflexivity.
Qed.

(* ------------------------------------------------------------------------------------------ *)
(* C10: a macro assembles to exactly its expanded instruction sequence                          *)

Definition seq_size (steps : list (list ipart)) : Z := fold_right (fun ips acc => instr_size ips + acc) 0 steps.

Lemma seq_size_app a b : seq_size (a ++ b) = seq_size a + seq_size b.
Proof. induction a as [|x r IH]; cbn [app seq_size fold_right]; [reflexivity|]. fold (seq_size (r ++ b)) (seq_size r). lia. Qed.

(* the bytes of a sequence are the bytes of its first part followed by those of the rest assembled where the first part
   ends: so a macro occupies, and emits, exactly what its instructions written out one after the other would *)
Theorem instrs_bytes_app ev a : forall addr b,
  instrs_bytes ev addr (a ++ b)
  = do x <- instrs_bytes ev addr a; do y <- instrs_bytes ev (addr + seq_size a) b; Ok (x ++ y).
Proof.
  induction a as [|ips r IH]; intros addr b; cbn [app instrs_bytes seq_size fold_right bind].
  - rewrite Z.add_0_r. destruct (instrs_bytes ev addr b); reflexivity.
  - destruct (instr_bytes ev addr ips) as [x| |]; cbn [bind]; try reflexivity.
    rewrite IH. fold (seq_size r).
    destruct (instrs_bytes ev (addr + instr_size ips) r) as [y| |]; cbn [bind]; try reflexivity.
    replace (addr + instr_size ips + seq_size r) with (addr + (instr_size ips + seq_size r)) by lia.
    destruct (instrs_bytes ev (addr + (instr_size ips + seq_size r)) b) as [z| |]; cbn [bind]; try reflexivity.
    now rewrite app_assoc.
Qed.

Theorem single_instruction_sequence ev addr ips :
  instrs_bytes ev addr [ips] = instr_bytes ev addr ips.
Proof. cbn [instrs_bytes]. destruct (instr_bytes ev addr ips); cbn [bind]; [now rewrite app_nil_r | reflexivity | reflexivity]. Qed.

Theorem macro_size_is_sum ev addr steps :
  line_size ev addr (SInstrs steps) = Ok (seq_size steps).
Proof. reflexivity. Qed.

(* a placeholder that cannot be filled makes the substitution fail (and the invocation is rejected) *)
Theorem unfilled_placeholder ms n :
  (nth_error ms n = None \/ exists m, nth_error ms n = Some m /\ m_argtoks m = None) ->
  subst_ttok ms (PArg n) = None.
Proof. intros [H|[m [H1 H2]]]; cbn [subst_ttok]; [now rewrite H | now rewrite H1, H2]. Qed.

Theorem unfilled_register_placeholder ms n :
  (nth_error ms n = None \/ exists m, nth_error ms n = Some m /\ m_reg m = None) ->
  subst_ttok ms (PReg n) = None.
Proof. intros [H|[m [H1 H2]]]; cbn [subst_ttok]; [now rewrite H | now rewrite H1, H2]. Qed.

Lemma subst_operand_none ms l t : In t l -> subst_ttok ms t = None -> subst_operand ms l = None.
Proof.
  induction l as [|x r IH]; intros Hin Hn; [contradiction|]. cbn [subst_operand].
  destruct Hin as [->|Hin].
  - now rewrite Hn.
  - rewrite (IH Hin Hn). destruct (subst_ttok ms x); reflexivity.
Qed.

(* ------------------------------------------------------------------------------------------ *)
(* C18: letter case of mnemonics and register names carries no meaning                          *)

Theorem mnemonic_case_irrelevant fuel regs i mn mn' ops :
  map lower mn = map lower mn' -> assemble_stmt fuel regs i mn ops = assemble_stmt fuel regs i mn' ops.
Proof. intros H. destruct fuel as [|f]; cbn [assemble_stmt]; [reflexivity|]. now rewrite H. Qed.

Lemma str_eqb_ci_case x x' r : map lower x = map lower x' -> str_eqb_ci x r = str_eqb_ci x' r.
Proof. intros H. unfold str_eqb_ci. now rewrite H. Qed.

(* a plain (or decorated) register operand matches iff the name written equals the register up to letter case *)
Theorem register_operand_accepts_iff regs o r d txt x :
  op_kind o = KRegister r d -> undecorate d txt = Some [OT (TLabel x)] ->
  ((exists m, try_operand regs o txt = PMatch m) <-> str_eqb_ci x r = true).
Proof.
  intros Hk Hu. unfold try_operand. rewrite Hk, Hu.
  destruct (str_eqb_ci x r); split; intros H; try reflexivity; try discriminate.
  - eexists. reflexivity.
  - destruct H as [m Hm]. discriminate.
Qed.

Theorem register_case_irrelevant x x' r : map lower x = map lower x' -> str_eqb_ci x r = str_eqb_ci x' r.
Proof. exact (str_eqb_ci_case x x' r). Qed.

(* ------------------------------------------------------------------------------------------ *)
(* a macro invocation assembles to exactly what its expanded statements assemble to, one after the other *)

(* how one macro variant answers an operand list (the expression used by assemble_stmt) *)
Definition mv_match (regs : list str) (operands : list operand) (mv : mvariant) : option (list matched) + unit :=
  match mv_parser mv with
  | Some pp => match find_matching regs pp operands with
               | MOk m => inl (Some (ms_ops m))
               | MNo => inl None
               | MAbort => inr tt
               end
  | None => match operands with [] => inl (Some []) | _ => inl None end
  end.

(* the expansion: every step's operand templates with the placeholders replaced by what the invocation matched *)
Fixpoint expand (ms : list matched) (steps : list step) : option (list (str * list operand)) :=
  match steps with
  | [] => Some []
  | s :: more =>
      match subst_operands ms (st_operands s), expand ms more with
      | Some ops, Some r => Some ((st_mnemonic s, ops) :: r)
      | _, _ => None
      end
  end.

(* statements assembled one after the other *)
Fixpoint assemble_seq (f : nat) (regs : list str) (i : isa) (stmts : list (str * list operand)) : result (list (list ipart)) :=
  match stmts with
  | [] => Ok []
  | (m, ops) :: r => do a <- assemble_stmt f regs i m ops; do b <- assemble_seq f regs i r; Ok (a ++ b)
  end.

Theorem macro_is_its_expansion f regs i mn operands skipped mv later ms stmts :
  isa_get i (map lower mn) = Some (EMacro (skipped ++ mv :: later)) ->
  Forall (fun v => mv_match regs operands v = inl None) skipped ->       (* earlier variants do not accept the operands *)
  mv_match regs operands mv = inl (Some ms) ->                           (* this one does *)
  expand ms (mv_steps mv) = Some stmts ->                                (* and all its placeholders can be filled *)
  assemble_stmt (S f) regs i mn operands = assemble_seq f regs i stmts.
Proof.
  intros Hi Hskip Hm He. cbn [assemble_stmt]. rewrite Hi. clear Hi.
  induction skipped as [|v sk IH].
  - cbn [app]. unfold mv_match in Hm. rewrite Hm. clear Hm Hskip.
    revert stmts He. induction (mv_steps mv) as [|s more IHs]; intros stmts He; cbn [expand] in He.
    + inversion He; subst. reflexivity.
    + destruct (subst_operands ms (st_operands s)) as [ops|]; [|discriminate].
      destruct (expand ms more) as [r|] eqn:Er; [|discriminate]. inversion He; subst.
      cbn [assemble_seq]. rewrite (IHs r eq_refl). reflexivity.
  - inversion Hskip as [|? ? Hv Hrest]; subst. cbn [app]. unfold mv_match in Hv. rewrite Hv. apply IH; assumption.
Qed.

(* ... and when a placeholder of some step cannot be filled, the invocation is not assembled *)
Theorem macro_unfillable_not_ok f regs i mn operands skipped mv later ms :
  isa_get i (map lower mn) = Some (EMacro (skipped ++ mv :: later)) ->
  Forall (fun v => mv_match regs operands v = inl None) skipped ->
  mv_match regs operands mv = inl (Some ms) ->
  expand ms (mv_steps mv) = None ->
  forall r, assemble_stmt (S f) regs i mn operands <> Ok r.
Proof.
  intros Hi Hskip Hm He r. cbn [assemble_stmt]. rewrite Hi. clear Hi.
  induction skipped as [|v sk IH].
  - cbn [app]. unfold mv_match in Hm. rewrite Hm. clear Hm Hskip.
    revert r He. induction (mv_steps mv) as [|s more IHs]; intros r He; cbn [expand] in He; [discriminate|].
    destruct (subst_operands ms (st_operands s)) as [ops|]; [|discriminate].
    destruct (expand ms more) as [x|] eqn:Er; [discriminate|].
    destruct (assemble_stmt f regs i (st_mnemonic s) ops) as [a| |]; cbn [bind]; try discriminate.
    match goal with |- context [bind ?x _] => destruct x as [b| |] eqn:Eb end; cbn [bind]; try discriminate.
    exfalso. exact (IHs b eq_refl eq_refl).
  - inversion Hskip as [|? ? Hv Hrest]; subst. cbn [app]. unfold mv_match in Hv. rewrite Hv. apply IH; assumption.
Qed.

(* ---------- matching never aborts (D41, D42): an alternative either accepts a text or declines it ---------- *)
Ltac crush_noabort := repeat (match goal with
          | |- context [match ?x with _ => _ end] => destruct x
          | |- context [if ?x then _ else _] => destruct x
          end; try discriminate).
Lemma indexed_match_never_aborts : forall regs o r idx a b, indexed_match regs o r idx a b <> PAbort.
Proof. intros. unfold indexed_match, mk. crush_noabort. Qed.
Lemma numeric_arg_never_aborts : forall regs o a valid br l txt, numeric_arg regs o a valid br l txt <> PAbort.
Proof. intros. unfold numeric_arg, mk. crush_noabort. Qed.
Lemma try_operand_never_aborts : forall regs o txt, try_operand regs o txt <> PAbort.
Proof.
  intros regs o txt. unfold try_operand, mk. crush_noabort;
  first [apply indexed_match_never_aborts | apply numeric_arg_never_aborts].
Qed.
Lemma try_set_never_aborts : forall regs ops txt, try_set regs ops txt <> PAbort.
Proof.
  intros regs ops txt. induction ops as [|o r IH]; cbn [try_set]; [discriminate|].
  destruct (try_operand regs o txt) eqn:E; [discriminate|exact IH|exfalso; exact (try_operand_never_aborts _ _ _ E)].
Qed.
Lemma match_specific_ops_never_aborts : forall regs cfgs operands nulls acc b,
  match_specific_ops regs cfgs operands nulls acc <> inr b.
Proof.
  intros regs cfgs. induction cfgs as [|c rest IH]; intros operands nulls acc b; cbn [match_specific_ops]; [discriminate|].
  destruct (op_kind c);
  try (destruct operands as [|t ts]; [discriminate|];
       destruct (try_operand regs c t) eqn:E; [apply IH|discriminate|exfalso; exact (try_operand_never_aborts _ _ _ E)]).
  destruct (try_operand regs c []) eqn:E; [apply IH|discriminate|exfalso; exact (try_operand_never_aborts _ _ _ E)].
Qed.
Lemma find_specific_never_aborts : forall regs sps operands count, find_specific regs sps operands count <> MAbort.
Proof.
  intros regs sps operands count. induction sps as [|sp rest IH]; cbn [find_specific]; [discriminate|].
  destruct (negb _); [discriminate|].
  destruct (match_specific_ops regs (sp_ops sp) operands 0 []) as [[[ms nulls]|]|b] eqn:E.
  - destruct (_ && _); [discriminate|exact IH].
  - exact IH.
  - exfalso. exact (match_specific_ops_never_aborts _ _ _ _ _ _ E).
Qed.
Lemma match_sets_never_aborts : forall regs sets operands acc u, match_sets regs sets operands acc <> inr u.
Proof.
  intros regs sets. induction sets as [|s ss IH]; intros operands acc u; destruct operands as [|t ts]; cbn [match_sets]; try discriminate.
  destruct (try_set regs (sort_ops s) t) eqn:E; [apply IH|discriminate|exfalso; exact (try_set_never_aborts _ _ _ E)].
Qed.
Theorem find_matching_never_aborts : forall regs pp operands, find_matching regs pp operands <> MAbort.
Proof.
  intros regs pp operands. unfold find_matching. destruct (_ && _); [discriminate|].
  destruct (pp_specific pp) as [sps|].
  - destruct (find_specific regs sps operands (pp_count pp)) eqn:E; [discriminate| |exfalso; exact (find_specific_never_aborts _ _ _ _ E)].
    destruct (pp_sets pp) as [sm|]; [|discriminate]. unfold find_sets. destruct (negb _); [discriminate|].
    destruct (match_sets regs (sm_sets sm) operands []) as [[ms|]|u] eqn:E2; [destruct (existsb _ _); discriminate|discriminate|].
    exfalso. exact (match_sets_never_aborts _ _ _ _ _ E2).
  - destruct (pp_sets pp) as [sm|]; [|discriminate]. unfold find_sets. destruct (negb _); [discriminate|].
    destruct (match_sets regs (sm_sets sm) operands []) as [[ms|]|u] eqn:E2; [destruct (existsb _ _); discriminate|discriminate|].
    exfalso. exact (match_sets_never_aborts _ _ _ _ _ E2).
Qed.

(* a listed combination that needs more operands than the statement has is passed over, not fatal: with the combinations
   [c1 ...] (declining) followed by sp, the result is that of the remaining list *)
Lemma find_specific_skips_declining : forall regs sp rest operands count,
  Z.of_nat (length (sp_ops sp)) = count ->
  match_specific_ops regs (sp_ops sp) operands 0 [] = inl None ->
  find_specific regs (sp :: rest) operands count = find_specific regs rest operands count.
Proof.
  intros regs sp rest operands count Hc Hm. cbn [find_specific]. rewrite Hc, Z.eqb_refl. cbn [negb]. rewrite Hm. reflexivity.
Qed.

(* ---------- a register name is a register name in any letter case (D53) ---------- *)
Lemma reg_mem_case : forall n n' regs, map lower n = map lower n' -> reg_mem n regs = reg_mem n' regs.
Proof. intros n n' regs H. unfold reg_mem. rewrite H. reflexivity. Qed.

Lemma reg_mem_declared_case : forall n regs regs', map (map lower) regs = map (map lower) regs' -> reg_mem n regs = reg_mem n regs'.
Proof. intros n regs regs' H. unfold reg_mem. rewrite H. reflexivity. Qed.

(* an expression that names a register, however spelled, is not accepted as a number *)
Lemma mentions_register_in : forall regs e x,
  In x (expr_labels e) -> reg_mem x regs = true -> mentions_register regs e = true.
Proof. intros regs e x Hin Hr. unfold mentions_register. apply existsb_exists. exists x. split; assumption. Qed.

(* Vocab.v — model of the vocabulary patterns put into the generated editor extensions:
     LanguageConfigGenerator._replace_token_with_regex_list   (configgen/__init__.py)
   the substituted pattern is  \bname1\b|\bname2\b|...  (names escaped, i.e. literal), used case-insensitively ((?i)).
   The matcher below is the search semantics of exactly that fragment on ASCII text.  No proofs here. *)
From BA Require Export Base Expr Subst Match.
Open Scope Z_scope.

(* is there a word boundary between position i-1 and i of s ?  (\b) *)
Definition char_at (s : str) (i : nat) : option Z := nth_error s i.
Definition is_word_at (s : str) (i : nat) : bool := match char_at s i with Some c => is_word c | None => false end.
Definition boundary (s : str) (i : nat) : bool :=
  let before := match i with O => false | S j => is_word_at s j end in
  xorb before (is_word_at s i).

(* literal, case-insensitive match of name at position i *)
Definition lit_at (name s : str) (i : nat) : bool :=
  str_eqb (map lower name) (map lower (firstn (length name) (skipn i s))) && Nat.leb (i + length name) (length s).

(* \bname\b matches at position i *)
Definition alt_at (name s : str) (i : nat) : bool :=
  boundary s i && lit_at name s i && boundary s (i + length name).

(* re.search of \bn1\b|\bn2\b|... in s *)
Definition alt_search (names : list str) (s : str) : bool :=
  existsb (fun i => existsb (fun n => alt_at n s i) names) (seq 0 (S (length s))).

(* the specification: an identifier is classified iff it is one of the names, up to letter case *)
Definition in_vocab (names : list str) (t : str) : bool := existsb (fun n => str_eqb_ci n t) names.

Definition word_only (s : str) : bool := negb (Nat.eqb (length s) 0) && forallb is_word s.

(* the case-sensitive variant (the predefined-names pattern carries no (?i)) *)
Definition lit_at_cs (name s : str) (i : nat) : bool :=
  str_eqb name (firstn (length name) (skipn i s)) && Nat.leb (i + length name) (length s).
Definition alt_search_cs (names : list str) (s : str) : bool :=
  existsb (fun i => existsb (fun n => boundary s i && lit_at_cs n s i && boundary s (i + length n)) names) (seq 0 (S (length s))).

(* runner for the correspondence: per probe identifier [instruction?; macro?; register?; predefined name?;
   does an operation (instruction or macro) start here? -- the look-ahead that ends the previous instruction] *)
Definition run_vocab (c : list str * list str * list str * list str * list str) : list (list bool) :=
  let '(instrs, macros, regs, labels, probes) := c in
  map (fun p => [alt_search instrs p; alt_search macros p; alt_search regs p; alt_search_cs labels p;
                alt_search (instrs ++ macros) p]) probes.
Definition obs_vocab_eqb (a b : option (list (list bool))) : bool :=
  match a, b with
  | Some x, Some y => list_eqb (list_eqb Bool.eqb) x y
  | None, None => true
  | _, _ => false
  end.

(* Data.v — implementation model of data directives:
     DataLine.factory / generate_bytes (line_object/data_line.py), EmbeddedString (emdedded_string.py),
     FillDataLine / FillUntilDataLine.generate_bytes (directive_line/fill_data.py), PredefinedDataLine.
   String text is a list of ASCII codes as written between the quotes.  No proofs. *)
From BA Require Export Base Bits Expr.
Open Scope Z_scope.

(* (arg_val & mask).to_bytes(width, byteorder) *)
Definition data_value_bytes (width : nat) (e : endian) (v : Z) : list Z :=
  let m := v mod 2 ^ (8 * Z.of_nat width) in
  match e with Little => to_bytes_le m width | Big => rev (to_bytes_le m width) end.

Definition is_oct (c : Z) : bool := (48 <=? c) && (c <=? 55).

(* bytes(text,'utf-8').decode('unicode_escape') on ASCII text; returns the character ordinals.
   \N, \u, \U are outside the modelled subset and are rejected here (the generators never emit them). *)
Fixpoint unescape (fuel : nat) (s : str) : result (list Z) :=
  match fuel with
  | O => match s with [] => Ok [] | _ => OutOfFuel end
  | S f =>
    match s with
    | [] => Ok []
    | 92 :: rest =>
        match rest with
        | [] => Rejected                                         (* "\ at end of string" *)
        | c :: r =>
            if c =? 92 then do t <- unescape f r; Ok (92 :: t)
            else if c =? 39 then do t <- unescape f r; Ok (39 :: t)
            else if c =? 34 then do t <- unescape f r; Ok (34 :: t)
            else if c =? 97 then do t <- unescape f r; Ok (7 :: t)
            else if c =? 98 then do t <- unescape f r; Ok (8 :: t)
            else if c =? 102 then do t <- unescape f r; Ok (12 :: t)
            else if c =? 110 then do t <- unescape f r; Ok (10 :: t)
            else if c =? 114 then do t <- unescape f r; Ok (13 :: t)
            else if c =? 116 then do t <- unescape f r; Ok (9 :: t)
            else if c =? 118 then do t <- unescape f r; Ok (11 :: t)
            else if c =? 120 then                                  (* \xHH: exactly two hex digits *)
              match r with
              | h1 :: h2 :: r2 => if is_hex h1 && is_hex h2
                                  then do t <- unescape f r2; Ok (hex_val h1 * 16 + hex_val h2 :: t)
                                  else Rejected
              | _ => Rejected
              end
            else if is_oct c then                                  (* \o, \oo, \ooo *)
              match r with
              | o2 :: o3 :: r3 =>
                  if is_oct o2 then
                    if is_oct o3 then do t <- unescape f r3; Ok ((c - 48) * 64 + (o2 - 48) * 8 + (o3 - 48) :: t)
                    else do t <- unescape f (o3 :: r3); Ok ((c - 48) * 8 + (o2 - 48) :: t)
                  else do t <- unescape f r; Ok (c - 48 :: t)
              | [o2] => if is_oct o2 then Ok [(c - 48) * 8 + (o2 - 48)] else do t <- unescape f r; Ok (c - 48 :: t)
              | [] => Ok [c - 48]
              end
            else if (c =? 78) || (c =? 117) || (c =? 85) then Rejected   (* \N \u \U : not modelled *)
            else if c =? 10 then unescape f r                       (* backslash-newline is dropped *)
            else do t <- unescape f r; Ok (92 :: c :: t)            (* unknown escape: kept verbatim *)
        end
    | c :: r => do t <- unescape f r; Ok (c :: t)
    end
  end.
Definition unescape_text (s : str) : result (list Z) := unescape (length s) s.

Inductive strkind := KByte | KCstr.    (* .byte "..."  |  .cstr / .asciiz "..." *)

(* a quoted string given to a data directive: ordinals, terminator for .cstr/.asciiz, each masked to a byte *)
Definition data_string_bytes (k : strkind) (terminator : Z) (text : str) : result (list Z) :=
  do cs <- unescape_text text;
  let vals := match k with KByte => cs | KCstr => cs ++ [terminator] end in
  Ok (map (fun v => v mod 256) vals).

(* an embedded string: ordinals + terminator go into a bytearray unmasked (an ordinal above 255 is an error) *)
Definition embedded_string_bytes (terminator : Z) (text : str) : result (list Z) :=
  do cs <- unescape_text text;
  let vals := cs ++ [terminator] in
  if forallb (fun v => (0 <=? v) && (v <? 256)) vals then Ok vals else Rejected.

(* .fill n, v  /  .zero n : [(v & 0xFF)] * n   (n >= 0 is checked where the size is computed) *)
Definition fill_bytes (n v : Z) : list Z := repeat (v mod 256) (Z.to_nat n).

(* Lines.v — model of how a source line is split into its statement part and its comment:
     LineOjectFactory.PATTERN_LINE_PARTS / parse_line   (assembler/line_object/factory.py)
     the line.strip() of AssemblyFile.load_line_objects   (assembler/assembly_file.py)
   The pattern (a possessive loop over: a character other than semicolon and the two quote characters | a
   complete double-quoted string | a complete single-quoted string | a lone quote character; then optionally a
   semicolon and the rest of the line) is a left-to-right scanner:
   an ordinary character is statement text; a quote opens a string if the string is closed further on in the line
   (a backslash escapes the next character), and is ordinary text otherwise; the first semicolon outside a string ends
   the statement, the rest is the comment (since D59 a vertical tab is an ordinary white space character; the scanner
   therefore always succeeds, the option type is kept for the runner).  No proofs here. *)
From BA Require Export Base Expr Subst.
Open Scope Z_scope.

Definition c_semi : Z := 59.
Definition c_dq : Z := 34.
Definition c_sq : Z := 39.
Definition c_bs : Z := 92.
Definition c_vt : Z := 11.
Definition is_quote (c : Z) : bool := (c =? c_dq) || (c =? c_sq).

(* inside a string opened by quote q: the number of characters up to and including the closing quote, if there is one *)
Fixpoint close_quote (q : Z) (s : str) : option nat :=
  match s with
  | [] => None
  | c :: r =>
    if c =? q then Some 1%nat
    else if c =? c_bs then
      match r with
      | [] => None
      | _ :: r' => option_map (fun n => S (S n)) (close_quote q r')
      end
    else option_map S (close_quote q r)
  end.

(* the scanner; [skip] characters still belong to the string that was opened *)
Fixpoint split_at (s : str) (skip : nat) (acc : str) : option (str * option str) :=
  match s with
  | [] => Some (rev acc, None)
  | c :: r =>
    match skip with
    | S k => split_at r k (c :: acc)
    | O =>
      if c =? c_semi then Some (rev acc, Some r)
      else if is_quote c then
        match close_quote c r with
        | Some n => split_at r n (c :: acc)
        | None => split_at r 0 (c :: acc)
        end
      else split_at r 0 (c :: acc)
    end
  end.
Definition split_line (s : str) : option (str * option str) := split_at s 0%nat [].

(* str.strip() on ASCII text *)
Fixpoint lstrip (s : str) : str :=
  match s with
  | c :: r => if is_space c then lstrip r else s
  | [] => []
  end.
Definition strip (s : str) : str := rev (lstrip (rev (lstrip s))).

(* statement text and comment text of a raw source line, as parse_line computes them *)
Definition line_parts (raw : str) : str * str :=
  match split_line (strip raw) with
  | Some (st, Some c) => (strip st, strip c)
  | Some (st, None) => (strip st, [])
  | None => ([], [])
  end.

(* a statement text in which every quote opens a string that is closed within the text, with no semicolon or
   vertical tab outside strings: what follows such a text in the line cannot change how it is read *)
Fixpoint balanced_at (s : str) (skip : nat) : bool :=
  match s with
  | [] => Nat.eqb skip 0
  | c :: r =>
    match skip with
    | S k => balanced_at r k
    | O =>
      if c =? c_semi then false
      else if is_quote c then
        match close_quote c r with
        | Some n => balanced_at r n
        | None => false
        end
      else balanced_at r 0
    end
  end.
Definition balanced (s : str) : bool := balanced_at s 0%nat.

(* runner for the correspondence: the line is  #define VAL <body> ; the observation is (replacement text, comment) *)
Definition define_prefix : str := [35; 100; 101; 102; 105; 110; 101; 32; 86; 65; 76].     (* "#define VAL" *)
Definition run_line_parts (raw : str) : option (str * str) :=
  let '(st, c) := line_parts raw in
  if str_eqb (firstn (length define_prefix) st) define_prefix
  then Some (strip (skipn (length define_prefix) st), c)
  else None.
Definition obs_line_eqb (a b : option (str * str)) : bool :=
  match a, b with
  | Some (x1, x2), Some (y1, y2) => str_eqb x1 y1 && str_eqb x2 y2
  | None, None => true
  | _, _ => false
  end.

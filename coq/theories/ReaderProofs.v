(* ReaderProofs.v — theorems about the reader (item_step / load of Program.v): includes, scopes, zones. *)
From BA Require Import Base Bits Expr Subst Cond CondEval Layout Data Program.
Local Open Scope Z_scope.

Section Reader.
  Variable cfg : config.
  Variable load_file : nat -> gstate -> result (gstate * list placed).
  Variable fid : nat.

  Notation step := (item_step cfg load_file fid).

  (* ---------------- C17: includes ---------------- *)

  (* a file included more than once is rejected *)
  Theorem include_twice_rejected g fs acc t :
    currently_active (f_stack fs) = true -> in_nat t (g_used g) = true ->
    step (g, fs, acc) (IInclude (Some t)) = Rejected.
  Proof. intros Ha Hu. cbn [item_step]. now rewrite Ha, Hu. Qed.

  (* a missing file, or a name found in more than one search directory, is rejected *)
  Theorem include_unresolved_rejected g fs acc :
    currently_active (f_stack fs) = true -> step (g, fs, acc) (IInclude None) = Rejected.
  Proof. intros Ha. cbn [item_step]. now rewrite Ha. Qed.

  (* the includer's local-label region, selected zone, condition stack and mute counter continue unchanged after the
     include; the included file's lines are spliced in at the point of inclusion, in order *)
  Theorem includer_state_preserved g fs acc t g' fs' acc' :
    step (g, fs, acc) (IInclude (Some t)) = Ok (g', fs', acc') ->
    fs' = fs /\ (acc' = acc \/ exists lines, load_file t {| g_tab := g_tab g; g_zones := g_zones g; g_labels := g_labels g;
                                                         g_used := t :: g_used g; g_region := g_region g |} = Ok (g', lines)
                                            /\ acc' = rev lines ++ acc).
  Proof.
    cbn [item_step]. destruct (currently_active (f_stack fs)).
    - destruct (in_nat t (g_used g)); [discriminate|].
      destruct (load_file t _) as [[g2 lines]| |] eqn:E; cbn [bind fst snd]; try discriminate.
      intros H; inversion H; subst. split; [reflexivity|]. right. exists lines. split; reflexivity.
    - intros H; inversion H; subst. split; [reflexivity | now left].
  Qed.

  (* an include inside an unselected branch has no effect *)
  Theorem include_inactive_no_effect g fs acc t :
    currently_active (f_stack fs) = false -> step (g, fs, acc) (IInclude t) = Ok (g, fs, acc).
  Proof. intros Ha. cbn [item_step]. now rewrite Ha. Qed.

  (* ---------------- C06 / C05: scope and zone automaton ---------------- *)

  (* a statement in an unselected branch contributes nothing *)
  Theorem stmt_inactive_no_effect g fs acc s :
    currently_active (f_stack fs) = false -> step (g, fs, acc) (IStmt s) = Ok (g, fs, acc).
  Proof. intros Ha. cbn [item_step]. now rewrite Ha. Qed.

  (* a non-local label opens a new local region (a fresh identifier), which the label line itself already belongs to *)
  Theorem nonlocal_label_opens_region g fs acc n g' fs' acc' :
    step (g, fs, acc) (IStmt (SLabel n)) = Ok (g', fs', acc') -> currently_active (f_stack fs) = true ->
    label_kind n <> LkLocal ->
    f_scope fs' = ScLocal fid (g_region g) /\ g_region g' = S (g_region g) /\ f_zone fs' = f_zone fs
    /\ exists p, acc' = p :: acc /\ p_scope p = ScLocal fid (g_region g) /\ p_zone p = f_zone fs.
  Proof.
    intros H Ha Hk. cbn [item_step] in H. rewrite Ha in H. cbn [negb] in H.
    destruct (find_zone (g_zones g) (f_zone fs)); [|discriminate].
    destruct (label_kind n) eqn:K; try (now elim Hk);
      (destruct (is_register_name cfg n); [discriminate|]); cbn [bind] in H; inversion H; subst; cbn;
      (repeat split; eexists; repeat split).
  Qed.

  (* a local label, a constant and every other line stay in the current region and zone *)
  Theorem local_label_keeps_region g fs acc n g' fs' acc' :
    step (g, fs, acc) (IStmt (SLabel n)) = Ok (g', fs', acc') -> currently_active (f_stack fs) = true ->
    label_kind n = LkLocal ->
    f_scope fs' = f_scope fs /\ g_region g' = g_region g /\ f_zone fs' = f_zone fs.
  Proof.
    intros H Ha Hk. cbn [item_step] in H. rewrite Ha in H. cbn [negb] in H.
    destruct (find_zone (g_zones g) (f_zone fs)); [|discriminate]. rewrite Hk in H.
    destruct (is_register_name cfg n); [discriminate|]. cbn [bind] in H. inversion H; subst. cbn. auto.
  Qed.

  (* .org and .memzone end the local region (back to the file scope) and select the zone they name;
     a bare .org reverts to GLOBAL *)
  Theorem org_resets_scope_and_zone g fs acc e zn g' fs' acc' :
    step (g, fs, acc) (IStmt (SOrg e zn)) = Ok (g', fs', acc') -> currently_active (f_stack fs) = true ->
    f_scope fs' = ScFile fid /\ f_zone fs' = match zn with Some z => z | None => GLOBAL end
    /\ exists p, acc' = p :: acc /\ p_zone p = match zn with Some z => z | None => GLOBAL end.
  Proof.
    intros H Ha. cbn [item_step] in H. rewrite Ha in H. cbn [negb] in H.
    destruct zn as [z|]; (destruct (find_zone (g_zones g) _); [|discriminate]); cbn [bind] in H;
      inversion H; subst; cbn; (repeat split; eexists; split; reflexivity).
  Qed.

  Theorem memzone_resets_scope_and_zone g fs acc z g' fs' acc' :
    step (g, fs, acc) (IStmt (SMemzone z)) = Ok (g', fs', acc') -> currently_active (f_stack fs) = true ->
    f_scope fs' = ScFile fid /\ f_zone fs' = z /\ exists zn, find_zone (g_zones g) z = Some zn.
  Proof.
    intros H Ha. cbn [item_step] in H. rewrite Ha in H. cbn [negb] in H.
    destruct (find_zone (g_zones g) z) as [zn|] eqn:E; [|discriminate]. cbn [bind] in H.
    inversion H; subst; cbn. repeat split. eauto.
  Qed.

  (* a label or constant that is a register name is rejected *)
  Theorem register_label_rejected g fs acc n :
    currently_active (f_stack fs) = true -> is_register_name cfg n = true ->
    (exists z, find_zone (g_zones g) (f_zone fs) = Some z) ->
    step (g, fs, acc) (IStmt (SLabel n)) = Rejected.
  Proof.
    intros Ha Hr [z Hz]. cbn [item_step]. rewrite Ha. cbn [negb]. rewrite Hz.
    destruct (label_kind n); now rewrite Hr.
  Qed.

End Reader.

(* an included file starts in the GLOBAL zone, in its own file scope, with a fresh condition stack and mute counter *)
Theorem included_file_starts_fresh fid :
  f_zone (file_init fid) = GLOBAL /\ f_scope (file_init fid) = ScFile fid /\ f_stack (file_init fid) = [] /\ f_mute (file_init fid) = 0%nat.
Proof. repeat split. Qed.

(* reading terminates: the fuel S (number of files) is never exhausted ... as long as no file is read twice, which the
   used-set guarantees; stated here for the fuel-independent part: more fuel never changes a definite outcome *)
Lemma run_items_ext step1 step2 items : forall st,
  (forall s it, step1 s it = step2 s it) -> run_items step1 items st = run_items step2 items st.
Proof.
  induction items as [|it r IH]; intros st H; cbn [run_items]; [reflexivity|].
  rewrite H. destruct (step2 st it); cbn [bind]; [now apply IH | reflexivity | reflexivity].
Qed.

(* ---------- including a file = reading its items in place, under a fresh file-local state ---------- *)
Lemma run_items_app step a : forall b st,
  run_items step (a ++ b) st = do st' <- run_items step a st; run_items step b st'.
Proof.
  induction a as [|x a IH]; intros b st; cbn [app run_items bind]; [reflexivity|].
  destruct (step st x) as [st1| |]; cbn [bind]; [apply IH | reflexivity | reflexivity].
Qed.

Definition mark_used (g : gstate) (t : nat) : gstate :=
  {| g_tab := g_tab g; g_zones := g_zones g; g_labels := g_labels g; g_used := t :: g_used g; g_region := g_region g |}.

Theorem include_in_place cfg fu files fid t items_t pre post g0 fs0 acc0 :
  nth_error files t = Some items_t ->
  run_items (item_step cfg (load (S fu) cfg files) fid) (pre ++ IInclude (Some t) :: post) (g0, fs0, acc0) =
  do st1 <- run_items (item_step cfg (load (S fu) cfg files) fid) pre (g0, fs0, acc0);
  let '(g1, fs1, acc1) := st1 in
  if currently_active (f_stack fs1) then
    if in_nat t (g_used g1) then Rejected else
    do rt <- run_items (item_step cfg (load fu cfg files) t) items_t (mark_used g1 t, file_init t, []);
    let '(g2, _, acct) := rt in
    run_items (item_step cfg (load (S fu) cfg files) fid) post (g2, fs1, acct ++ acc1)
  else run_items (item_step cfg (load (S fu) cfg files) fid) post (g1, fs1, acc1).
Proof.
  intros Hn. rewrite run_items_app.
  destruct (run_items _ pre (g0, fs0, acc0)) as [[[g1 fs1] acc1]| |]; cbn [bind]; try reflexivity.
  cbn [run_items]. unfold item_step at 1.
  destruct (currently_active (f_stack fs1)); [|reflexivity].
  destruct (in_nat t (g_used g1)); [reflexivity|].
  cbn [load]. rewrite Hn. fold (mark_used g1 t).
  destruct (run_items (item_step cfg (load fu cfg files) t) items_t (mark_used g1 t, file_init t, [])) as [[[g2 fs2] acct]| |];
    cbn [bind fst snd]; try reflexivity.
  now rewrite rev_involutive.
Qed.

(* Property C18 — output is invariant under meaning-preserving changes of surface syntax.
   Partial: what is proved here concerns letter case in the matching model and the splitting of a source line into
   statement text and comment (Lines.v: comments, indentation, trailing whitespace, semicolons inside strings); blank
   lines, label placement and several instructions per line are layout only — the whole-program model is a function of
   the statement list — and are tied to the implementation by the layout ties / relayout oracle (see DESIGN.md C18). *)
From BA Require Import Base Bits Expr Subst Layout Program Match MatchProofs Lines LinesProofs.

(* letter case of the mnemonic carries no meaning *)
Theorem C18_mnemonic_case : forall fuel regs i mn mn' ops,
  map lower mn = map lower mn' -> assemble_stmt fuel regs i mn ops = assemble_stmt fuel regs i mn' ops.
Proof. exact mnemonic_case_irrelevant. Qed.
Print Assumptions C18_mnemonic_case.

(* a register operand is recognised by its name up to letter case *)
Theorem C18_register_accepts_iff : forall regs o r d txt x,
  op_kind o = KRegister r d -> undecorate d txt = Some [OT (TLabel x)] ->
  ((exists m, try_operand regs o txt = PMatch m) <-> str_eqb_ci x r = true).
Proof. exact register_operand_accepts_iff. Qed.
Print Assumptions C18_register_accepts_iff.

Theorem C18_register_case : forall x x' r, map lower x = map lower x' -> str_eqb_ci x r = str_eqb_ci x' r.
Proof. exact register_case_irrelevant. Qed.
Print Assumptions C18_register_case.

(* ---------- comments and surrounding whitespace (the line splitter, Lines.v) ---------- *)

(* a statement text in which every quote opens a string closed within the text is read the same whatever comment follows
   it: the statement part of  text ; comment  is the text, the comment part is the comment *)
Theorem C18_comment_is_split_off : forall st c,
  balanced st = true -> split_line (st ++ c_semi :: c) = Some (st, Some c).
Proof. exact comment_is_split_off. Qed.
Print Assumptions C18_comment_is_split_off.

Theorem C18_without_comment : forall st, balanced st = true -> split_line st = Some (st, None).
Proof. exact no_comment. Qed.
Print Assumptions C18_without_comment.

(* indentation and trailing whitespace of a line carry no meaning *)
Theorem C18_indentation : forall ws1 raw ws2,
  forallb is_space ws1 = true -> forallb is_space ws2 = true -> line_parts (ws1 ++ raw ++ ws2) = line_parts raw.
Proof. exact line_parts_indentation. Qed.
Print Assumptions C18_indentation.

(* text without quotes and semicolons is such a statement text; so is a complete quoted string, whatever it
   contains (a semicolon inside it does not start a comment); and so is any concatenation of such texts *)
Theorem C18_plain_text_balanced : forall s, forallb plain_char s = true -> balanced s = true.
Proof. exact plain_balanced. Qed.
Print Assumptions C18_plain_text_balanced.

Theorem C18_quoted_string_balanced : forall q inner n,
  is_quote q = true -> close_quote q inner = Some n -> length inner = n -> balanced (q :: inner) = true.
Proof. exact quoted_text_is_statement_text. Qed.
Print Assumptions C18_quoted_string_balanced.

Theorem C18_balanced_concat : forall a b, balanced a = true -> balanced b = true -> balanced (a ++ b) = true.
Proof. exact balanced_app. Qed.
Print Assumptions C18_balanced_concat.

(* non-vacuity:  .cstr "a;b" ; it's   -- the statement keeps its semicolon, the comment its apostrophe *)
Example C18_line_example :
  line_parts [32; 46; 99; 115; 116; 114; 32; 34; 97; 59; 98; 34; 32; 59; 32; 105; 116; 39; 115; 9]
  = ([46; 99; 115; 116; 114; 32; 34; 97; 59; 98; 34], [105; 116; 39; 115])
  /\ balanced [46; 99; 115; 116; 114; 32; 34; 97; 59; 98; 34; 32] = true.
Proof. split; vm_compute; reflexivity. Qed.

(* Property C18 — output is invariant under meaning-preserving changes of surface syntax.
   Partial: what is proved here concerns letter case in the matching model; whitespace, comments, blank lines, label
   placement and several instructions per line are layout only — the whole-program model is a function of the statement
   list — and are tied to the implementation by the layout ties / relayout oracle (see DESIGN.md C18). *)
From BA Require Import Base Bits Expr Subst Layout Program Match MatchProofs.

(* letter case of the mnemonic carries no meaning *)
Theorem C18_mnemonic_case : forall fuel regs i mn mn' ops,
  map lower mn = map lower mn' -> assemble_stmt fuel regs i mn ops = assemble_stmt fuel regs i mn' ops.
Proof. exact mnemonic_case_irrelevant. Qed.
Print Assumptions C18_mnemonic_case.

(* a register operand is recognised by its name up to letter case *)
Theorem C18_register_accepts_iff : forall regs o r d txt x,
  op_kind o = KRegister r d -> undecorate d txt = Some [OT (TLabel x)] ->
  ((exists m, try_operand regs o txt = PMatch m) <-> str_eqb_ci x r = true).
Proof. exact register_operand_accepts_iff. Qed.
Print Assumptions C18_register_accepts_iff.

Theorem C18_register_case : forall x x' r, map lower x = map lower x' -> str_eqb_ci x r = str_eqb_ci x' r.
Proof. exact register_case_irrelevant. Qed.
Print Assumptions C18_register_case.

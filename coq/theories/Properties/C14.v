(* Property C14 — assembly always terminates and fails closed.
   Partial: termination of the Python process (regex backtracking, the interpreter) is only observed under a wall-clock
   limit by the fail-closed oracle.  At model level every function is structurally recursive or fuelled; in the model an
   image exists only inside an [Ok] outcome (the result type), so "failed => no image" holds by construction; proved here:
   the expression parser never runs out of fuel, the image has exactly the window's length (its loop cannot spin), and
   success is never reported for the four kinds of faulty program the property names. *)
From BA Require Import NoFuel Base Bits BitsSpec BitsProofs Expr ExprProofs Subst Layout LayoutProofs Program Match MatchProofs.

Theorem C14_parser_fuel_suffices : forall ts, parse_tokens ts <> OutOfFuel.
Proof. exact parse_tokens_never_out_of_fuel. Qed.
Print Assumptions C14_parser_fuel_suffices.

Theorem C14_image_has_window_length : forall l start e fill,
  start - 1 <= e -> Z.of_nat (length (image l start (Some e) fill)) = e - start + 1.
Proof. intros l start e fill H. exact (proj1 (image_window l start e fill H)). Qed.
Print Assumptions C14_image_has_window_length.

(* no false success: an unresolvable label ... *)
Theorem C14_unresolved_label_not_ok : forall rho e v,
  eval rho e = Ok v -> forall s, In s (e_labels e) -> rho s <> None.
Proof. exact eval_ok_labels_resolved. Qed.
Print Assumptions C14_unresolved_label_not_ok.

(* ... an unknown instruction ... *)
Theorem C14_unknown_mnemonic_rejected : forall f regs i mn ops,
  isa_get i (map lower mn) = None -> assemble_stmt (S f) regs i mn ops = Rejected.
Proof. intros f regs i mn ops H. cbn [assemble_stmt]. now rewrite H. Qed.
Print Assumptions C14_unknown_mnemonic_rejected.

(* ... a statement no variant accepts ... *)
Theorem C14_no_variant_rejected : forall regs ops vs,
  Forall (variant_rejects regs ops) vs -> select_variant regs vs ops = Rejected.
Proof. exact select_none_rejected. Qed.
Print Assumptions C14_no_variant_rejected.

(* ... a value its field cannot hold *)
Theorem C14_overflow_rejected : forall ps : list part,
  Exists (fun p => ~ fits_width (p_size p) (p_value p)) ps -> is_ok (get_bytes ps) = false.
Proof. exact pack_rejects_overflow. Qed.
Print Assumptions C14_overflow_rejected.

(* termination, as far as a model can state it: every function of the model is total (structural recursion, or recursion
   on fuel), and the fuel never runs out -- the answer of the whole-program model is "assembled" or "rejected", for every
   configuration, every set of source files and every option set *)
Theorem C14_model_always_answers : forall cfg files opts, assemble cfg files opts <> OutOfFuel.
Proof. exact assemble_never_out_of_fuel. Qed.
Print Assumptions C14_model_always_answers.

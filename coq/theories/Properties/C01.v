(* Property C01 — instruction encoding is exactly the prescribed bit layout.
   This file contains only statements, `exact`, and Print Assumptions. *)
From BA Require Import Base Bits BitsSpec BitsProofs Expr Subst Layout Program Match MatchProofs.

(* Packing any non-empty list of fields (every width >= 1, every value within the signed-or-unsigned
   range of its width, any mix of endianness and alignment flags) yields exactly the specified bit
   string as bytes, and its length is the size reserved for the instruction. *)
Theorem C01_pack_correct : forall ps : list part,
  ps <> [] -> Forall part_ok ps ->
  get_bytes ps = Ok (spec_bytes ps) /\ Z.of_nat (length (spec_bytes ps)) = byte_size ps.
Proof. exact pack_correct. Qed.
Print Assumptions C01_pack_correct.

(* Byte-aligned fields start on a byte boundary; unaligned ones get no padding. *)
Theorem C01_alignment : forall pos : Z,
  0 <= pos -> (pos + align_pad pos true) mod 8 = 0 /\ 0 <= align_pad pos true < 8 /\ align_pad pos false = 0.
Proof. exact aligned_field_on_byte_boundary. Qed.
Print Assumptions C01_alignment.

(* the documented field order: prefix-positioned operand codes (mirrored operand order), the opcode, suffix-positioned
   operand codes in operand order, the opcode suffix, then the operand arguments in operand order; the reverse options
   reverse exactly the operand-code groups or the argument group *)
Theorem C01_field_order : forall m base suf,
  generate_bytecode m base suf
  = (if ms_rev_code m then prefix_codes (ms_ops m) else rev (prefix_codes (ms_ops m)))
    ++ [base]
    ++ (if ms_rev_code m then rev (suffix_codes (ms_ops m)) else suffix_codes (ms_ops m))
    ++ (match suf with Some s => [s] | None => [] end)
    ++ (if ms_rev_arg m then rev (arguments (ms_ops m)) else arguments (ms_ops m)).
Proof. exact field_order. Qed.
Print Assumptions C01_field_order.

Theorem C01_reverse_arguments_only : forall ops rc base suf,
  exists front,
    generate_bytecode {| ms_ops := ops; ms_rev_arg := false; ms_rev_code := rc |} base suf = front ++ arguments ops
    /\ generate_bytecode {| ms_ops := ops; ms_rev_arg := true; ms_rev_code := rc |} base suf = front ++ rev (arguments ops).
Proof. exact reverse_arg_only_args. Qed.
Print Assumptions C01_reverse_arguments_only.

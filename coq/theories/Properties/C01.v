(* Property C01 — instruction encoding is exactly the prescribed bit layout.
   This file contains only statements, `exact`, and Print Assumptions. *)
From BA Require Import Base Bits BitsSpec BitsProofs.

(* Packing any non-empty list of fields (every width >= 1, every value within the signed-or-unsigned
   range of its width, any mix of endianness and alignment flags) yields exactly the specified bit
   string as bytes, and its length is the size reserved for the instruction. *)
Theorem C01_pack_correct : forall ps : list part,
  ps <> [] -> Forall part_ok ps ->
  get_bytes ps = Ok (spec_bytes ps) /\ Z.of_nat (length (spec_bytes ps)) = byte_size ps.
Proof. exact pack_correct. Qed.
Print Assumptions C01_pack_correct.

(* Byte-aligned fields start on a byte boundary; unaligned ones get no padding. *)
Theorem C01_alignment : forall pos : Z,
  0 <= pos -> (pos + align_pad pos true) mod 8 = 0 /\ 0 <= align_pad pos true < 8 /\ align_pad pos false = 0.
Proof. exact aligned_field_on_byte_boundary. Qed.
Print Assumptions C01_alignment.

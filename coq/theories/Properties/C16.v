(* Property C16 — all output formats describe the same memory contents as the binary image.
   Partial: the character-level decoding of Intel HEX / hex dump / listing text is done by the harness (and the Intel HEX
   text is produced by the third-party intelhex package); proved here: the record-level compact-hex printer/decoder
   round trip, and that the listing rows and the address-to-byte pairs every format must decode to are exactly the bytes
   the image theorem (C03) speaks about. *)
From BA Require Import Base Layout LayoutProofs Program Formats FormatsProofs.

Theorem C16_minhex_roundtrip : forall lines next, mdecode next (minhex next lines) = memory_pairs lines.
Proof. exact minhex_roundtrip. Qed.
Print Assumptions C16_minhex_roundtrip.

Theorem C16_pairs_are_line_bytes : forall lines a b,
  In (a, b) (memory_pairs lines) <-> exists p, In p lines /\ contrib p a = Some b.
Proof. exact memory_pairs_contrib. Qed.
Print Assumptions C16_pairs_are_line_bytes.

Theorem C16_image_byte_is_a_pair : forall lines a b, byte_at lines a = Some b -> In (a, b) (memory_pairs lines).
Proof. exact image_byte_is_a_pair. Qed.
Print Assumptions C16_image_byte_is_a_pair.

Theorem C16_pair_is_in_image : forall lines a b, In (a, b) (memory_pairs lines) -> exists b', byte_at lines a = Some b'.
Proof. exact pair_is_mapped. Qed.
Print Assumptions C16_pair_is_in_image.

Theorem C16_muted_absent : forall lines, memory_pairs lines = memory_pairs (filter (fun p => negb (pl_muted p)) lines).
Proof. exact muted_lines_absent. Qed.
Print Assumptions C16_muted_absent.

Theorem C16_listing_rows : forall o : outcome,
  flat_map (fun row => bytes_at (fst row) (snd row)) (rows_of o) = memory_pairs (out_lines o).
Proof. exact listing_rows_pairs. Qed.
Print Assumptions C16_listing_rows.

Theorem C16_each_statement_once : forall o : outcome,
  rows_of o = map (fun p => (pl_addr p, pl_bytes p))
                  (filter (fun p => pl_isbytes p && negb (pl_muted p) && negb (Nat.eqb (length (pl_bytes p)) 0)) (out_lines o)).
Proof. exact listing_each_statement_once. Qed.
Print Assumptions C16_each_statement_once.

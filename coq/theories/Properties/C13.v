(* Property C13 — variant and operand selection follows the documented priority only. *)
From BA Require Import Base Bits Expr Subst Layout Program Match MatchProofs.
From Coq Require Import Sorting.Permutation Sorting.Sorted.

(* variants are tried in definition order and the first whose operand pattern accepts is used *)
Theorem C13_first_variant : forall regs ops vs1 v vs2 ps,
  Forall (variant_rejects regs ops) vs1 ->
  variant_parts regs v ops = inl (Some ps) ->
  select_variant regs (vs1 ++ v :: vs2) ops = Ok ps.
Proof. exact select_first_accepting. Qed.
Print Assumptions C13_first_variant.

Theorem C13_selection_sound : forall regs ops vs ps,
  select_variant regs vs ops = Ok ps ->
  exists vs1 v vs2, vs = vs1 ++ v :: vs2 /\ Forall (variant_rejects regs ops) vs1 /\ variant_parts regs v ops = inl (Some ps).
Proof. exact select_sound. Qed.
Print Assumptions C13_selection_sound.

(* a statement no variant accepts is rejected *)
Theorem C13_none_rejected : forall regs ops vs,
  Forall (variant_rejects regs ops) vs -> select_variant regs vs ops = Rejected.
Proof. exact select_none_rejected. Qed.
Print Assumptions C13_none_rejected.

(* explicitly listed operand combinations before operand sets *)
Theorem C13_specific_before_sets : forall regs pp ops sps m,
  negb ((pp_count pp =? 0) && Nat.eqb (length ops) 0) = true ->
  pp_specific pp = Some sps -> find_specific regs sps ops (pp_count pp) = MOk m ->
  find_matching regs pp ops = MOk m.
Proof. exact specific_before_sets. Qed.
Print Assumptions C13_specific_before_sets.

(* disallowed combinations are skipped *)
Theorem C13_disallowed_skipped : forall regs sm ops ms,
  Nat.eqb (length ops) (length (sm_sets sm)) = true ->
  match_sets regs (sm_sets sm) ops [] = inl (Some ms) ->
  existsb (ids_eqb (map m_id ms)) (sm_disallowed sm) = true ->
  find_sets regs sm ops = MNo.
Proof. exact disallowed_skipped. Qed.
Print Assumptions C13_disallowed_skipped.

(* inside an operand set: tried in the order given by the type priority (bracketed / register-indexed forms, then
   enumeration keys and plain registers, then numeric expressions), stable w.r.t. definition order; first match decides *)
Theorem C13_type_priority : forall l, StronglySorted prio_le (sort_ops l) /\ Permutation (sort_ops l) l.
Proof. exact sort_ops_sorted. Qed.
Print Assumptions C13_type_priority.

Theorem C13_equal_priority_keeps_definition_order : forall l,
  (forall a b, In a l -> In b l -> kind_priority (op_kind a) = kind_priority (op_kind b)) -> sort_ops l = l.
Proof. exact sort_ops_stable_same_priority. Qed.
Print Assumptions C13_equal_priority_keeps_definition_order.

Theorem C13_first_alternative : forall regs l1 o l2 txt,
  Forall (fun x => try_operand regs x txt = PNo) l1 ->
  try_operand regs o txt <> PNo ->
  try_set regs (l1 ++ o :: l2) txt = try_operand regs o txt.
Proof. exact try_set_first. Qed.
Print Assumptions C13_first_alternative.

(* a register name is never accepted where a numeric expression or label is expected *)
Theorem C13_register_never_numeric : forall regs o a valid txt m,
  op_kind o = KNumeric a valid -> try_operand regs o txt = PMatch m ->
  exists ts e, plain_tokens txt = Some ts /\ parse_tokens ts = Ok e /\ mentions_register regs e = false.
Proof. exact register_never_numeric. Qed.
Print Assumptions C13_register_never_numeric.

Theorem C13_register_never_address : forall regs o a b s ms txt m,
  op_kind o = KAddress a b s ms -> try_operand regs o txt = PMatch m ->
  exists ts e, plain_tokens txt = Some ts /\ parse_tokens ts = Ok e /\ mentions_register regs e = false.
Proof. exact register_never_address. Qed.
Print Assumptions C13_register_never_address.

(* an alternative that does not accept a statement's operands only declines them: neither an operand alternative, nor a
   listed combination, nor an operand set can stop the alternatives after it from being tried (D41, D42) *)
Theorem C13_matching_never_aborts : forall regs pp operands, find_matching regs pp operands <> MAbort.
Proof. exact find_matching_never_aborts. Qed.
Print Assumptions C13_matching_never_aborts.

Theorem C13_operand_declines_or_accepts : forall regs o txt, try_operand regs o txt <> PAbort.
Proof. exact try_operand_never_aborts. Qed.
Print Assumptions C13_operand_declines_or_accepts.

(* a listed combination that declines (for instance because the statement has fewer operands than it needs) is passed over *)
Theorem C13_declining_combination_skipped : forall regs sp rest operands count,
  Z.of_nat (length (sp_ops sp)) = count ->
  match_specific_ops regs (sp_ops sp) operands 0 [] = inl None ->
  find_specific regs (sp :: rest) operands count = find_specific regs rest operands count.
Proof. exact find_specific_skips_declining. Qed.
Print Assumptions C13_declining_combination_skipped.

(* "a register name": the test that keeps registers out of numeric expressions and label definitions ignores letter case, on
   the side of the name as written and on the side of the declaration (D53) *)
Theorem C13_register_name_any_case : forall n n' regs, map lower n = map lower n' -> reg_mem n regs = reg_mem n' regs.
Proof. exact reg_mem_case. Qed.
Print Assumptions C13_register_name_any_case.

Theorem C13_register_declaration_any_case : forall n regs regs',
  map (map lower) regs = map (map lower) regs' -> reg_mem n regs = reg_mem n regs'.
Proof. exact reg_mem_declared_case. Qed.
Print Assumptions C13_register_declaration_any_case.

Theorem C13_expression_naming_a_register : forall regs e x,
  In x (expr_labels e) -> reg_mem x regs = true -> mentions_register regs e = true.
Proof. exact mentions_register_in. Qed.
Print Assumptions C13_expression_naming_a_register.

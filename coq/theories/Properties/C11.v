(* Property C11 — data and fill directives emit exactly the bytes they describe. *)
From BA Require Import Base Bits Expr Layout LayoutProofs Data DataProofs.

Theorem C11_data_value : forall w e v,
  from_bytes (data_value_bytes w e v) e = v mod 2 ^ (8 * Z.of_nat w)
  /\ length (data_value_bytes w e v) = w
  /\ Forall (fun b => 0 <= b < 256) (data_value_bytes w e v).
Proof. exact data_value_bytes_spec. Qed.
Print Assumptions C11_data_value.

Theorem C11_fill : forall n v, 0 <= n ->
  fill_bytes n v = repeat (v mod 256) (Z.to_nat n) /\ Z.of_nat (length (fill_bytes n v)) = n.
Proof. exact fill_bytes_spec. Qed.
Print Assumptions C11_fill.

Theorem C11_zerountil : forall target addr, zerountil_size target addr = Z.max 0 (target - addr + 1).
Proof. exact zerountil_size_spec. Qed.
Print Assumptions C11_zerountil.

Theorem C11_string_plain : forall k t s,
  forallb (fun c => negb (c =? 92)) s = true ->
  data_string_bytes k t s = Ok (map (fun v => v mod 256) (match k with KByte => s | KCstr => s ++ [t] end)).
Proof. exact string_plain_bytes. Qed.
Print Assumptions C11_string_plain.

Theorem C11_terminator : forall t s cs,
  unescape_text s = Ok cs ->
  data_string_bytes KCstr t s = Ok (map (fun v => v mod 256) cs ++ [t mod 256])
  /\ data_string_bytes KByte t s = Ok (map (fun v => v mod 256) cs).
Proof. exact cstr_appends_terminator. Qed.
Print Assumptions C11_terminator.

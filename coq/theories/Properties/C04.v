(* Property C04 — two lines never silently occupy the same address. *)
From BA Require Import Base Layout LayoutProofs.
From Coq Require Import Sorting.Permutation.

(* if two byte-producing lines — anywhere in the program, in any source order — cover a common address, the overlap
   check fails *)
Theorem C04_overlap_rejected : forall l l1 p l2 q l3 a,
  l = l1 ++ p :: l2 ++ q :: l3 ->
  pl_isbytes p = true -> pl_isbytes q = true -> covers p a -> covers q a ->
  overlap_check None (sort_by_addr l) = false.
Proof. exact common_address_rejected. Qed.
Print Assumptions C04_overlap_rejected.

(* programs whose byte-producing lines (each at least one byte) occupy pairwise disjoint ranges are never rejected *)
Theorem C04_disjoint_accepted : forall l,
  Forall (fun p => pl_isbytes p = true -> 1 <= pl_size p) l ->
  ForallOrdPairs (fun p q => pl_isbytes p = true -> pl_isbytes q = true -> disjoint p q) l ->
  overlap_check None (sort_by_addr l) = true.
Proof. exact disjoint_accepted. Qed.
Print Assumptions C04_disjoint_accepted.

(* the sort the check relies on is a permutation sorted by address *)
Theorem C04_sort_perm : forall l, Permutation (sort_by_addr l) l.
Proof. exact sort_perm. Qed.
Print Assumptions C04_sort_perm.

(* Property C20 — generated editor extensions are well-formed and mirror the ISA vocabulary.
   Partial: well-formedness of the emitted JSON / YAML / property-list / zip files and the behaviour of the editors' regex
   engines cannot be expressed in the model; they are checked by the harness (parsers, and Python's re as a stand-in).
   Proved here: the vocabulary pattern the generator substitutes classifies an identifier iff it is in the vocabulary. *)
From BA Require Import Base Expr Subst Match Vocab VocabProofs.

Theorem C20_classifies_exactly : forall names t,
  forallb word_only names = true -> word_only t = true -> alt_search names t = in_vocab names t.
Proof. exact classifies_exactly. Qed.
Print Assumptions C20_classifies_exactly.

Theorem C20_only_boundaries_are_the_ends : forall t i,
  word_only t = true -> (i <= length t)%nat -> boundary t i = true -> i = 0%nat \/ i = length t.
Proof. exact boundary_in_word. Qed.
Print Assumptions C20_only_boundaries_are_the_ends.

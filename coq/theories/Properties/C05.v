(* Property C05 — memory zones confine and sequence the code assigned to them. *)
From BA Require Import Base Bits Expr Subst Cond CondEval Layout LayoutProofs Data Program ProgramProofs ReaderProofs.

Theorem C05_cursor_bounds : forall z v z',
  set_cursor z v = Ok z' ->
  z_start z <= v <= z_end z + 1 /\ z_cur z' = v /\ z_start z' = z_start z /\ z_end z' = z_end z /\ z_name z' = z_name z.
Proof. exact set_cursor_spec. Qed.
Print Assumptions C05_cursor_bounds.

Theorem C05_cursor_rejects : forall z v, (v < z_start z \/ v > z_end z + 1) -> set_cursor z v = Rejected.
Proof. exact set_cursor_rejects. Qed.
Print Assumptions C05_cursor_rejects.

(* every zone's cursor stays within [start, end+1] through the whole of pass 1 *)
Theorem C05_cursor_invariant : forall cfg ps zs ls acc out zs' ls',
  zones_wf zs -> pass1 cfg zs ls ps acc = Ok (out, zs', ls') -> zones_wf zs'.
Proof. exact pass1_zones_wf. Qed.
Print Assumptions C05_cursor_invariant.

(* every byte of a line placed at the cursor lies inside the zone's inclusive range, else the line is rejected *)
Theorem C05_bytes_inside_zone : forall z addr size z',
  zone_wf z -> addr = z_cur z -> 1 <= size -> set_cursor z (addr + size) = Ok z' ->
  forall a, addr <= a < addr + size -> z_start z <= a <= z_end z.
Proof. exact placed_bytes_inside_zone. Qed.
Print Assumptions C05_bytes_inside_zone.

(* stretches of one zone are laid out consecutively: lines of other zones never move its cursor *)
Theorem C05_concatenation : forall zs z z' addr size n,
  find_zone zs (z_name z) = Some z -> set_cursor z (addr + size) = Ok z' ->
  (n <> z_name z -> find_zone (update_zone zs z') n = find_zone zs n)
  /\ exists z2, find_zone (update_zone zs z') (z_name z) = Some z2 /\ z_cur z2 = addr + size
               /\ z_start z2 = z_start z /\ z_end z2 = z_end z.
Proof. exact pass1_step_cursors. Qed.
Print Assumptions C05_concatenation.

(* an origin relative to a zone is offset from that zone's start, a bare origin is absolute; both inside GLOBAL *)
Theorem C05_org_relative_absolute : forall cfg ev z g e zn a,
  line_addr cfg ev z g (SOrg e zn) = Ok a ->
  exists v, ev e = Ok v /\ a = match zn with None => v | Some _ => z_start z + v end /\ z_start g <= a <= z_end g.
Proof. exact org_line_addr. Qed.
Print Assumptions C05_org_relative_absolute.

(* zones declared in source: inside GLOBAL, fresh name, not inverted, within the address width *)
Theorem C05_create_zone : forall bits zs s e n zs' g,
  find_zone zs GLOBAL = Some g ->
  create_zone bits zs s e n = Ok zs' ->
  find_zone zs n = None /\ z_start g <= s /\ e <= z_end g /\ s <= e /\ e <= 2 ^ bits - 1
  /\ exists z, zs' = zs ++ [z] /\ z_name z = n /\ z_start z = s /\ z_end z = e /\ z_cur z = s.
Proof. exact create_zone_spec. Qed.
Print Assumptions C05_create_zone.

Theorem C05_create_zone_duplicate : forall bits zs s e n z, find_zone zs n = Some z -> create_zone bits zs s e n = Rejected.
Proof. exact create_zone_duplicate. Qed.
Print Assumptions C05_create_zone_duplicate.

Theorem C05_create_zone_outside_global : forall bits zs s e n g,
  find_zone zs n = None -> find_zone zs GLOBAL = Some g -> (s < z_start g \/ e > z_end g) ->
  create_zone bits zs s e n = Rejected.
Proof. exact create_zone_outside_global. Qed.
Print Assumptions C05_create_zone_outside_global.

Theorem C05_zone_inverted_or_too_wide : forall bits s e n, (s > e \/ e > 2 ^ bits - 1) -> mk_zone bits s e n = Rejected.
Proof. exact mk_zone_rejects. Qed.
Print Assumptions C05_zone_inverted_or_too_wide.

(* an included file starts in GLOBAL while its includer resumes in the zone it had selected *)
Theorem C05_include_zone : forall cfg load_file fid g fs acc t g' fs' acc',
  item_step cfg load_file fid (g, fs, acc) (IInclude (Some t)) = Ok (g', fs', acc') ->
  fs' = fs /\ f_zone (file_init t) = GLOBAL.
Proof.
  intros cfg load_file fid g fs acc t g' fs' acc' H.
  destruct (includer_state_preserved cfg load_file fid g fs acc t g' fs' acc' H) as [E _]. split; [exact E | reflexivity].
Qed.
Print Assumptions C05_include_zone.

(* a bare origin reverts to GLOBAL, a zone-qualified origin selects that zone *)
Theorem C05_org_selects_zone : forall cfg load_file fid g fs acc e zn g' fs' acc',
  item_step cfg load_file fid (g, fs, acc) (IStmt (SOrg e zn)) = Ok (g', fs', acc') -> currently_active (f_stack fs) = true ->
  f_scope fs' = ScFile fid /\ f_zone fs' = match zn with Some z => z | None => GLOBAL end
  /\ exists p, acc' = p :: acc /\ p_zone p = match zn with Some z => z | None => GLOBAL end.
Proof. exact org_resets_scope_and_zone. Qed.
Print Assumptions C05_org_selects_zone.

(* Property C08 — conditional assembly selects exactly the lines of the taken branches. *)
From BA Require Import Base Expr Subst Cond CondSpec CondProofs CondEval CondEvalProofs.

(* For every block-structured program (any nesting depth), every initial symbol table and every condition
   evaluator, processing its flat text line by line selects exactly the lines, definitions and mute changes
   the block semantics prescribes (first branch whose guard holds when reached, else the #else branch;
   nothing inside an unselected branch is run or evaluated). *)
Theorem C08_refines :
  forall (sym cond payload : Type) (ceval : sym -> cond -> result bool) (apply : sym -> payload -> result sym)
         (lineT outT : Type) (emit : sym -> lineT -> result outT)
         (bs : blocks cond payload lineT) (t : sym),
  run_file sym cond ceval payload apply lineT outT emit t (flat_blocks cond payload lineT bs)
  = do s <- run_blocks sym cond payload ceval apply lineT outT emit {| b_sym := t; b_mute := 0; b_out := [] |} bs;
    Ok (rev (b_out sym outT s), b_sym sym outT s).
Proof. exact flat_refines_blocks. Qed.
Print Assumptions C08_refines.

Theorem C08_refines_concrete : forall (bs : blocks ccond cpayload str) (t : table),
  crun_file t (flat_blocks ccond cpayload str bs)
  = do s <- run_blocks table ccond cpayload ceval capply str str cemit {| b_sym := t; b_mute := 0; b_out := [] |} bs;
    Ok (rev (b_out table str s), b_sym table str s).
Proof. exact flat_refines_blocks_concrete. Qed.
Print Assumptions C08_refines_concrete.

Theorem C08_unmatched_rejected :
  forall (sym cond payload : Type) (ceval : sym -> cond -> result bool) (apply : sym -> payload -> result sym)
         (lineT outT : Type) (emit : sym -> lineT -> result outT)
         (s : cstate sym outT) (d : directive cond payload lineT) (rest : list (directive cond payload lineT)),
  st_stack sym outT s = [] -> (d = DElse \/ d = DEndif \/ exists c, d = DElif c) ->
  run sym cond ceval payload apply lineT outT emit s (d :: rest) = Rejected.
Proof. exact unmatched_rejected. Qed.
Print Assumptions C08_unmatched_rejected.

Theorem C08_after_else_rejected :
  forall (sym cond payload : Type) (ceval : sym -> cond -> result bool) (apply : sym -> payload -> result sym)
         (lineT outT : Type) (emit : sym -> lineT -> result outT)
         (s : cstate sym outT) e stk (d : directive cond payload lineT) (rest : list (directive cond payload lineT)),
  st_stack sym outT s = e :: stk -> e_kind e = KElse -> (d = DElse \/ exists c, d = DElif c) ->
  run sym cond ceval payload apply lineT outT emit s (d :: rest) = Rejected.
Proof. exact after_else_rejected. Qed.
Print Assumptions C08_after_else_rejected.

Theorem C08_numeric_comparison : forall t lhs op rhs l r el er vl vr,
  resolve_line t lhs = Ok l -> resolve_line t rhs = Ok r ->
  parse_text l = Ok el -> parse_text r = Ok er ->
  labels el = [] -> labels er = [] ->
  eval (fun _ => None) el = Ok vl -> eval (fun _ => None) er = Ok vr ->
  ceval t (CCmp lhs op rhs) = Ok (apply_cmp op (Z.compare vl vr)).
Proof. exact ceval_numeric. Qed.
Print Assumptions C08_numeric_comparison.

Theorem C08_ifdef : forall t n, ceval t (CIfdef n) = Ok (match lookup t n with Some _ => true | None => false end).
Proof. exact ceval_ifdef. Qed.
Print Assumptions C08_ifdef.

(* Property C07 — numeric expressions evaluate to their arithmetic value. *)
From BA Require Import ExprParseProofs Base Expr ExprProofs.

(* BYTEn(x) / LSB(x) return byte n of the two's-complement representation of x, for every x and n >= 0 *)
Theorem C07_byte_n : forall x n : Z, 0 <= n -> byte_n x n = (x / 2 ^ (8 * n)) mod 256.
Proof. exact byte_n_spec. Qed.
Print Assumptions C07_byte_n.

Theorem C07_eval_byte : forall rho i x,
  0 <= i -> eval rho (EFun (FByte (Some i)) (ENum x)) = Ok ((x / 2 ^ (8 * i)) mod 256).
Proof. exact eval_byte. Qed.
Print Assumptions C07_eval_byte.

Theorem C07_eval_lsb : forall rho x, eval rho (EFun FLsb (ENum x)) = Ok (x mod 256).
Proof. exact eval_lsb. Qed.
Print Assumptions C07_eval_lsb.

(* division yields the real quotient and the final result is truncated toward zero *)
Theorem C07_int_division_truncates : forall rho a b,
  b <> 0 -> eval rho (EBin ODiv (ENum a) (ENum b)) = Ok (Z.quot a b).
Proof. exact eval_int_division. Qed.
Print Assumptions C07_int_division_truncates.

Theorem C07_division_by_zero_rejected : forall rho a, eval rho (EBin ODiv (ENum a) (ENum 0)) = Rejected.
Proof. exact eval_division_by_zero. Qed.
Print Assumptions C07_division_by_zero_rejected.

Theorem C07_unknown_label_rejected : forall rho s, rho s = None -> eval rho (ELabel s) = Rejected.
Proof. exact eval_unknown_label. Qed.
Print Assumptions C07_unknown_label_rejected.

(* precedence and associativity: every expression tree is read back from its token sequence printed with brackets only
   where the tree's shape deviates from   & | ^  <  << >>  <  + -  <  * / %  <  unary minus, functions, brackets   and
   left associativity (the printer `pr` is in ExprParseProofs.v).  The parser is a function, so that reading is the
   only one. *)
Theorem C07_parser_reads_back_every_tree : forall e, parse_tokens (pr 0 e) = Ok e.
Proof. exact parse_print_roundtrip. Qed.
Print Assumptions C07_parser_reads_back_every_tree.

(* x >> n is evaluated with a shortcut for counts beyond the size of x (Z.shiftr would halve n times); it is the same function *)
Theorem C07_shift_right : forall a n, 0 <= n -> shr a n = Z.shiftr a n.
Proof. exact shr_spec. Qed.
Print Assumptions C07_shift_right.

(* Property C03 — the binary image is a faithful window onto the assembled memory map. *)
From BA Require Import Base Layout LayoutProofs.

(* explicit window [start, e]: exactly e - start + 1 bytes; at offset a - start the byte assembled for address a by an
   unmuted line (byte_at), the fill value where there is none — for every address of the window and nothing else *)
Theorem C03_image_window : forall l start e fill,
  start - 1 <= e ->
  Z.of_nat (length (image l start (Some e) fill)) = e - start + 1
  /\ forall a, start <= a <= e ->
       nth_error (image l start (Some e) fill) (Z.to_nat (a - start))
       = Some (match byte_at l a with Some b => b | None => fill end).
Proof. exact image_window. Qed.
Print Assumptions C03_image_window.

(* no end given: the window ends at the highest address that received an emitted byte *)
Theorem C03_default_end : forall l start fill,
  let e := map_max (build_map l) (start - 1) in
  image l start None fill = image l start (Some e) fill
  /\ (forall a b, byte_at l a = Some b -> a <= e)
  /\ ((exists a b, byte_at l a = Some b) -> exists b, byte_at l e = Some b).
Proof. exact image_default_end. Qed.
Print Assumptions C03_default_end.

(* byte_at is made of the lines' own bytes: every byte of an unmuted line counts at its own address (a line that
   straddles the window edge loses nothing inside the window), none counts outside its range, muted lines count nowhere *)
Theorem C03_every_byte_counts : forall p i b,
  pl_isbytes p = true -> pl_muted p = false -> nth_error (pl_bytes p) i = Some b ->
  contrib p (pl_addr p + Z.of_nat i) = Some b.
Proof. exact contrib_complete. Qed.
Print Assumptions C03_every_byte_counts.

Theorem C03_nothing_outside_line : forall p a b,
  contrib p a = Some b -> pl_addr p <= a < pl_addr p + Z.of_nat (length (pl_bytes p)).
Proof. exact contrib_in_range. Qed.
Print Assumptions C03_nothing_outside_line.

Theorem C03_muted_excluded : forall p a, pl_muted p = true -> contrib p a = None.
Proof. exact contrib_muted. Qed.
Print Assumptions C03_muted_excluded.

Theorem C03_byte_at_sound : forall l a b, byte_at l a = Some b -> exists p, In p l /\ contrib p a = Some b.
Proof. exact byte_at_sound. Qed.
Print Assumptions C03_byte_at_sound.

Theorem C03_byte_at_complete : forall l p a b, In p l -> contrib p a = Some b -> exists b', byte_at l a = Some b'.
Proof. exact byte_at_complete. Qed.
Print Assumptions C03_byte_at_complete.

(* Property C15 — assembly is deterministic.
   Partial: the model is a function of (configuration, files, options) — it has no seed, environment or directory argument;
   proved here is the invariance under the representation choices the code leaves to hash order.  The interpreter's
   hashing itself is only sampled (determinism oracle: fresh processes under different hash seeds, environments, working
   directories and include-directory orders). *)
From BA Require Import Base Layout LayoutProofs Program Formats FormatsProofs.
From Coq Require Import Sorting.Permutation.

(* searching the include directories: found exactly once / missing / ambiguous does not depend on their order *)
Theorem C15_locate_perm : forall (D : Type) (has : D -> bool) dirs dirs',
  Permutation dirs dirs' -> locate has dirs = locate has dirs'.
Proof. exact @locate_order_independent. Qed.
Print Assumptions C15_locate_perm.

(* the register collection is only ever asked for membership (of a name, in any letter case) *)
Theorem C15_registers_perm : forall (n : list Z) regs regs',
  Permutation regs regs' -> Subst.reg_mem n regs = Subst.reg_mem n regs'.
Proof. exact reg_mem_order_independent. Qed.
Print Assumptions C15_registers_perm.

(* the order of lines with equal addresses is fixed by the (stable) sort: a permutation, sorted by address *)
Theorem C15_sort_perm : forall l, Permutation (sort_by_addr l) l.
Proof. exact sort_perm. Qed.
Print Assumptions C15_sort_perm.

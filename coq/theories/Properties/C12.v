(* Property C12 — configured operand value constraints are enforced. *)
From BA Require Import Base Bits BitsSpec BitsProofs.

(* width: a value outside the signed-or-unsigned range of its field width is rejected ... *)
Theorem C12_width_rejects : forall ps : list part,
  Exists (fun p => ~ fits_width (p_size p) (p_value p)) ps -> is_ok (get_bytes ps) = false.
Proof. exact pack_rejects_overflow. Qed.
Print Assumptions C12_width_rejects.

(* ... and values inside it are assembled. *)
Theorem C12_width_accepts : forall ps : list part,
  ps <> [] -> Forall part_ok ps -> is_ok (get_bytes ps) = true.
Proof. intros ps H1 H2. destruct (pack_correct ps H1 H2) as [E _]. rewrite E. reflexivity. Qed.
Print Assumptions C12_width_accepts.

(* Property C12 — configured operand value constraints are enforced. *)
From BA Require Import Base Bits BitsSpec BitsProofs Expr Layout Program ProgramProofs.

(* width: a value outside the signed-or-unsigned range of its field width is rejected ... *)
Theorem C12_width_rejects : forall ps : list part,
  Exists (fun p => ~ fits_width (p_size p) (p_value p)) ps -> is_ok (get_bytes ps) = false.
Proof. exact pack_rejects_overflow. Qed.
Print Assumptions C12_width_rejects.

(* ... and values inside it are assembled. *)
Theorem C12_width_accepts : forall ps : list part,
  ps <> [] -> Forall part_ok ps -> is_ok (get_bytes ps) = true.
Proof. exact pack_accepts. Qed.
Print Assumptions C12_width_accepts.

(* minimum / maximum (bit-index operands): produced iff within range *)
Theorem C12_minmax : forall ev addr isz e mx mn size al en r,
  part_value ev addr isz (mkpart (VValid e mx mn) size al en) = Ok r
  <-> ev e = Ok r /\ sat_max r mx /\ sat_min r mn.
Proof. exact part_minmax. Qed.
Print Assumptions C12_minmax.

(* membership in a numeric enumeration *)
Theorem C12_enum : forall ev addr isz e d size al en r,
  part_value ev addr isz (mkpart (VEnum e d) size al en) = Ok r <-> exists v, ev e = Ok v /\ dict_get d v = Some r.
Proof. exact part_enum. Qed.
Print Assumptions C12_enum.

(* lying inside a memory zone (address operands, operands flagged as valid addresses) *)
Theorem C12_zone : forall ev addr isz e b size al en r,
  part_value ev addr isz (mkpart (VZone e b) size al en) = Ok r <-> ev e = Ok r /\ sat_bounds r b.
Proof. exact part_zone. Qed.
Print Assumptions C12_zone.

Theorem C12_address_zone : forall ev addr isz e b size al en r,
  part_value ev addr isz (mkpart (VAddr e b false false) size al en) = Ok r <-> ev e = Ok r /\ sat_bounds r b.
Proof. exact part_address_in_zone. Qed.
Print Assumptions C12_address_zone.

(* sliced addresses share their high-order bits with the instruction's own address *)
Theorem C12_msb_match : forall ev addr isz e b size al en r,
  0 <= size ->
  (part_value ev addr isz (mkpart (VAddr e b true true) size al en) = Ok r
   <-> exists v, ev e = Ok v /\ sat_bounds v b /\ addr / 2 ^ size = v / 2 ^ size /\ r = v mod 2 ^ size).
Proof. exact part_sliced_address. Qed.
Print Assumptions C12_msb_match.

(* relative offsets: from the instruction's address, or from its last byte; min/max enforced on the offset *)
Theorem C12_relative : forall ev addr isz e mn mx from_end b size al en r,
  part_value ev addr isz (mkpart (VRel e mn mx from_end b) size al en) = Ok r
  <-> exists v, ev e = Ok v /\ sat_bounds v b
                /\ r = (if from_end then v - (addr + (isz - 1)) else v - addr)
                /\ sat_max r mx /\ sat_min r mn.
Proof. exact part_relative. Qed.
Print Assumptions C12_relative.

(* Property C19 — malformed ISA definitions and unmet version requirements are rejected; well-formed ones never are.
   The definition is abstracted to the facts validation looks at (Config.vcfg; the abstraction from the YAML text is
   harness code, tied by the `validate` correspondence on generated definitions and every catalogue fault).
   The textual parsing of version numbers is not modelled: versions are release-number lists with an optional
   pre-release tag, the subset  N(.N)*((a|b|rc)N)?  of PEP 440. *)
From BA Require Import Base Expr Subst Layout LayoutProofs Match Config ConfigProofs.

(* accepted iff well-formed: sections, keywords, macro/instruction clash, declared operand sets and registers, operand
   counts, ranges, memory zones, version gate *)
Theorem C19_accepts_exactly_well_formed : forall c, validate c = true <-> well_formed c.
Proof. exact validate_iff. Qed.
Print Assumptions C19_accepts_exactly_well_formed.

(* the min_version gate is an interval in version order *)
Theorem C19_gate_is_interval : forall required,
  gate required = true <-> ver_le MIN_SUPPORTED required = true /\ ver_le required RUNNING = true.
Proof. exact gate_iff. Qed.
Print Assumptions C19_gate_is_interval.

(* version order is a total order's comparison: reflexive and antisymmetric; numeric in every component *)
Theorem C19_version_order_refl : forall a, ver_cmp a a = Eq.
Proof. exact ver_cmp_refl. Qed.
Print Assumptions C19_version_order_refl.

Theorem C19_version_order_antisym : forall a b, ver_cmp b a = CompOpp (ver_cmp a b).
Proof. exact ver_cmp_opp. Qed.
Print Assumptions C19_version_order_antisym.

Theorem C19_version_order_trans : forall a b c, ver_cmp a b = Lt -> ver_cmp b c = Lt -> ver_cmp a c = Lt.
Proof. exact ver_cmp_trans. Qed.
Print Assumptions C19_version_order_trans.

Theorem C19_version_order_numeric : forall (pre : list Z) (x y : Z) (ra rb : list Z) pa pb,
  (x < y)%Z ->
  ver_cmp {| v_rel := pre ++ x :: ra; v_pre := pa |} {| v_rel := pre ++ y :: rb; v_pre := pb |} = Lt.
Proof. exact ver_cmp_numeric. Qed.
Print Assumptions C19_version_order_numeric.

(* #require *)
Theorem C19_require_honoured_exactly : forall name_matches cond isa_version,
  require_ok name_matches cond isa_version = true
  <-> name_matches = true /\ match cond with None => True | Some (op, v) => req_holds op isa_version v = true end.
Proof. exact require_iff. Qed.
Print Assumptions C19_require_honoured_exactly.

Theorem C19_require_comparisons : forall op a b,
  req_holds op a b = match op with
                     | RGe => ver_le b a | RLe => ver_le a b
                     | RGt => negb (ver_le a b) | RLt => negb (ver_le b a)
                     | REq => match ver_cmp a b with Eq => true | _ => false end
                     end.
Proof. exact req_holds_spec. Qed.
Print Assumptions C19_require_comparisons.

(* a memory zone that is created lies inside the address space at both ends (D46: also at the lower end) *)
Theorem C19_zone_inside_address_space : forall bits s e n z,
  mk_zone bits s e n = Ok z -> 0 <= z_start z /\ z_end z <= 2 ^ bits - 1.
Proof. exact mk_zone_inside_space. Qed.
Print Assumptions C19_zone_inside_address_space.

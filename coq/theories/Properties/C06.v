(* Property C06 — label references resolve only within their lexical scope. *)
From BA Require Import Base Bits Expr Subst Layout Program ProgramProofs.

(* whatever a reference resolves to was stored under: the local region of the referencing line, its file, or the global
   scope (and then the name is not a register) — never under another region or another file *)
Theorem C06_resolve_sound : forall regs ls sc n v,
  lookup_label regs ls sc n = Some v ->
  (exists f r, sc = ScLocal f r /\ lfind ls (KLocal r n) = Some v)
  \/ lfind ls (KFile (scope_file sc) n) = Some v
  \/ (mem n regs = false /\ lfind ls (KGlobal n) = Some v).
Proof. exact lookup_sound. Qed.
Print Assumptions C06_resolve_sound.

(* a definition is stored under the key its prefix prescribes: local labels under the defining line's own region,
   file labels under its own file *)
Theorem C06_definition_key : forall kw ls sc n v ls',
  set_label kw ls sc n v = Ok ls' ->
  exists k, ls' = ls ++ [(k, v)] /\ lfind ls k = None /\
    match label_kind n with
    | LkGlobal => k = KGlobal n
    | LkFile => k = KFile (scope_file sc) n
    | LkLocal => exists f r, sc = ScLocal f r /\ k = KLocal r n
    end.
Proof. exact set_label_key. Qed.
Print Assumptions C06_definition_key.

Theorem C06_duplicate_rejected : forall kw ls sc n v v' ls1,
  set_label kw ls sc n v = Ok ls1 -> set_label kw ls1 sc n v' = Rejected.
Proof. exact set_label_duplicate. Qed.
Print Assumptions C06_duplicate_rejected.

Theorem C06_local_without_region_rejected : forall kw ls f n v,
  label_kind n = LkLocal -> set_label kw ls (ScFile f) n v = Rejected.
Proof. exact set_label_local_without_region. Qed.
Print Assumptions C06_local_without_region_rejected.

Theorem C06_keyword_rejected : forall kw ls sc n v, mem (base_name n) kw = true -> set_label kw ls sc n v = Rejected.
Proof. exact set_label_keyword. Qed.
Print Assumptions C06_keyword_rejected.

Theorem C06_register_not_a_label : forall regs ls f n,
  mem n regs = true -> lfind ls (KFile f n) = None -> lookup_label regs ls (ScFile f) n = None.
Proof. exact register_not_a_label. Qed.
Print Assumptions C06_register_not_a_label.

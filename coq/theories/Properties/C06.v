(* Property C06 — label references resolve only within their lexical scope. *)
From BA Require Import Base Bits Expr Subst Cond CondEval Layout Data Program ProgramProofs ReaderProofs.

(* whatever a reference resolves to was stored under: the local region of the referencing line, its file, or the global
   scope (and then the name is not a register) — never under another region or another file *)
Theorem C06_resolve_sound : forall regs ls sc n v,
  lookup_label regs ls sc n = Some v ->
  (exists f r, sc = ScLocal f r /\ lfind ls (KLocal r n) = Some v)
  \/ lfind ls (KFile (scope_file sc) n) = Some v
  \/ (reg_mem n regs = false /\ lfind ls (KGlobal n) = Some v).
Proof. exact lookup_sound. Qed.
Print Assumptions C06_resolve_sound.

(* a definition is stored under the key its prefix prescribes: local labels under the defining line's own region,
   file labels under its own file *)
Theorem C06_definition_key : forall kw ls sc n v ls',
  set_label kw ls sc n v = Ok ls' ->
  exists k, ls' = ls ++ [(k, v)] /\ lfind ls k = None /\
    match label_kind n with
    | LkGlobal => k = KGlobal n
    | LkFile => k = KFile (scope_file sc) n
    | LkLocal => exists f r, sc = ScLocal f r /\ k = KLocal r n
    end.
Proof. exact set_label_key. Qed.
Print Assumptions C06_definition_key.

Theorem C06_duplicate_rejected : forall kw ls sc n v v' ls1,
  set_label kw ls sc n v = Ok ls1 -> set_label kw ls1 sc n v' = Rejected.
Proof. exact set_label_duplicate. Qed.
Print Assumptions C06_duplicate_rejected.

Theorem C06_local_without_region_rejected : forall kw ls f n v,
  label_kind n = LkLocal -> set_label kw ls (ScFile f) n v = Rejected.
Proof. exact set_label_local_without_region. Qed.
Print Assumptions C06_local_without_region_rejected.

Theorem C06_keyword_rejected : forall kw ls sc n v, mem (base_name n) kw = true -> set_label kw ls sc n v = Rejected.
Proof. exact set_label_keyword. Qed.
Print Assumptions C06_keyword_rejected.

Theorem C06_register_not_a_label : forall regs ls f n,
  reg_mem n regs = true -> lfind ls (KFile f n) = None -> lookup_label regs ls (ScFile f) n = None.
Proof. exact register_not_a_label. Qed.
Print Assumptions C06_register_not_a_label.

(* the local region of a line: a non-local label opens a fresh region (to which it already belongs) ... *)
Theorem C06_nonlocal_label_opens_region : forall cfg load_file fid g fs acc n g' fs' acc',
  item_step cfg load_file fid (g, fs, acc) (IStmt (SLabel n)) = Ok (g', fs', acc') -> currently_active (f_stack fs) = true ->
  label_kind n <> LkLocal ->
  f_scope fs' = ScLocal fid (g_region g) /\ g_region g' = S (g_region g) /\ f_zone fs' = f_zone fs
  /\ exists p, acc' = p :: acc /\ p_scope p = ScLocal fid (g_region g) /\ p_zone p = f_zone fs.
Proof. exact nonlocal_label_opens_region. Qed.
Print Assumptions C06_nonlocal_label_opens_region.

(* ... local labels stay in it ... *)
Theorem C06_local_label_keeps_region : forall cfg load_file fid g fs acc n g' fs' acc',
  item_step cfg load_file fid (g, fs, acc) (IStmt (SLabel n)) = Ok (g', fs', acc') -> currently_active (f_stack fs) = true ->
  label_kind n = LkLocal ->
  f_scope fs' = f_scope fs /\ g_region g' = g_region g /\ f_zone fs' = f_zone fs.
Proof. exact local_label_keeps_region. Qed.
Print Assumptions C06_local_label_keeps_region.

(* ... and an origin or zone directive ends it *)
Theorem C06_org_ends_region : forall cfg load_file fid g fs acc e zn g' fs' acc',
  item_step cfg load_file fid (g, fs, acc) (IStmt (SOrg e zn)) = Ok (g', fs', acc') -> currently_active (f_stack fs) = true ->
  f_scope fs' = ScFile fid /\ f_zone fs' = match zn with Some z => z | None => GLOBAL end
  /\ exists p, acc' = p :: acc /\ p_zone p = match zn with Some z => z | None => GLOBAL end.
Proof. exact org_resets_scope_and_zone. Qed.
Print Assumptions C06_org_ends_region.

Theorem C06_memzone_ends_region : forall cfg load_file fid g fs acc z g' fs' acc',
  item_step cfg load_file fid (g, fs, acc) (IStmt (SMemzone z)) = Ok (g', fs', acc') -> currently_active (f_stack fs) = true ->
  f_scope fs' = ScFile fid /\ f_zone fs' = z /\ exists zn, find_zone (g_zones g) z = Some zn.
Proof. exact memzone_resets_scope_and_zone. Qed.
Print Assumptions C06_memzone_ends_region.

Theorem C06_register_label_rejected : forall cfg load_file fid g fs acc n,
  currently_active (f_stack fs) = true -> is_register_name cfg n = true ->
  (exists z, find_zone (g_zones g) (f_zone fs) = Some z) ->
  item_step cfg load_file fid (g, fs, acc) (IStmt (SLabel n)) = Rejected.
Proof. exact register_label_rejected. Qed.
Print Assumptions C06_register_label_rejected.

(* Property C17 — including a file is equivalent to assembling its text in place (under a fresh file scope). *)
From BA Require Import NoFuel Base Bits Expr Subst Cond CondEval Layout Data Program ProgramProofs ReaderProofs.

(* a file included more than once is rejected *)
Theorem C17_included_twice_rejected : forall cfg load_file fid g fs acc t,
  currently_active (f_stack fs) = true -> in_nat t (g_used g) = true ->
  item_step cfg load_file fid (g, fs, acc) (IInclude (Some t)) = Rejected.
Proof. exact include_twice_rejected. Qed.
Print Assumptions C17_included_twice_rejected.

(* a missing file, or a name found in more than one search directory, is rejected *)
Theorem C17_unresolved_rejected : forall cfg load_file fid g fs acc,
  currently_active (f_stack fs) = true -> item_step cfg load_file fid (g, fs, acc) (IInclude None) = Rejected.
Proof. exact include_unresolved_rejected. Qed.
Print Assumptions C17_unresolved_rejected.

(* the includer's local-label region and selected zone (and its conditional / mute state) continue unchanged after the
   include, and the included lines are spliced in, in order, exactly at the point of inclusion *)
Theorem C17_includer_state_preserved : forall cfg load_file fid g fs acc t g' fs' acc',
  item_step cfg load_file fid (g, fs, acc) (IInclude (Some t)) = Ok (g', fs', acc') ->
  fs' = fs /\ (acc' = acc \/ exists lines, load_file t {| g_tab := g_tab g; g_zones := g_zones g; g_labels := g_labels g;
                                                       g_used := t :: g_used g; g_region := g_region g |} = Ok (g', lines)
                                          /\ acc' = rev lines ++ acc).
Proof. exact includer_state_preserved. Qed.
Print Assumptions C17_includer_state_preserved.

(* the included file is read under a fresh file scope, starting in GLOBAL *)
Theorem C17_fresh_file_scope : forall fid,
  f_zone (file_init fid) = GLOBAL /\ f_scope (file_init fid) = ScFile fid /\ f_stack (file_init fid) = [] /\ f_mute (file_init fid) = 0%nat.
Proof. exact included_file_starts_fresh. Qed.
Print Assumptions C17_fresh_file_scope.

(* file-scoped labels of either file are invisible to the other: a lookup only ever consults the referencing line's own
   file (and region), or the global scope *)
Theorem C17_file_scope_isolated : forall regs ls sc n v,
  lookup_label regs ls sc n = Some v ->
  (exists f r, sc = ScLocal f r /\ lfind ls (KLocal r n) = Some v)
  \/ lfind ls (KFile (scope_file sc) n) = Some v
  \/ (mem n regs = false /\ lfind ls (KGlobal n) = Some v).
Proof. exact lookup_sound. Qed.
Print Assumptions C17_file_scope_isolated.

(* a file can be included at most once, so the loader's recursion depth is bounded by the number of files: its fuel
   never runs out, and the set of files already used only grows *)
Theorem C17_loader_fuel_suffices : forall fuel cfg files fid g,
  (unused (length files) (g_used g) + 1 < fuel)%nat ->
  load fuel cfg files fid g <> OutOfFuel
  /\ forall g' ls, load fuel cfg files fid g = Ok (g', ls) -> used_grows g g'.
Proof. exact load_fuel_suffices. Qed.
Print Assumptions C17_loader_fuel_suffices.

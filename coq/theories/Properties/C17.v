(* Property C17 — including a file is equivalent to assembling its text in place (under a fresh file scope). *)
From BA Require Import NoFuel Base Bits Expr Subst Cond CondEval Layout Data Program ProgramProofs ReaderProofs.

(* a file included more than once is rejected *)
Theorem C17_included_twice_rejected : forall cfg load_file fid g fs acc t,
  currently_active (f_stack fs) = true -> in_nat t (g_used g) = true ->
  item_step cfg load_file fid (g, fs, acc) (IInclude (Some t)) = Rejected.
Proof. exact include_twice_rejected. Qed.
Print Assumptions C17_included_twice_rejected.

(* a missing file, or a name found in more than one search directory, is rejected *)
Theorem C17_unresolved_rejected : forall cfg load_file fid g fs acc,
  currently_active (f_stack fs) = true -> item_step cfg load_file fid (g, fs, acc) (IInclude None) = Rejected.
Proof. exact include_unresolved_rejected. Qed.
Print Assumptions C17_unresolved_rejected.

(* the includer's local-label region and selected zone (and its conditional / mute state) continue unchanged after the
   include, and the included lines are spliced in, in order, exactly at the point of inclusion *)
Theorem C17_includer_state_preserved : forall cfg load_file fid g fs acc t g' fs' acc',
  item_step cfg load_file fid (g, fs, acc) (IInclude (Some t)) = Ok (g', fs', acc') ->
  fs' = fs /\ (acc' = acc \/ exists lines, load_file t {| g_tab := g_tab g; g_zones := g_zones g; g_labels := g_labels g;
                                                       g_used := t :: g_used g; g_region := g_region g |} = Ok (g', lines)
                                          /\ acc' = rev lines ++ acc).
Proof. exact includer_state_preserved. Qed.
Print Assumptions C17_includer_state_preserved.

(* the included file is read under a fresh file scope, starting in GLOBAL *)
Theorem C17_fresh_file_scope : forall fid,
  f_zone (file_init fid) = GLOBAL /\ f_scope (file_init fid) = ScFile fid /\ f_stack (file_init fid) = [] /\ f_mute (file_init fid) = 0%nat.
Proof. exact included_file_starts_fresh. Qed.
Print Assumptions C17_fresh_file_scope.

(* file-scoped labels of either file are invisible to the other: a lookup only ever consults the referencing line's own
   file (and region), or the global scope *)
Theorem C17_file_scope_isolated : forall regs ls sc n v,
  lookup_label regs ls sc n = Some v ->
  (exists f r, sc = ScLocal f r /\ lfind ls (KLocal r n) = Some v)
  \/ lfind ls (KFile (scope_file sc) n) = Some v
  \/ (reg_mem n regs = false /\ lfind ls (KGlobal n) = Some v).
Proof. exact lookup_sound. Qed.
Print Assumptions C17_file_scope_isolated.

(* a file can be included at most once, so the loader's recursion depth is bounded by the number of files: its fuel
   never runs out, and the set of files already used only grows *)
Theorem C17_loader_fuel_suffices : forall fuel cfg files fid g,
  (unused (length files) (g_used g) + 1 < fuel)%nat ->
  load fuel cfg files fid g <> OutOfFuel
  /\ forall g' ls, load fuel cfg files fid g = Ok (g', ls) -> used_grows g g'.
Proof. exact load_fuel_suffices. Qed.
Print Assumptions C17_loader_fuel_suffices.

(* Including file t at some point of a file is: read what precedes; then -- if that point lies in a selected branch and t
   has not been used yet -- read t's own items in place, threading the global state (symbols, zones, labels, files used,
   region counter) through them, under a fresh file-local state (no open conditionals, not muted, the file scope of t,
   GLOBAL selected); then read what follows with the includer's file-local state exactly as it was, t's lines standing
   between those of what precedes and what follows. *)
Theorem C17_include_is_in_place : forall cfg fu files fid t items_t pre post g0 fs0 acc0,
  nth_error files t = Some items_t ->
  run_items (item_step cfg (load (S fu) cfg files) fid) (pre ++ IInclude (Some t) :: post) (g0, fs0, acc0) =
  do st1 <- run_items (item_step cfg (load (S fu) cfg files) fid) pre (g0, fs0, acc0);
  let '(g1, fs1, acc1) := st1 in
  if currently_active (f_stack fs1) then
    if in_nat t (g_used g1) then Rejected else
    do rt <- run_items (item_step cfg (load fu cfg files) t) items_t (mark_used g1 t, file_init t, []);
    let '(g2, _, acct) := rt in
    run_items (item_step cfg (load (S fu) cfg files) fid) post (g2, fs1, acct ++ acc1)
  else run_items (item_step cfg (load (S fu) cfg files) fid) post (g1, fs1, acc1).
Proof. exact include_in_place. Qed.
Print Assumptions C17_include_is_in_place.

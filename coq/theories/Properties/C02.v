(* Property C02 — address assignment and label values are consistent across both passes. *)
From BA Require Import Base Bits Expr Layout LayoutProofs Program ProgramProofs.

(* an alignment directive moves the address to the smallest multiple of its page size not below the current address *)
Theorem C02_align_smallest_multiple : forall a p r,
  align_addr a p = Ok r ->
  1 <= p /\ a <= r /\ r mod p = 0 /\ (forall m, a <= m -> m mod p = 0 -> r <= m).
Proof. exact align_smallest_multiple. Qed.
Print Assumptions C02_align_smallest_multiple.

Theorem C02_align_line : forall cfg ev z g e a,
  line_addr cfg ev z g (SAlign e) = Ok a ->
  exists page, 1 <= page /\ z_cur z <= a /\ a mod page = 0 /\ (forall m, z_cur z <= m -> m mod page = 0 -> a <= m).
Proof. exact align_line_addr. Qed.
Print Assumptions C02_align_line.

(* the number of bytes a line finally emits equals the space reserved for it when addresses were assigned,
   for every line kind and whatever the labels turn out to be *)
Theorem C02_reserved_eq_emitted : forall cfg ls1 ls2 (s : sized) bs,
  is_byte_stmt (p_stmt (s_line s)) = true ->
  line_size (eval_in cfg ls1 (p_scope (s_line s))) (s_addr s) (p_stmt (s_line s)) = Ok (s_size s) ->
  gen_bytes cfg ls2 s = Ok bs ->
  Z.of_nat (length bs) = s_size s.
Proof. exact reserved_eq_emitted. Qed.
Print Assumptions C02_reserved_eq_emitted.

(* a line other than .org / .align is placed at its zone's cursor ... *)
Theorem C02_line_at_cursor : forall cfg ev z g s,
  (forall e zn, s <> SOrg e zn) -> (forall e, s <> SAlign e) -> line_addr cfg ev z g s = Ok (z_cur z).
Proof. exact plain_line_at_cursor. Qed.
Print Assumptions C02_line_at_cursor.

(* ... which after every line is the line's address plus its size, lines of other zones leaving it alone:
   so the next line of the zone follows immediately, and a label (size 0) has the address of the line after it *)
Theorem C02_cursor_advances : forall zs z z' addr size n,
  find_zone zs (z_name z) = Some z -> set_cursor z (addr + size) = Ok z' ->
  (n <> z_name z -> find_zone (update_zone zs z') n = find_zone zs n)
  /\ exists z2, find_zone (update_zone zs z') (z_name z) = Some z2 /\ z_cur z2 = addr + size
               /\ z_start z2 = z_start z /\ z_end z2 = z_end z.
Proof. exact pass1_step_cursors. Qed.
Print Assumptions C02_cursor_advances.

Theorem C02_label_reserves_nothing : forall ev addr s, is_byte_stmt s = false -> line_size ev addr s = Ok 0.
Proof. exact non_byte_line_size. Qed.
Print Assumptions C02_label_reserves_nothing.

(* an origin is absolute, or offset from the named zone's start, and must lie inside GLOBAL *)
Theorem C02_org : forall cfg ev z g e zn a,
  line_addr cfg ev z g (SOrg e zn) = Ok a ->
  exists v, ev e = Ok v /\ a = match zn with None => v | Some _ => z_start z + v end /\ z_start g <= a <= z_end g.
Proof. exact org_line_addr. Qed.
Print Assumptions C02_org.

(* Property C10 — a macro assembles to exactly its expanded instruction sequence. *)
From BA Require Import Base Bits Expr Subst Layout Program Match MatchProofs.

(* the bytes of an instruction sequence are the bytes of its first part followed by those of the rest assembled at the
   address where the first part ends: a macro emits exactly what its instructions written one after the other emit *)
Theorem C10_sequence_is_concatenation : forall ev a addr b,
  instrs_bytes ev addr (a ++ b)
  = do x <- instrs_bytes ev addr a; do y <- instrs_bytes ev (addr + seq_size a) b; Ok (x ++ y).
Proof. exact instrs_bytes_app. Qed.
Print Assumptions C10_sequence_is_concatenation.

Theorem C10_single_instruction : forall ev addr ips, instrs_bytes ev addr [ips] = instr_bytes ev addr ips.
Proof. exact single_instruction_sequence. Qed.
Print Assumptions C10_single_instruction.

(* it occupies exactly the sum of its instructions' sizes, so labels after it are placed accordingly *)
Theorem C10_size_is_sum : forall ev addr steps, line_size ev addr (SInstrs steps) = Ok (seq_size steps).
Proof. exact macro_size_is_sum. Qed.
Print Assumptions C10_size_is_sum.

Theorem C10_size_additive : forall a b, seq_size (a ++ b) = seq_size a + seq_size b.
Proof. exact seq_size_app. Qed.
Print Assumptions C10_size_additive.

(* a placeholder that cannot be filled is rejected *)
Theorem C10_unfilled_arg : forall ms n,
  (nth_error ms n = None \/ exists m, nth_error ms n = Some m /\ m_argtoks m = None) -> subst_ttok ms (PArg n) = None.
Proof. exact unfilled_placeholder. Qed.
Print Assumptions C10_unfilled_arg.

Theorem C10_unfilled_reg : forall ms n,
  (nth_error ms n = None \/ exists m, nth_error ms n = Some m /\ m_reg m = None) -> subst_ttok ms (PReg n) = None.
Proof. exact unfilled_register_placeholder. Qed.
Print Assumptions C10_unfilled_reg.

Theorem C10_unfilled_propagates : forall ms l t, In t l -> subst_ttok ms t = None -> subst_operand ms l = None.
Proof. exact subst_operand_none. Qed.
Print Assumptions C10_unfilled_propagates.

(* the statement of the property itself: when the invocation's operands are accepted by a macro variant (and by none
   before it) and every placeholder of its steps can be filled, the invocation assembles to exactly what the expanded
   statements -- the step templates with the placeholders replaced by the matched operands' texts -- assemble to, one after
   the other; if some placeholder cannot be filled the invocation is not assembled at all *)
Theorem C10_macro_is_its_expansion : forall f regs i mn operands skipped mv later ms stmts,
  isa_get i (map lower mn) = Some (EMacro (skipped ++ mv :: later)) ->
  Forall (fun v => mv_match regs operands v = inl None) skipped ->
  mv_match regs operands mv = inl (Some ms) ->
  expand ms (mv_steps mv) = Some stmts ->
  assemble_stmt (S f) regs i mn operands = assemble_seq f regs i stmts.
Proof. exact macro_is_its_expansion. Qed.
Print Assumptions C10_macro_is_its_expansion.

Theorem C10_unfillable_not_assembled : forall f regs i mn operands skipped mv later ms,
  isa_get i (map lower mn) = Some (EMacro (skipped ++ mv :: later)) ->
  Forall (fun v => mv_match regs operands v = inl None) skipped ->
  mv_match regs operands mv = inl (Some ms) ->
  expand ms (mv_steps mv) = None ->
  forall r, assemble_stmt (S f) regs i mn operands <> Ok r.
Proof. exact macro_unfillable_not_ok. Qed.
Print Assumptions C10_unfillable_not_assembled.

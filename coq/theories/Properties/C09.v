(* Property C09 — preprocessor symbols are substituted as whole words, in definition order. *)
From BA Require Import Base Expr Subst SubstProofs.

(* substitution of a symbol rewrites exactly the whole-word segments equal to its name *)
Theorem C09_whole_word : forall w repl line,
  replace_word w repl line
  = flat_map (fun g => match g with
                       | SWord x => if str_eqb x w then repl else x
                       | SSep c => [c]
                       end) (segs line).
Proof. exact replace_word_segments. Qed.
Print Assumptions C09_whole_word.

(* ... where segments are a lossless cut of the line into maximal word runs and separators *)
Theorem C09_segments_lossless : forall s, unsegs (segs s) = s.
Proof. exact segs_unsegs. Qed.
Print Assumptions C09_segments_lossless.

(* identifiers that merely contain a symbol's name are left untouched *)
Theorem C09_no_whole_word_no_change : forall w repl line,
  (forall x, In (SWord x) (segs line) -> str_eqb x w = false) -> replace_word w repl line = line.
Proof. exact replace_word_absent. Qed.
Print Assumptions C09_no_whole_word_no_change.

(* a line none of whose words is a defined symbol (in particular: a use that precedes the definition) is unchanged *)
Theorem C09_undefined_untouched : forall t line,
  (forall w, In w (words line) -> lookup t w = None) -> resolve_line t line = Ok line.
Proof. exact resolve_no_symbols. Qed.
Print Assumptions C09_undefined_untouched.

Theorem C09_duplicate_rejected : forall t n v v', lookup t n = Some v -> create_symbol t n v' = Rejected.
Proof. exact create_symbol_duplicate. Qed.
Print Assumptions C09_duplicate_rejected.

Theorem C09_direct_cycle_rejected : forall t w v,
  lookup t w = Some v -> words v = [w] -> words w = [w] -> resolve_line t w = Rejected.
Proof. exact resolve_direct_cycle. Qed.
Print Assumptions C09_direct_cycle_rejected.

(* substitution is repeated until no defined symbol remains, and that always ends: the fuel |table| + 1 suffices because
   every nested or repeated round resolves at least one more symbol and meeting a symbol twice on the way is an error *)
Theorem C09_substitution_terminates : forall t line, resolve_line t line <> OutOfFuel.
Proof. exact resolve_line_never_out_of_fuel. Qed.
Print Assumptions C09_substitution_terminates.

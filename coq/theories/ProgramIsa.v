(* ProgramIsa.v — whole programs whose instruction statements are given as mnemonic + operand texts and encoded by the
   operand-matching model (Match.v).  InstructionLine / InstructioParser.parse_instruction run when the line is read. *)
From BA Require Export Base Program Match.

Inductive aitem := AItem (it : item) | AAsm (mn : str) (ops : list operand).

Definition MACRO_FUEL : nat := 8.

Definition resolve_item (regs : list str) (i : isa) (a : aitem) : result item :=
  match a with
  | AItem it => Ok it
  | AAsm mn ops => do steps <- assemble_stmt MACRO_FUEL regs i mn ops; Ok (IStmt (SInstrs steps))
  end.

Definition run_prog_isa (c : isa * config * list (list aitem) * options) : obs_prog :=
  let '(i, cfg, files, opts) := c in
  match mapM (fun f => mapM (resolve_item (c_registers cfg) i) f) files with
  | Ok files' => run_prog (cfg, files', opts)
  | _ => None
  end.

(* statement-level runner: the bytes of one statement assembled at a given address with no labels *)
Definition run_stmt (c : list str * isa * str * list operand * Z) : obs_bytes :=
  let '(regs, i, mn, ops, addr) := c in
  obs_of_result (do steps <- assemble_stmt MACRO_FUEL regs i mn ops;
                 instrs_bytes (eval (fun _ => None)) addr steps).

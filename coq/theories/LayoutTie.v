(* LayoutTie.v — runners used only by generated correspondence files. *)
From BA Require Export Base Bits Expr Subst Layout Data Program.
Open Scope Z_scope.

Definition run_align (c : Z * Z) : obs_z := obs_of_zresult (align_addr (fst c) (snd c)).

(* MemoryZone(bits, s, e) then current_address := v  ->  cursor *)
Definition run_zone_set (c : Z * Z * Z * Z) : obs_z :=
  let '(bits, s, e, v) := c in
  obs_of_zresult (do z <- mk_zone bits s e [122]; do z' <- set_cursor z v; Ok (z_cur z')).

(* manager(bits, origin, predefined) then create_zone(bits, s, e, name): number of zones afterwards *)
Definition run_create_zone (c : Z * Z * list (list Z * Z * Z) * (Z * Z * list Z)) : obs_z :=
  let '(bits, origin, pre, (s, e, n)) := c in
  obs_of_zresult (do zs <- init_zones bits origin pre; do zs' <- create_zone bits zs s e n; Ok (Z.of_nat (length zs'))).

Definition run_zerountil (c : Z * Z) : obs_z := Some (zerountil_size (fst c) (snd c)).

(* string directives: kind 0 = .byte, 1 = .cstr/.asciiz, 2 = embedded *)
Definition run_string (c : Z * Z * str) : obs_bytes :=
  let '(k, t, s) := c in
  obs_of_result (if k =? 0 then data_string_bytes KByte t s
                 else if k =? 1 then data_string_bytes KCstr t s
                 else embedded_string_bytes t s).

(* LabelScope API: operations on scopes; scope index: (file, Some region | None) *)
Inductive lop := LSet (sc : lscope) (n : str) (v : Z) | LGet (sc : lscope) (n : str).
(* observation: for each op, Some value / Some 0 for a successful set; the run stops at the first rejection *)
Fixpoint run_lops (kw regs : list str) (ls : labels) (ops : list lop) : list (option Z) :=
  match ops with
  | [] => []
  | LSet sc n v :: r => match set_label kw ls sc n v with
                        | Ok ls' => Some 0 :: run_lops kw regs ls' r
                        | _ => [None]
                        end
  | LGet sc n :: r => lookup_label regs ls sc n :: run_lops kw regs ls r
  end.
Definition run_labels (c : list str * list str * list lop) : list (option Z) :=
  let '(kw, regs, ops) := c in run_lops kw regs [] ops.
Definition optz_list_eqb (a b : list (option Z)) : bool :=
  list_eqb (fun x y => match x, y with Some p, Some q => p =? q | None, None => true | _, _ => false end) a b.

(* VocabProofs.v — the substituted vocabulary pattern classifies an identifier iff it is in the vocabulary. *)
From BA Require Import Base Expr Subst Match Vocab.
Local Open Scope Z_scope.

Lemma is_word_at_inside t i : forallb is_word t = true -> (i < length t)%nat -> is_word_at t i = true.
Proof.
  intros Hw Hi. unfold is_word_at, char_at.
  destruct (nth_error t i) as [c|] eqn:E; [|apply nth_error_None in E; lia].
  rewrite forallb_forall in Hw. apply Hw. eapply nth_error_In; eauto.
Qed.

Lemma is_word_at_outside t i : (length t <= i)%nat -> is_word_at t i = false.
Proof. intros H. unfold is_word_at, char_at. now rewrite (proj2 (nth_error_None t i) H). Qed.

(* inside an identifier (a run of word characters) the only word boundaries are its two ends *)
Lemma boundary_in_word t i :
  word_only t = true -> (i <= length t)%nat -> boundary t i = true -> i = 0%nat \/ i = length t.
Proof.
  intros Hw Hi Hb. unfold word_only in Hw. apply andb_prop in Hw as [Hne Hall].
  destruct i as [|j]; [now left|]. right.
  unfold boundary in Hb. rewrite (is_word_at_inside t j Hall) in Hb by lia.
  destruct (Nat.eq_dec (S j) (length t)) as [E|E]; [exact E|].
  rewrite (is_word_at_inside t (S j) Hall) in Hb by lia. discriminate.
Qed.

Lemma boundary_ends t : word_only t = true -> boundary t 0 = true /\ boundary t (length t) = true.
Proof.
  intros Hw. unfold word_only in Hw. apply andb_prop in Hw as [Hne Hall].
  apply negb_true_iff, Nat.eqb_neq in Hne. split; unfold boundary.
  - rewrite (is_word_at_inside t 0 Hall) by lia. reflexivity.
  - destruct (length t) as [|k] eqn:E; [lia|].
    rewrite (is_word_at_inside t k Hall) by lia. rewrite is_word_at_outside by lia. reflexivity.
Qed.

Lemma str_eqb_true_iff a b : str_eqb a b = true <-> a = b.
Proof.
  split; [|intros ->; apply list_eqb_refl, Z.eqb_refl].
  revert b; induction a as [|x a IH]; intros [|y b]; cbn; try discriminate; [reflexivity|].
  intros H. apply andb_prop in H as [H1 H2]. apply Z.eqb_eq in H1. subst. f_equal. now apply IH.
Qed.

(* for a vocabulary of plain names and any identifier t: the pattern finds a match in t iff t is one of the names
   (up to letter case) — of any length, however many names, also when names are prefixes of one another *)
Theorem classifies_exactly names t :
  forallb word_only names = true -> word_only t = true ->
  alt_search names t = in_vocab names t.
Proof.
  intros Hn Ht.
  destruct (in_vocab names t) eqn:Ev.
  - (* t is a name: match at position 0 *)
    unfold in_vocab in Ev. apply existsb_exists in Ev as [n [Hin Heq]].
    unfold alt_search. apply existsb_exists. exists 0%nat. split; [apply in_seq; lia|].
    apply existsb_exists. exists n. split; [exact Hin|].
    unfold str_eqb_ci in Heq. apply str_eqb_true_iff in Heq.
    assert (Hlen : length n = length t) by (apply (f_equal (@length Z)) in Heq; now rewrite !map_length in Heq).
    destruct (boundary_ends t Ht) as [B0 B1].
    unfold alt_at. rewrite B0. cbn [Nat.add]. rewrite Hlen, B1.
    unfold lit_at. cbn [skipn]. rewrite Hlen, firstn_all, Heq.
    rewrite (proj2 (str_eqb_true_iff _ _) eq_refl). cbn [andb Nat.add]. now rewrite Nat.leb_refl.
  - (* t is not a name: no match anywhere *)
    destruct (alt_search names t) eqn:Es; [exfalso | reflexivity].
    unfold alt_search in Es. apply existsb_exists in Es as [i [Hi Hex]].
    apply existsb_exists in Hex as [n [Hin Hat]].
    apply in_seq in Hi.
    unfold alt_at in Hat. apply andb_prop in Hat as [H12 H3]. apply andb_prop in H12 as [H1 H2].
    unfold lit_at in H2. apply andb_prop in H2 as [Hlit Hfit]. apply Nat.leb_le in Hfit.
    rewrite forallb_forall in Hn. specialize (Hn n Hin).
    assert (Hnl : (0 < length n)%nat).
    { unfold word_only in Hn. apply andb_prop in Hn as [Hne _]. apply negb_true_iff, Nat.eqb_neq in Hne. lia. }
    destruct (boundary_in_word t i Ht ltac:(lia) H1) as [Ei|Ei]; subst i; [|lia].
    destruct (boundary_in_word t (0 + length n) Ht ltac:(lia) H3) as [E|E]; [lia|].
    cbn [Nat.add] in E. cbn [skipn] in Hlit. rewrite E, firstn_all in Hlit.
    assert (Hv : in_vocab names t = true).
    { unfold in_vocab. apply existsb_exists. exists n. split; [exact Hin | exact Hlit]. }
    congruence.
Qed.

Example prefix_names :
  alt_search [[108;100]; [108;100;120]] [108;100;120] = true            (* ld, ldx |- ldx *)
  /\ alt_search [[108;100]; [108;100;120]] [108;100;120;121] = false    (* ldxy is not classified *)
  /\ alt_search [[108;100]; [108;100;120]] [76;68] = true.              (* LD *)
Proof. repeat split; vm_compute; reflexivity. Qed.

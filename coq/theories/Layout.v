(* Layout.v — implementation model of the address-level kernels:
     PageAlignLine.set_start_address                       (line_object/directive_line/page_align.py)
     MemoryZone constructor / current_address setter        (memory_zone/__init__.py)
     MemoryZoneManager.__init__ / create_zone               (memory_zone/manager.py)
     Assembler.assemble_bytecode: stable sort by address, adjacent overlap check, image emission (engine.py)
     FillUntilDataLine.byte_size                            (line_object/directive_line/fill_data.py)
   No proofs here. *)
From BA Require Export Base.
Open Scope Z_scope.

(* ---------- .align ---------- *)
Definition align_addr (address page : Z) : result Z :=
  if page <? 1 then Rejected
  else let r := address mod page in
       Ok (if r =? 0 then address else address + (page - r)).

(* ---------- memory zones ---------- *)
Record zone := { z_name : list Z; z_start : Z; z_end : Z; z_cur : Z }.

(* MemoryZone.__init__ *)
Definition mk_zone (address_bits : Z) (start end_ : Z) (name : list Z) : result zone :=
  if start <? 0 then Rejected                              (* below the address space (D46) *)
  else if end_ >? 2 ^ address_bits - 1 then Rejected
  else if start >? end_ then Rejected
  else Ok {| z_name := name; z_start := start; z_end := end_; z_cur := start |}.

(* current_address setter: start <= v <= end + 1 *)
Definition set_cursor (z : zone) (v : Z) : result zone :=
  if v <? z_start z then Rejected
  else if v >? z_end z + 1 then Rejected
  else Ok {| z_name := z_name z; z_start := z_start z; z_end := z_end z; z_cur := v |}.

Definition name_eqb (a b : list Z) : bool := list_eqb Z.eqb a b.

Fixpoint find_zone (zs : list zone) (n : list Z) : option zone :=
  match zs with
  | [] => None
  | z :: r => if name_eqb (z_name z) n then Some z else find_zone r n
  end.

Fixpoint update_zone (zs : list zone) (z' : zone) : list zone :=
  match zs with
  | [] => []
  | z :: r => if name_eqb (z_name z) (z_name z') then z' :: r else z :: update_zone r z'
  end.

Definition GLOBAL : list Z := [71; 76; 79; 66; 65; 76].

(* MemoryZoneManager.__init__: predefined zones (a later duplicate name replaces an earlier one, as in a dict
   comprehension), default GLOBAL, containment of every predefined zone in GLOBAL (fix D18), default origin *)
Fixpoint dict_insert (zs : list zone) (z : zone) : list zone :=
  match zs with
  | [] => [z]
  | x :: r => if name_eqb (z_name x) (z_name z) then z :: r else x :: dict_insert r z
  end.

Fixpoint build_zones (address_bits : Z) (pre : list (list Z * Z * Z)) (acc : list zone) : result (list zone) :=
  match pre with
  | [] => Ok acc
  | (n, s, e) :: r => do z <- mk_zone address_bits s e n; build_zones address_bits r (dict_insert acc z)
  end.

Definition init_zones (address_bits origin : Z) (pre : list (list Z * Z * Z)) : result (list zone) :=
  do zs0 <- build_zones address_bits pre [];
  do zs <- match find_zone zs0 GLOBAL with
           | Some _ => Ok zs0
           | None => do g <- mk_zone address_bits 0 (2 ^ address_bits - 1) GLOBAL; Ok (zs0 ++ [g])
           end;
  match find_zone zs GLOBAL with
  | None => Rejected
  | Some g =>
      if forallb (fun z => (z_start g <=? z_start z) && (z_end z <=? z_end g)) zs
      then do g' <- set_cursor g origin; Ok (update_zone zs g')
      else Rejected
  end.

(* MemoryZoneManager.create_zone (#create_memzone) *)
Definition create_zone (address_bits : Z) (zs : list zone) (start end_ : Z) (name : list Z) : result (list zone) :=
  match find_zone zs name with
  | Some _ => Rejected
  | None =>
      match find_zone zs GLOBAL with
      | None => Rejected
      | Some g =>
          if start <? z_start g then Rejected
          else if end_ >? z_end g then Rejected
          else do z <- mk_zone address_bits start end_ name; Ok (zs ++ [z])
      end
  end.

(* ---------- .zerountil ---------- *)
Definition zerountil_size (target address : Z) : Z :=
  if target >=? address then target - address + 1 else 0.

(* ---------- sort, overlap check, image ---------- *)

(* what pass 2 knows about a line: address, whether it is a LineWithBytes, its bytes, muted flag *)
Record pline := { pl_addr : Z; pl_isbytes : bool; pl_bytes : list Z; pl_size : Z; pl_muted : bool }.

(* list.sort(key=address): stable insertion sort *)
Fixpoint insert_by_addr (x : pline) (l : list pline) : list pline :=
  match l with
  | [] => [x]
  | y :: r => if pl_addr y <? pl_addr x then y :: insert_by_addr x r else x :: l
  end.
(* stable: elements are inserted from the last to the first, each in front of the equal keys already placed *)
Definition sort_by_addr (l : list pline) : list pline := fold_right insert_by_addr [] l.

(* overlap check over LineWithBytes in sorted order; last_line is updated on every byte line (muted or not) *)
Fixpoint overlap_check (last : option (Z * Z)) (l : list pline) : bool :=    (* true = no overlap reported *)
  match l with
  | [] => true
  | p :: r =>
      if pl_isbytes p then
        match last with
        | Some (la, ls) => if la + ls >? pl_addr p then false else overlap_check (Some (pl_addr p, pl_size p)) r
        | None => overlap_check (Some (pl_addr p, pl_size p)) r
        end
      else overlap_check last r
  end.

(* memory_map: address -> byte of unmuted byte lines, later lines (in sorted order) overwrite earlier ones *)
Definition mmap := list (Z * Z).       (* newest binding first *)
Fixpoint put_bytes (m : mmap) (a : Z) (bs : list Z) : mmap :=
  match bs with
  | [] => m
  | b :: r => put_bytes ((a, b) :: m) (a + 1) r
  end.
Definition build_map (l : list pline) : mmap :=
  fold_left (fun m p => if pl_isbytes p && negb (pl_muted p) then put_bytes m (pl_addr p) (pl_bytes p) else m) l [].
Fixpoint map_get (m : mmap) (a : Z) : option Z :=
  match m with
  | [] => None
  | (k, v) :: r => if k =? a then Some v else map_get r a
  end.
Definition map_max (m : mmap) (default : Z) : Z :=
  match m with
  | [] => default
  | (k, _) :: r => fold_left (fun acc kv => Z.max acc (fst kv)) r k
  end.

(* for addr in range(start, end+1): bytecode.append(memory_map.get(addr, fill)) ; n = number of addresses left *)
Fixpoint image_from (m : mmap) (fill : Z) (a : Z) (n : nat) : list Z :=
  match n with
  | O => []
  | S k => (match map_get m a with Some b => b | None => fill end) :: image_from m fill (a + 1) k
  end.

Definition image (l : list pline) (start : Z) (end_ : option Z) (fill : Z) : list Z :=
  let m := build_map l in
  let e := match end_ with Some e => e | None => map_max m (start - 1) end in
  image_from m fill start (Z.to_nat (e + 1 - start)).

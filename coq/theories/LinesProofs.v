(* LinesProofs.v — facts about the line splitter model (Lines.v). *)
From BA Require Import Base Expr Subst Lines.
Open Scope Z_scope.

(* ---------- a string that closes within a text closes the same way whatever follows the text ---------- *)
Lemma close_quote_app_aux : forall k q s t n, (length s <= k)%nat -> close_quote q s = Some n -> close_quote q (s ++ t) = Some n.
Proof.
  induction k as [|k IH]; intros q s t n Hl H.
  - destruct s; [discriminate|cbn in Hl; lia].
  - destruct s as [|c r]; [discriminate|]. cbn [close_quote app] in *. cbn [length] in Hl.
    destruct (c =? q); [exact H|].
    destruct (c =? c_bs).
    + destruct r as [|d r']; [discriminate|]. cbn [app]. cbn [length] in Hl.
      destruct (close_quote q r') as [m|] eqn:E; [|discriminate].
      rewrite (IH q r' t m ltac:(lia) E). exact H.
    + destruct (close_quote q r) as [m|] eqn:E; [|discriminate].
      rewrite (IH q r t m ltac:(lia) E). exact H.
Qed.
Lemma close_quote_app : forall q s t n, close_quote q s = Some n -> close_quote q (s ++ t) = Some n.
Proof. intros q s t n. apply (close_quote_app_aux (length s)). lia. Qed.

(* the closing quote lies within the text *)
Lemma close_quote_le_aux : forall k q s n, (length s <= k)%nat -> close_quote q s = Some n -> (n <= length s)%nat.
Proof.
  induction k as [|k IH]; intros q s n Hl H.
  - destruct s; [discriminate|cbn in Hl; lia].
  - destruct s as [|c r]; [discriminate|]. cbn [close_quote] in H. cbn [length] in *.
    destruct (c =? q); [injection H as <-; lia|].
    destruct (c =? c_bs).
    + destruct r as [|d r']; [discriminate|]. cbn [length] in *.
      destruct (close_quote q r') as [m|] eqn:E; [|discriminate]. injection H as <-.
      pose proof (IH q r' m ltac:(lia) E). lia.
    + destruct (close_quote q r) as [m|] eqn:E; [|discriminate]. injection H as <-.
      pose proof (IH q r m ltac:(lia) E). lia.
Qed.
Lemma close_quote_le : forall q s n, close_quote q s = Some n -> (n <= length s)%nat.
Proof. intros q s n. apply (close_quote_le_aux (length s)). lia. Qed.

(* ---------- a balanced statement text followed by "; comment" ---------- *)
Lemma split_balanced_comment : forall s skip acc c,
  balanced_at s skip = true -> split_at (s ++ c_semi :: c) skip acc = Some (rev acc ++ s, Some c).
Proof.
  induction s as [|x r IH]; intros skip acc c H.
  - cbn [balanced_at] in H. apply PeanoNat.Nat.eqb_eq in H. subst skip. cbn. rewrite app_nil_r. reflexivity.
  - cbn [balanced_at] in H. cbn [app split_at]. destruct skip as [|k].
    + destruct (x =? c_semi); [discriminate|].
      destruct (is_quote x).
      * destruct (close_quote x r) as [n|] eqn:E; [|discriminate].
        rewrite (close_quote_app _ _ (c_semi :: c) _ E).
        rewrite (IH n (x :: acc) c H). cbn [rev]. rewrite <- app_assoc. reflexivity.
      * rewrite (IH 0%nat (x :: acc) c H). cbn [rev]. rewrite <- app_assoc. reflexivity.
    + rewrite (IH k (x :: acc) c H). cbn [rev]. rewrite <- app_assoc. reflexivity.
Qed.

Lemma split_balanced_alone : forall s skip acc,
  balanced_at s skip = true -> split_at s skip acc = Some (rev acc ++ s, None).
Proof.
  induction s as [|x r IH]; intros skip acc H.
  - cbn. rewrite app_nil_r. reflexivity.
  - cbn [balanced_at] in H. cbn [split_at]. destruct skip as [|k].
    + destruct (x =? c_semi); [discriminate|].
      destruct (is_quote x).
      * destruct (close_quote x r) as [n|] eqn:E; [|discriminate].
        rewrite (IH n (x :: acc) H). cbn [rev]. rewrite <- app_assoc. reflexivity.
      * rewrite (IH 0%nat (x :: acc) H). cbn [rev]. rewrite <- app_assoc. reflexivity.
    + rewrite (IH k (x :: acc) H). cbn [rev]. rewrite <- app_assoc. reflexivity.
Qed.

Theorem comment_is_split_off : forall s c,
  balanced s = true -> split_line (s ++ c_semi :: c) = Some (s, Some c).
Proof. intros s c H. unfold split_line. rewrite (split_balanced_comment s 0%nat [] c H). reflexivity. Qed.

Theorem no_comment : forall s, balanced s = true -> split_line s = Some (s, None).
Proof. intros s H. unfold split_line. rewrite (split_balanced_alone s 0%nat [] H). reflexivity. Qed.

(* text without quotes, semicolons and vertical tabs is balanced *)
Definition plain_char (c : Z) : bool := negb (c =? c_semi) && negb (is_quote c).
Lemma plain_balanced : forall s, forallb plain_char s = true -> balanced s = true.
Proof.
  unfold balanced. induction s as [|x r IH]; intros H; [reflexivity|].
  cbn [forallb] in H. apply andb_true_iff in H as [Hx Hr]. unfold plain_char in Hx.
  apply andb_true_iff in Hx as [Hs Hq].
  cbn [balanced_at]. apply negb_true_iff in Hs, Hq. rewrite Hs, Hq. exact (IH Hr).
Qed.

(* a complete string -- whatever it contains, semicolons included -- between two balanced texts is statement text *)
Lemma balanced_at_skip : forall (s t : str) k, length s = k -> balanced_at (s ++ t) k = balanced_at t 0%nat.
Proof.
  induction s as [|x r IH]; intros t k H; cbn in H; subst k; [reflexivity|].
  cbn [app balanced_at length]. apply IH. reflexivity.
Qed.

Lemma balanced_at_app : forall a k b, balanced_at a k = true -> balanced_at b 0%nat = true -> balanced_at (a ++ b) k = true.
Proof.
  induction a as [|x r IH]; intros k b Ha Hb.
  - cbn [balanced_at] in Ha. apply PeanoNat.Nat.eqb_eq in Ha. subst k. exact Hb.
  - cbn [app balanced_at] in *. destruct k as [|k].
    + destruct (x =? c_semi); [discriminate|].
      destruct (is_quote x).
      * destruct (close_quote x r) as [n|] eqn:E; [|discriminate].
        rewrite (close_quote_app _ _ b _ E). exact (IH n b Ha Hb).
      * exact (IH 0%nat b Ha Hb).
    + exact (IH k b Ha Hb).
Qed.
Lemma balanced_app : forall a b, balanced a = true -> balanced b = true -> balanced (a ++ b) = true.
Proof. unfold balanced. intros a b. apply balanced_at_app. Qed.

Theorem quoted_text_is_statement_text : forall q inner n,
  is_quote q = true -> close_quote q inner = Some n -> length inner = n ->
  balanced (q :: inner) = true.
Proof.
  intros q inner n Hq Hc Hn. unfold balanced. cbn [balanced_at].
  assert (Hs : (q =? c_semi) = false).
  { unfold is_quote in Hq. apply orb_true_iff in Hq as [H|H]; apply Z.eqb_eq in H; subst q; reflexivity. }
  rewrite Hs, Hq, Hc.
  rewrite <- (app_nil_r inner). rewrite (balanced_at_skip inner [] n Hn). reflexivity.
Qed.

(* ---------- surrounding whitespace ---------- *)
Lemma lstrip_spaces : forall ws s, forallb is_space ws = true -> lstrip (ws ++ s) = lstrip s.
Proof.
  induction ws as [|w r IH]; intros s H; [reflexivity|].
  cbn [forallb] in H. apply andb_true_iff in H as [Hw Hr]. cbn [app lstrip]. rewrite Hw. exact (IH s Hr).
Qed.

Lemma forallb_rev {A} (f : A -> bool) l : forallb f (rev l) = forallb f l.
Proof.
  induction l as [|x r IH]; [reflexivity|]. cbn [rev forallb]. rewrite forallb_app, IH. cbn. rewrite andb_true_r. apply andb_comm.
Qed.

Theorem strip_surrounding_whitespace : forall ws1 s ws2,
  forallb is_space ws1 = true -> forallb is_space ws2 = true -> strip (ws1 ++ s ++ ws2) = strip s.
Proof.
  intros ws1 s ws2 H1 H2. unfold strip. rewrite (lstrip_spaces ws1 (s ++ ws2) H1).
  destruct (lstrip s) as [|x r] eqn:E.
  - (* s is all whitespace *)
    assert (Hall : forall t, lstrip t = [] -> forallb is_space t = true).
    { induction t as [|y u IHu]; [reflexivity|]. cbn [lstrip forallb]. destruct (is_space y); [exact IHu|discriminate]. }
    pose proof (Hall s E) as Hs.
    assert (Hsw : forallb is_space (s ++ ws2) = true) by (rewrite forallb_app, Hs, H2; reflexivity).
    assert (Hnil : forall t, forallb is_space t = true -> lstrip t = []).
    { induction t as [|y u IHu]; [reflexivity|]. cbn [lstrip forallb]. intros H. apply andb_true_iff in H as [Hy Hu]. rewrite Hy. exact (IHu Hu). }
    rewrite (Hnil _ Hsw). reflexivity.
  - (* lstrip (s ++ ws2) = lstrip s ++ ws2 when lstrip s is not empty *)
    assert (Happ : forall t u, lstrip t <> [] -> lstrip (t ++ u) = lstrip t ++ u).
    { induction t as [|y v IHv]; intros u Hne; [contradiction Hne; reflexivity|].
      cbn [app lstrip] in *. destruct (is_space y); [exact (IHv u Hne)|reflexivity]. }
    rewrite (Happ s ws2) by (rewrite E; discriminate). rewrite E.
    rewrite rev_app_distr. rewrite (lstrip_spaces (rev ws2) (rev (x :: r))) by (rewrite forallb_rev; exact H2).
    reflexivity.
Qed.

Theorem line_parts_indentation : forall ws1 raw ws2,
  forallb is_space ws1 = true -> forallb is_space ws2 = true -> line_parts (ws1 ++ raw ++ ws2) = line_parts raw.
Proof. intros ws1 raw ws2 H1 H2. unfold line_parts. rewrite (strip_surrounding_whitespace ws1 raw ws2 H1 H2). reflexivity. Qed.

(* a statement text, indented at will, followed by any comment: the statement part is the text, the comment is the comment *)
Lemma strip_idem_front : forall s, lstrip (lstrip s) = lstrip s.
Proof. induction s as [|x r IH]; [reflexivity|]. cbn [lstrip]. destruct (is_space x) eqn:E; [exact IH|]. cbn [lstrip]. rewrite E. reflexivity. Qed.

Theorem comment_carries_no_meaning : forall st c,
  balanced st = true -> strip (st ++ c_semi :: c) = st ++ c_semi :: c ->
  line_parts (st ++ c_semi :: c) = (strip st, strip c).
Proof.
  intros st c Hb Hs. unfold line_parts. rewrite Hs. rewrite (comment_is_split_off st c Hb). reflexivity.
Qed.

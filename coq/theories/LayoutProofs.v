(* LayoutProofs.v — theorems about the address-level kernels of Layout.v *)
From BA Require Import Base Layout.
From Coq Require Import ZifyBool Sorting.Permutation Sorting.Sorted.
Ltac Zify.zify_post_hook ::= Z.to_euclidean_division_equations.
Local Open Scope Z_scope.

(* ------------------------------------------------------------------------------------------ *)
(* .align : the smallest multiple of the page size that is not below the current address        *)

Theorem align_smallest_multiple a p r :
  align_addr a p = Ok r ->
  1 <= p /\ a <= r /\ r mod p = 0 /\ (forall m, a <= m -> m mod p = 0 -> r <= m).
Proof.
  unfold align_addr. destruct (p <? 1) eqn:Hp; [discriminate|]. intros H. inversion H; subst; clear H.
  assert (Hp' : 1 <= p) by lia.
  destruct (a mod p =? 0) eqn:Hr.
  - repeat split; try lia.
  - repeat split; try lia.
    + (* multiple *)
      pose proof (Z.div_mod a p ltac:(lia)) as Hdm.
      replace (a + (p - a mod p)) with (p * (a / p + 1)) by lia.
      rewrite Z.mul_comm. apply Z.mod_mul. lia.
    + (* smallest *)
      intros m Ham Hm.
      pose proof (Z.div_mod a p ltac:(lia)) as Hdm.
      pose proof (Z.div_mod m p ltac:(lia)) as Hdm'.
      rewrite Hm in Hdm'.
      pose proof (Z.mod_pos_bound a p ltac:(lia)) as Hb.
      assert (Hq : a / p < m / p).
      { destruct (Z_lt_ge_dec (a / p) (m / p)) as [Hlt|Hge]; [exact Hlt|]. exfalso.
        assert (p * (m / p) <= p * (a / p)) by (apply Z.mul_le_mono_nonneg_l; lia). lia. }
      assert (p * (a / p + 1) <= p * (m / p)) by (apply Z.mul_le_mono_nonneg_l; lia). lia.
Qed.

Theorem align_rejects_bad_page a p : p < 1 -> align_addr a p = Rejected.
Proof. intros H. unfold align_addr. destruct (p <? 1) eqn:E; [reflexivity | lia]. Qed.

Theorem align_accepts a p : 1 <= p -> exists r, align_addr a p = Ok r.
Proof. intros H. unfold align_addr. destruct (p <? 1) eqn:E; [lia|]. eexists; reflexivity. Qed.

Example align_already_aligned : align_addr 16 16 = Ok 16 /\ align_addr 17 16 = Ok 32 /\ align_addr 3 6 = Ok 6.
Proof. repeat split. Qed.

(* ------------------------------------------------------------------------------------------ *)
(* memory zones                                                                                 *)

Definition zone_wf (z : zone) : Prop := z_start z <= z_cur z <= z_end z + 1.

Theorem mk_zone_spec bits s e n z :
  mk_zone bits s e n = Ok z ->
  s <= e /\ e <= 2 ^ bits - 1 /\ z_start z = s /\ z_end z = e /\ z_cur z = s /\ z_name z = n.
Proof.
  unfold mk_zone. destruct (s <? 0) eqn:E0; [discriminate|]. destruct (e >? 2 ^ bits - 1) eqn:E1; [discriminate|].
  destruct (s >? e) eqn:E2; [discriminate|]. intros H; inversion H; subst; cbn. repeat split; lia.
Qed.

Theorem mk_zone_inside_space bits s e n z : mk_zone bits s e n = Ok z -> 0 <= z_start z /\ z_end z <= 2 ^ bits - 1.
Proof.
  unfold mk_zone. destruct (s <? 0) eqn:E0; [discriminate|]. destruct (e >? 2 ^ bits - 1) eqn:E1; [discriminate|].
  destruct (s >? e) eqn:E2; [discriminate|]. intros H; inversion H; subst; cbn. lia.
Qed.

Theorem mk_zone_rejects bits s e n : (s > e \/ e > 2 ^ bits - 1) -> mk_zone bits s e n = Rejected.
Proof.
  intros H. unfold mk_zone. destruct (s <? 0) eqn:E0; [reflexivity|]. destruct (e >? 2 ^ bits - 1) eqn:E1; [reflexivity|].
  destruct (s >? e) eqn:E2; [reflexivity|]. lia.
Qed.

(* the cursor of a zone never leaves [start, end+1]: the assignment is rejected instead *)
Theorem set_cursor_spec z v z' :
  set_cursor z v = Ok z' ->
  z_start z <= v <= z_end z + 1 /\ z_cur z' = v /\ z_start z' = z_start z /\ z_end z' = z_end z /\ z_name z' = z_name z.
Proof.
  unfold set_cursor. destruct (v <? z_start z) eqn:E1; [discriminate|].
  destruct (v >? z_end z + 1) eqn:E2; [discriminate|]. intros H; inversion H; subst; cbn. repeat split; lia.
Qed.

Theorem set_cursor_rejects z v : (v < z_start z \/ v > z_end z + 1) -> set_cursor z v = Rejected.
Proof.
  intros H. unfold set_cursor. destruct (v <? z_start z) eqn:E1; [reflexivity|].
  destruct (v >? z_end z + 1) eqn:E2; [reflexivity|]. lia.
Qed.

Corollary set_cursor_wf z v z' : set_cursor z v = Ok z' -> zone_wf z'.
Proof. intros H. apply set_cursor_spec in H as [H1 [H2 [H3 [H4 _]]]]. unfold zone_wf. lia. Qed.

(* a line of [size] >= 1 bytes placed at the cursor of a well-formed zone lies inside the zone, or is rejected *)
Theorem bytes_inside_zone z size z' :
  zone_wf z -> 1 <= size -> set_cursor z (z_cur z + size) = Ok z' ->
  forall a, z_cur z <= a < z_cur z + size -> z_start z <= a <= z_end z.
Proof.
  intros Hwf Hs H a Ha. apply set_cursor_spec in H as [H1 _]. unfold zone_wf in Hwf. lia.
Qed.

(* create_zone: duplicate names, zones outside GLOBAL, inverted or too-wide zones are rejected *)
Theorem create_zone_spec bits zs s e n zs' g :
  find_zone zs GLOBAL = Some g ->
  create_zone bits zs s e n = Ok zs' ->
  find_zone zs n = None /\ z_start g <= s /\ e <= z_end g /\ s <= e /\ e <= 2 ^ bits - 1
  /\ exists z, zs' = zs ++ [z] /\ z_name z = n /\ z_start z = s /\ z_end z = e /\ z_cur z = s.
Proof.
  intros Hg. unfold create_zone. destruct (find_zone zs n) eqn:Hn; [discriminate|]. rewrite Hg.
  destruct (s <? z_start g) eqn:E1; [discriminate|].
  destruct (e >? z_end g) eqn:E2; [discriminate|].
  destruct (mk_zone bits s e n) as [z| |] eqn:Hz; cbn [bind]; try discriminate.
  intros H; inversion H; subst. apply mk_zone_spec in Hz as [A [B [C [D [E F]]]]].
  repeat split; try lia. exists z. repeat split; assumption.
Qed.

Theorem create_zone_duplicate bits zs s e n z : find_zone zs n = Some z -> create_zone bits zs s e n = Rejected.
Proof. intros H. unfold create_zone. now rewrite H. Qed.

Theorem create_zone_outside_global bits zs s e n g :
  find_zone zs n = None -> find_zone zs GLOBAL = Some g -> (s < z_start g \/ e > z_end g) ->
  create_zone bits zs s e n = Rejected.
Proof.
  intros Hn Hg H. unfold create_zone. rewrite Hn, Hg.
  destruct (s <? z_start g) eqn:E1; [reflexivity|]. destruct (e >? z_end g) eqn:E2; [reflexivity|]. lia.
Qed.

(* ------------------------------------------------------------------------------------------ *)
(* .zerountil                                                                                   *)

Theorem zerountil_size_spec target addr : zerountil_size target addr = Z.max 0 (target - addr + 1).
Proof. unfold zerountil_size. destruct (target >=? addr) eqn:E; lia. Qed.

(* ------------------------------------------------------------------------------------------ *)
(* stable sort by address                                                                       *)

Lemma insert_perm x l : Permutation (insert_by_addr x l) (x :: l).
Proof.
  induction l as [|y r IH]; cbn [insert_by_addr]; [reflexivity|].
  destruct (pl_addr y <? pl_addr x); [|reflexivity].
  rewrite IH. apply perm_swap.
Qed.

Lemma sort_perm l : Permutation (sort_by_addr l) l.
Proof.
  induction l as [|x r IH]; cbn [sort_by_addr fold_right]; [reflexivity|].
  fold (sort_by_addr r). rewrite insert_perm. now constructor.
Qed.

Definition addr_le (p q : pline) : Prop := pl_addr p <= pl_addr q.

Lemma insert_sorted x l : StronglySorted addr_le l -> StronglySorted addr_le (insert_by_addr x l).
Proof.
  induction 1 as [|y r Hs IH Hall]; cbn [insert_by_addr]; [repeat constructor|].
  destruct (pl_addr y <? pl_addr x) eqn:E.
  - constructor; [exact IH|].
    rewrite Forall_forall. intros z Hz.
    apply (Permutation_in _ (insert_perm x r)) in Hz. destruct Hz as [<-|Hz].
    + unfold addr_le. lia.
    + rewrite Forall_forall in Hall. now apply Hall.
  - constructor; [constructor; assumption|].
    constructor; [unfold addr_le; lia|].
    rewrite Forall_forall in *. intros z Hz. specialize (Hall z Hz). unfold addr_le in *. lia.
Qed.

Lemma sort_sorted l : StronglySorted addr_le (sort_by_addr l).
Proof.
  induction l as [|x r IH]; cbn [sort_by_addr fold_right]; [constructor|]. now apply insert_sorted.
Qed.

(* ------------------------------------------------------------------------------------------ *)
(* overlap check                                                                                *)

Definition byte_lines (l : list pline) : list pline := filter pl_isbytes l.

Lemma overlap_check_filter last l : overlap_check last l = overlap_check last (byte_lines l).
Proof.
  revert last; induction l as [|p r IH]; intros last; cbn [overlap_check byte_lines filter]; [reflexivity|].
  destruct (pl_isbytes p) eqn:E.
  - cbn [overlap_check]. rewrite E.
    destruct last as [[la ls]|]; [destruct (la + ls >? pl_addr p); [reflexivity|]|]; apply IH.
  - apply IH.
Qed.

(* on byte lines only: the check passes iff every line ends at or before the start of its successor *)
Fixpoint chain_ok (last : option (Z * Z)) (l : list pline) : Prop :=
  match l with
  | [] => True
  | p :: r => match last with Some (la, ls) => la + ls <= pl_addr p | None => True end
              /\ chain_ok (Some (pl_addr p, pl_size p)) r
  end.

Lemma overlap_check_chain l : forall last,
  Forall (fun p => pl_isbytes p = true) l ->
  (overlap_check last l = true <-> chain_ok last l).
Proof.
  induction l as [|p r IH]; intros last Hall; cbn [overlap_check chain_ok]; [tauto|].
  inversion Hall as [|? ? Hp Hr]; subst. rewrite Hp.
  destruct last as [[la ls]|].
  - destruct (la + ls >? pl_addr p) eqn:E.
    + split; [discriminate | intros [H _]; lia].
    + rewrite IH by exact Hr. split; [intros H; split; [lia | exact H] | intros [_ H]; exact H].
  - rewrite IH by exact Hr. tauto.
Qed.

Lemma byte_lines_all l : Forall (fun p => pl_isbytes p = true) (byte_lines l).
Proof. unfold byte_lines. rewrite Forall_forall. intros p Hp. apply filter_In in Hp. tauto. Qed.

Lemma byte_lines_sorted l : StronglySorted addr_le l -> StronglySorted addr_le (byte_lines l).
Proof.
  induction 1 as [|p r Hs IH Hall]; cbn [byte_lines filter]; [constructor|].
  destruct (pl_isbytes p); [|exact IH]. constructor; [exact IH|].
  rewrite Forall_forall in *. intros q Hq. apply filter_In in Hq. apply Hall. tauto.
Qed.

(* in a sorted chain every earlier line ends at or before the start of every later line *)
Lemma chain_ok_all l : forall la ls,
  StronglySorted addr_le l -> chain_ok (Some (la, ls)) l ->
  Forall (fun q => la + ls <= pl_addr q) l
  /\ (forall l1 p l2, l = l1 ++ p :: l2 -> Forall (fun q => pl_addr p + pl_size p <= pl_addr q) l2).
Proof.
  induction l as [|x r IH]; intros la ls Hs Hc.
  - split; [constructor|]. intros l1 p l2 H. destruct l1; discriminate.
  - cbn [chain_ok] in Hc. destruct Hc as [H1 H2]. inversion Hs as [|? ? Hs' Hall]; subst.
    destruct (IH _ _ Hs' H2) as [I1 I2].
    split.
    + constructor; [exact H1|]. rewrite Forall_forall in *. intros q Hq.
      specialize (Hall q Hq). unfold addr_le in Hall. lia.
    + intros l1 p l2 Heq. destruct l1 as [|y l1']; cbn [app] in Heq; inversion Heq; subst.
      * exact I1.
      * eapply I2. reflexivity.
Qed.

Definition covers (p : pline) (a : Z) : Prop := pl_addr p <= a < pl_addr p + pl_size p.

(* (1) two byte-producing lines with a common address are never accepted *)
Theorem overlap_rejected l l1 p l2 q l3 a :
  sort_by_addr l = l1 ++ p :: l2 ++ q :: l3 ->
  pl_isbytes p = true -> pl_isbytes q = true -> covers p a -> covers q a ->
  overlap_check None (sort_by_addr l) = false.
Proof.
  intros Heq Hp Hq Hca Hcb.
  destruct (overlap_check None (sort_by_addr l)) eqn:E; [exfalso | reflexivity].
  rewrite overlap_check_filter in E.
  pose proof (sort_sorted l) as Hs. apply byte_lines_sorted in Hs.
  rewrite overlap_check_chain in E by apply byte_lines_all.
  (* locate p and q among the byte lines *)
  rewrite Heq in *. unfold byte_lines in *.
  rewrite filter_app in *. cbn [filter] in *. rewrite Hp in *. rewrite filter_app in *. cbn [filter] in *. rewrite Hq in *.
  set (b1 := filter pl_isbytes l1) in *. set (b2 := filter pl_isbytes l2) in *. set (b3 := filter pl_isbytes l3) in *.
  (* chain_ok None (b1 ++ p :: b2 ++ q :: b3) *)
  assert (Hgen : forall last L, StronglySorted addr_le L -> chain_ok last L ->
            forall L1 x L2, L = L1 ++ x :: L2 -> Forall (fun y => pl_addr x + pl_size x <= pl_addr y) L2).
  { intros last L HsL HcL L1 x L2 HL. destruct L as [|h t]; [destruct L1; discriminate|].
    cbn [chain_ok] in HcL. destruct HcL as [_ Hc']. inversion HsL as [|? ? Hst Hallt]; subst.
    destruct (chain_ok_all t (pl_addr h) (pl_size h) Hst Hc') as [I1 I2].
    destruct L1 as [|y L1']; cbn [app] in HL; inversion HL; subst; [exact I1 | eapply I2; reflexivity]. }
  specialize (Hgen None _ Hs E b1 p (b2 ++ q :: b3) eq_refl).
  rewrite Forall_forall in Hgen. specialize (Hgen q ltac:(apply in_or_app; right; left; reflexivity)).
  unfold covers in *. lia.
Qed.

(* (2) lines whose (non-empty) ranges are pairwise disjoint are never rejected for overlap, in any source order *)
Definition disjoint (p q : pline) : Prop := forall a, ~ (covers p a /\ covers q a).

Lemma chain_from_disjoint l : forall last,
  StronglySorted addr_le l ->
  Forall (fun p => 1 <= pl_size p) l ->
  ForallOrdPairs disjoint l ->
  match last with
  | Some (la, ls) => Forall (fun q => la + ls <= pl_addr q) l
  | None => True
  end ->
  chain_ok last l.
Proof.
  induction l as [|x r IH]; intros last Hs Hsz Hd Hl; cbn [chain_ok]; [exact I|].
  inversion Hs as [|? ? Hs' Hall]; subst. inversion Hsz as [|? ? Hx Hr]; subst.
  inversion Hd as [|? ? Hdx Hdr]; subst.
  split.
  - destruct last as [[la ls]|]; [|exact I]. inversion Hl; subst. assumption.
  - apply IH; try assumption.
    rewrite Forall_forall in *. intros q Hq.
    specialize (Hall q Hq). specialize (Hdx q Hq). specialize (Hr q Hq). unfold addr_le, disjoint, covers in *.
    destruct (Z_le_gt_dec (pl_addr x + pl_size x) (pl_addr q)) as [Hle|Hgt]; [exact Hle|].
    exfalso. apply (Hdx (pl_addr q)). lia.
Qed.

Lemma ForallOrdPairs_perm_sym {A} (R : A -> A -> Prop) (Hsym : forall a b, R a b -> R b a) l l' :
  Permutation l l' -> ForallOrdPairs R l -> ForallOrdPairs R l'.
Proof.
  induction 1 as [|x l l' Hp IH|x y l|l l' l'' H1 IH1 H2 IH2]; intros H.
  - exact H.
  - inversion H as [|? ? Hx Hr]; subst. constructor; [|now apply IH].
    rewrite Forall_forall in *. intros z Hz. apply Hx. eapply Permutation_in; [symmetry; exact Hp | exact Hz].
  - inversion H as [|? ? Hy Hr]; subst. inversion Hr as [|? ? Hx Hr']; subst.
    inversion Hy as [|? ? Hyx Hyl]; subst.
    constructor; [constructor; [now apply Hsym | exact Hx]|]. constructor; assumption.
  - auto.
Qed.

Lemma ForallOrdPairs_filter {A} (R : A -> A -> Prop) f l : ForallOrdPairs R l -> ForallOrdPairs R (filter f l).
Proof.
  induction 1 as [|x l Hx Hr IH]; cbn [filter]; [constructor|].
  destruct (f x); [|exact IH]. constructor; [|exact IH].
  rewrite Forall_forall in *. intros y Hy. apply filter_In in Hy. apply Hx. tauto.
Qed.

Theorem disjoint_accepted l :
  Forall (fun p => pl_isbytes p = true -> 1 <= pl_size p) l ->
  ForallOrdPairs (fun p q => pl_isbytes p = true -> pl_isbytes q = true -> disjoint p q) l ->
  overlap_check None (sort_by_addr l) = true.
Proof.
  intros Hsz Hd.
  rewrite overlap_check_filter, overlap_check_chain by apply byte_lines_all.
  apply chain_from_disjoint; [apply byte_lines_sorted, sort_sorted | | | exact I].
  - rewrite Forall_forall in *. intros p Hp. unfold byte_lines in Hp. apply filter_In in Hp as [Hin Hb].
    apply Hsz; [|exact Hb]. eapply Permutation_in; [apply sort_perm | exact Hin].
  - assert (Hd' : ForallOrdPairs (fun p q => pl_isbytes p = true -> pl_isbytes q = true -> disjoint p q) (sort_by_addr l)).
    { eapply ForallOrdPairs_perm_sym; [| symmetry; apply sort_perm | exact Hd].
      intros a b H Hb Ha x [H1 H2]. apply (H Ha Hb x). tauto. }
    apply (ForallOrdPairs_filter _ pl_isbytes) in Hd'.
    fold (byte_lines (sort_by_addr l)) in Hd'.
    pose proof (byte_lines_all (sort_by_addr l)) as Hall.
    revert Hd' Hall. generalize (byte_lines (sort_by_addr l)). intros L.
    induction 1 as [|x L' Hx Hr IH]; intros Hall; [constructor|].
    inversion Hall as [|? ? Hbx HbL]; subst. constructor; [|now apply IH].
    rewrite Forall_forall in *. intros y Hy. apply Hx; [exact Hy | exact Hbx | now apply HbL].
Qed.

(* the same statement on the source order: whatever the order in which the lines were written *)
Lemma perm_two_split (p q : pline) rest S :
  Permutation (p :: q :: rest) S ->
  (exists s1 s2 s3, S = s1 ++ p :: s2 ++ q :: s3) \/ (exists s1 s2 s3, S = s1 ++ q :: s2 ++ p :: s3).
Proof.
  intros H.
  destruct (Permutation_vs_cons_inv (Permutation_sym H)) as [s1 [s2 ->]].
  apply Permutation_cons_app_inv in H.
  assert (Hq : In q (s1 ++ s2)) by (eapply Permutation_in; [exact H | left; reflexivity]).
  apply in_app_or in Hq as [Hq|Hq]; apply in_split in Hq as [a [b ->]].
  - right. exists a, b, s2. now rewrite <- app_assoc.
  - left. exists s1, a, b. reflexivity.
Qed.

Theorem common_address_rejected l l1 p l2 q l3 a :
  l = l1 ++ p :: l2 ++ q :: l3 ->
  pl_isbytes p = true -> pl_isbytes q = true -> covers p a -> covers q a ->
  overlap_check None (sort_by_addr l) = false.
Proof.
  intros Hl Hp Hq Ha Hb.
  assert (Hperm : Permutation (p :: q :: (l1 ++ l2 ++ l3)) (sort_by_addr l)).
  { rewrite sort_perm, Hl. 
    transitivity (p :: l1 ++ l2 ++ q :: l3); [constructor|].
    - transitivity (q :: l1 ++ l2 ++ l3); [reflexivity|].
      rewrite !app_assoc. apply Permutation_middle.
    - apply Permutation_middle. }
  destruct (perm_two_split _ _ _ _ Hperm) as [[s1 [s2 [s3 Hs]]]|[s1 [s2 [s3 Hs]]]].
  - eapply overlap_rejected; eauto.
  - eapply (overlap_rejected l s1 q s2 p s3 a); eauto.
Qed.

(* ------------------------------------------------------------------------------------------ *)
(* binary image                                                                                 *)

(* the byte a line assembles at absolute address a *)
Definition contrib (p : pline) (a : Z) : option Z :=
  if pl_isbytes p && negb (pl_muted p) && (pl_addr p <=? a)
  then nth_error (pl_bytes p) (Z.to_nat (a - pl_addr p)) else None.

(* the byte assembled for address a: that of the last line (in the order given) that assembled one there;
   under the no-overlap check at most one line does *)
Fixpoint byte_at (l : list pline) (a : Z) : option Z :=
  match l with
  | [] => None
  | p :: r => match byte_at r a with Some b => Some b | None => contrib p a end
  end.

Definition or_else (x y : option Z) : option Z := match x with Some b => Some b | None => y end.

Lemma put_bytes_get bs : forall m s a,
  map_get (put_bytes m s bs) a
  = or_else (if s <=? a then nth_error bs (Z.to_nat (a - s)) else None) (map_get m a).
Proof.
  induction bs as [|b r IH]; intros m s a; cbn [put_bytes].
  - destruct (s <=? a); [destruct (Z.to_nat (a - s))|]; reflexivity.
  - rewrite IH. cbn [map_get].
    destruct (s + 1 <=? a) eqn:E1.
    + assert (E2 : (s <=? a) = true) by lia. rewrite E2.
      replace (Z.to_nat (a - s)) with (S (Z.to_nat (a - (s + 1)))) by lia. cbn [nth_error].
      destruct (nth_error r (Z.to_nat (a - (s + 1)))); cbn [or_else]; [reflexivity|].
      destruct (s =? a) eqn:E3; [lia | reflexivity].
    + cbn [or_else]. destruct (s =? a) eqn:E3.
      * assert (E2 : (s <=? a) = true) by lia. rewrite E2.
        replace (Z.to_nat (a - s)) with 0%nat by lia. reflexivity.
      * assert (E2 : (s <=? a) = false) by lia. rewrite E2. reflexivity.
Qed.

Lemma build_map_get_gen l : forall m a,
  map_get (fold_left (fun m p => if pl_isbytes p && negb (pl_muted p) then put_bytes m (pl_addr p) (pl_bytes p) else m) l m) a
  = or_else (byte_at l a) (map_get m a).
Proof.
  induction l as [|p r IH]; intros m a; cbn [fold_left byte_at]; [reflexivity|].
  rewrite IH. destruct (byte_at r a); cbn [or_else]; [reflexivity|].
  unfold contrib. destruct (pl_isbytes p && negb (pl_muted p)) eqn:E; cbn [andb].
  - rewrite put_bytes_get. reflexivity.
  - reflexivity.
Qed.

Theorem build_map_get l a : map_get (build_map l) a = byte_at l a.
Proof. unfold build_map. rewrite build_map_get_gen. cbn [map_get]. destruct (byte_at l a); reflexivity. Qed.

Lemma image_from_length m fill n : forall a, length (image_from m fill a n) = n.
Proof. induction n as [|n IH]; intros a; cbn [image_from length]; [reflexivity|]. now rewrite IH. Qed.

Lemma image_from_nth m fill n : forall a k, (k < n)%nat ->
  nth_error (image_from m fill a n) k
  = Some (match map_get m (a + Z.of_nat k) with Some b => b | None => fill end).
Proof.
  induction n as [|n IH]; intros a k Hk; [lia|]. cbn [image_from].
  destruct k as [|k']; cbn [nth_error].
  - now rewrite Z.add_0_r.
  - rewrite IH by lia. replace (a + 1 + Z.of_nat k') with (a + Z.of_nat (S k')) by lia. reflexivity.
Qed.

(* the image for an explicit window [start, end]: exactly end - start + 1 bytes; at offset a - start the byte
   assembled for address a by an unmuted line, the fill value where no line assembled a byte; nothing else *)
Theorem image_window l start e fill :
  start - 1 <= e ->
  Z.of_nat (length (image l start (Some e) fill)) = e - start + 1
  /\ forall a, start <= a <= e ->
       nth_error (image l start (Some e) fill) (Z.to_nat (a - start))
       = Some (match byte_at l a with Some b => b | None => fill end).
Proof.
  intros He. unfold image. split.
  - rewrite image_from_length. lia.
  - intros a Ha. rewrite image_from_nth by lia. rewrite build_map_get.
    replace (start + Z.of_nat (Z.to_nat (a - start))) with a by lia. reflexivity.
Qed.

(* keys of the memory map *)
Lemma map_get_in m a : (exists b, map_get m a = Some b) <-> (exists b, In (a, b) m).
Proof.
  induction m as [|[k v] r IH]; cbn [map_get In].
  - split; intros [b H]; [discriminate | contradiction].
  - destruct (k =? a) eqn:E.
    + split; intros _; [exists v; left; f_equal; lia | exists v; reflexivity].
    + rewrite IH. split; intros [b H]; exists b; [right; exact H|].
      destruct H as [H|H]; [inversion H; lia | exact H].
Qed.

Lemma fold_max_ge r : forall k0, k0 <= fold_left (fun acc (kv : Z * Z) => Z.max acc (fst kv)) r k0
  /\ forall k v, In (k, v) r -> k <= fold_left (fun acc (kv : Z * Z) => Z.max acc (fst kv)) r k0.
Proof.
  induction r as [|[k' v'] r IH]; intros k0; cbn [fold_left fst]; [split; [lia | contradiction]|].
  destruct (IH (Z.max k0 k')) as [I1 I2]. split; [lia|].
  intros k v [H|H]; [inversion H; subst; lia | now apply (I2 k v)].
Qed.

Lemma fold_max_in r : forall k0,
  fold_left (fun acc (kv : Z * Z) => Z.max acc (fst kv)) r k0 = k0
  \/ exists v, In (fold_left (fun acc (kv : Z * Z) => Z.max acc (fst kv)) r k0, v) r.
Proof.
  induction r as [|[k' v'] r IH]; intros k0; cbn [fold_left fst]; [left; reflexivity|].
  destruct (IH (Z.max k0 k')) as [H|[v H]].
  - rewrite H. destruct (Z.max_spec k0 k') as [[_ ->]|[_ ->]]; [right; exists v'; left; reflexivity | left; reflexivity].
  - right. exists v. right. exact H.
Qed.

(* with no explicit end the window ends at the highest address that received an emitted byte *)
Theorem image_default_end l start fill :
  let e := map_max (build_map l) (start - 1) in
  image l start None fill = image l start (Some e) fill
  /\ (forall a b, byte_at l a = Some b -> a <= e)
  /\ ((exists a b, byte_at l a = Some b) -> exists b, byte_at l e = Some b).
Proof.
  intros e. split; [reflexivity|]. unfold e, map_max. split.
  - intros a b H. rewrite <- build_map_get in H.
    assert (Hin : exists b, In (a, b) (build_map l)) by (apply map_get_in; eauto).
    destruct Hin as [b' Hin]. destruct (build_map l) as [|[k v] r]; [contradiction|].
    destruct (fold_max_ge r k) as [G1 G2]. destruct Hin as [Hin|Hin]; [inversion Hin; subst; lia | eapply G2; eauto].
  - intros [a [b H]]. rewrite <- build_map_get in H.
    assert (Hne : build_map l <> []) by (intros E; rewrite E in H; discriminate).
    destruct (build_map l) as [|[k v] r] eqn:Em; [now elim Hne|].
    assert (Hin : exists v', In (fold_left (fun acc (kv : Z * Z) => Z.max acc (fst kv)) r k, v') ((k, v) :: r)).
    { destruct (fold_max_in r k) as [->|[v' Hv]]; [exists v; left; reflexivity | exists v'; right; exact Hv]. }
    apply map_get_in in Hin. destruct Hin as [b' Hb']. exists b'.
    rewrite <- build_map_get, Em. exact Hb'.
Qed.

(* muted lines, and lines that are not byte lines, contribute nothing *)
Theorem contrib_muted p a : pl_muted p = true -> contrib p a = None.
Proof. intros H. unfold contrib. rewrite H. now rewrite andb_false_r. Qed.

(* a contribution comes from inside the line's own range: no byte is written outside it *)
Theorem contrib_in_range p a b :
  contrib p a = Some b -> pl_addr p <= a < pl_addr p + Z.of_nat (length (pl_bytes p)).
Proof.
  unfold contrib. destruct (pl_isbytes p && negb (pl_muted p) && (pl_addr p <=? a)) eqn:E; [|discriminate].
  intros H. apply andb_prop in E as [_ E].
  assert (Hn : (Z.to_nat (a - pl_addr p) < length (pl_bytes p))%nat) by (apply nth_error_Some; congruence).
  lia.
Qed.

(* ... and every byte of an unmuted byte line is a contribution at its own address (none is dropped) *)
Theorem contrib_complete p i b :
  pl_isbytes p = true -> pl_muted p = false -> nth_error (pl_bytes p) i = Some b ->
  contrib p (pl_addr p + Z.of_nat i) = Some b.
Proof.
  intros Hb Hm Hn. unfold contrib. rewrite Hb, Hm. cbn [negb andb].
  replace (pl_addr p <=? pl_addr p + Z.of_nat i) with true by lia.
  replace (Z.to_nat (pl_addr p + Z.of_nat i - pl_addr p)) with i by lia. exact Hn.
Qed.

Theorem byte_at_sound l a b : byte_at l a = Some b -> exists p, In p l /\ contrib p a = Some b.
Proof.
  induction l as [|p r IH]; cbn [byte_at]; [discriminate|].
  destruct (byte_at r a) as [b'|] eqn:E.
  - intros H; inversion H; subst. destruct (IH eq_refl) as [q [Hq Hc]]. exists q. split; [now right | exact Hc].
  - intros H. exists p. split; [now left | exact H].
Qed.

Theorem byte_at_complete l p a b :
  In p l -> contrib p a = Some b -> exists b', byte_at l a = Some b'.
Proof.
  induction l as [|q r IH]; intros Hin Hc; [contradiction|]. cbn [byte_at].
  destruct (byte_at r a) as [b'|] eqn:E; [eauto|].
  destruct Hin as [->|Hin]; [eauto|]. destruct (IH Hin Hc) as [b' Hb']. congruence.
Qed.

(* CondSpec.v — block-structured specification of conditional assembly (property C08):
   a program is a tree of lines and conditional chains; a chain evaluates its guards in order, in the
   state at the moment each is reached, and runs the first branch whose guard holds (else the #else
   branch, else nothing); nothing inside an unselected branch is run or evaluated. *)
From BA Require Export Cond.

Section CondSpec.
  Variable sym cond payload : Type.
  Variable ceval : sym -> cond -> result bool.
  Variable apply : sym -> payload -> result sym.
  Variable lineT outT : Type.
  Variable emit : sym -> lineT -> result outT.

  Inductive block :=
  | BLine (l : lineT)
  | BEffect (p : payload)
  | BMute
  | BUnmute
  | BChain (c : cond) (body : blocks) (tail : ctail)
  with blocks := BNil | BCons (b : block) (bs : blocks)
  with ctail :=
  | TEnd                                        (* #endif *)
  | TElse (body : blocks)                       (* #else body #endif *)
  | TElif (c : cond) (body : blocks) (rest : ctail).

  (* state of the specification: symbol table, mute depth, emitted lines (newest first) *)
  Record bstate := { b_sym : sym; b_mute : nat; b_out : list (outT * bool) }.

  Fixpoint run_block (s : bstate) (b : block) : result bstate :=
    match b with
    | BLine l => do o <- emit (b_sym s) l;
                 Ok {| b_sym := b_sym s; b_mute := b_mute s; b_out := (o, negb (Nat.eqb (b_mute s) 0)) :: b_out s |}
    | BEffect p => do t <- apply (b_sym s) p; Ok {| b_sym := t; b_mute := b_mute s; b_out := b_out s |}
    | BMute => Ok {| b_sym := b_sym s; b_mute := S (b_mute s); b_out := b_out s |}
    | BUnmute => Ok {| b_sym := b_sym s; b_mute := pred (b_mute s); b_out := b_out s |}
    | BChain c body tail =>
        do g <- ceval (b_sym s) c;
        if g then run_blocks s body else run_tail s tail
    end
  with run_blocks (s : bstate) (bs : blocks) : result bstate :=
    match bs with
    | BNil => Ok s
    | BCons b r => do s' <- run_block s b; run_blocks s' r
    end
  with run_tail (s : bstate) (t : ctail) : result bstate :=
    match t with
    | TEnd => Ok s
    | TElse body => run_blocks s body
    | TElif c body rest => do g <- ceval (b_sym s) c; if g then run_blocks s body else run_tail s rest
    end.

  (* the flat source text of a block tree *)
  Fixpoint flat_block (b : block) : list (directive cond payload lineT) :=
    match b with
    | BLine l => [DLine l]
    | BEffect p => [DEffect p]
    | BMute => [DMute]
    | BUnmute => [DUnmute]
    | BChain c body tail => DOpen c :: flat_blocks body ++ flat_tail tail
    end
  with flat_blocks (bs : blocks) : list (directive cond payload lineT) :=
    match bs with
    | BNil => []
    | BCons b r => flat_block b ++ flat_blocks r
    end
  with flat_tail (t : ctail) : list (directive cond payload lineT) :=
    match t with
    | TEnd => [DEndif]
    | TElse body => DElse :: flat_blocks body ++ [DEndif]
    | TElif c body rest => DElif c :: flat_blocks body ++ flat_tail rest
    end.

End CondSpec.

Arguments BLine {cond payload lineT}.
Arguments BEffect {cond payload lineT}.
Arguments BMute {cond payload lineT}.
Arguments BUnmute {cond payload lineT}.
Arguments BChain {cond payload lineT}.
Arguments BNil {cond payload lineT}.
Arguments BCons {cond payload lineT}.
Arguments TEnd {cond payload lineT}.
Arguments TElse {cond payload lineT}.
Arguments TElif {cond payload lineT}.

(* Program.v — whole-program implementation model:
     AssemblyFile.load_line_objects / _handle_include_file      (assembly_file.py)   — reader: conditionals, scopes, zones, includes
     LabelScope.set_label_value / get_label_value               (label_scope/__init__.py)
     Assembler.assemble_bytecode                                (engine.py)          — pass 1, sort, pass 2, overlap, image
     byte_size / generate_bytes of every line class; part value classes (parts.py, relative_address.py, address.py)
   Statements are abstract (already cut out of the source text; expressions are ASTs); the text -> statement step is
   tied separately (C07 lexer/parser, C18).  No proofs here. *)
From BA Require Export Base Bits Expr Subst Cond CondEval Layout Data.
Open Scope Z_scope.

(* ---------- label scopes ---------- *)
Inductive lscope := ScFile (f : nat) | ScLocal (f : nat) (region : nat).
Inductive lkey := KGlobal (n : str) | KFile (f : nat) (n : str) | KLocal (region : nat) (n : str).
Definition labels := list (lkey * Z).

Definition lkey_eqb (a b : lkey) : bool :=
  match a, b with
  | KGlobal x, KGlobal y => str_eqb x y
  | KFile f x, KFile g y => Nat.eqb f g && str_eqb x y
  | KLocal r x, KLocal s y => Nat.eqb r s && str_eqb x y
  | _, _ => false
  end.
Fixpoint lfind (ls : labels) (k : lkey) : option Z :=
  match ls with [] => None | (k', v) :: r => if lkey_eqb k' k then Some v else lfind r k end.

Inductive lkind := LkGlobal | LkFile | LkLocal.
Definition label_kind (n : str) : lkind :=
  match n with 46 :: _ => LkLocal | 95 :: _ => LkFile | _ => LkGlobal end.
Definition base_name (n : str) : str :=
  match label_kind n with LkGlobal => n | _ => tl n end.

Definition scope_file (s : lscope) : nat := match s with ScFile f => f | ScLocal f _ => f end.

(* set_label_value: keyword check on the un-prefixed name, routing by prefix, duplicates, "too low of scope" *)
Definition set_label (keywords : list str) (ls : labels) (sc : lscope) (n : str) (v : Z) : result labels :=
  if mem (base_name n) keywords then Rejected else
  let key := match label_kind n with
             | LkGlobal => Some (KGlobal n)
             | LkFile => Some (KFile (scope_file sc) n)
             | LkLocal => match sc with ScLocal _ r => Some (KLocal r n) | ScFile _ => None end
             end in
  match key with
  | None => Rejected
  | Some k => match lfind ls k with Some _ => Rejected | None => Ok (ls ++ [(k, v)]) end
  end.

(* predefined constants / data labels: scope forced to GLOBAL, whatever the prefix *)
Definition set_label_global (keywords : list str) (ls : labels) (n : str) (v : Z) : result labels :=
  if mem n keywords then Rejected else
  match lfind ls (KGlobal n) with Some _ => Rejected | None => Ok (ls ++ [(KGlobal n, v)]) end.

(* get_label_value: the line's own scope, then its parents; a register name reaching the global scope is an error *)
Definition lookup_label (registers : list str) (ls : labels) (sc : lscope) (n : str) : option Z :=
  let in_local := match sc with ScLocal _ r => lfind ls (KLocal r n) | ScFile _ => None end in
  match in_local with
  | Some v => Some v
  | None =>
      match lfind ls (KFile (scope_file sc) n) with
      | Some v => Some v
      | None => if reg_mem n registers then None else lfind ls (KGlobal n)
      end
  end.

(* ---------- statements ---------- *)

Inductive pval :=
| VNum (v : Z)
| VExpr (e : expr)
| VValid (e : expr) (mx mn : option Z)
| VZone (e : expr) (bounds : option (Z * Z))
| VEnum (e : expr) (dict : list (Z * Z))
| VRel (e : expr) (mn mx : option Z) (from_end : bool) (bounds : option (Z * Z))
| VAddr (e : expr) (bounds : option (Z * Z)) (slice msb : bool)
| VComposite (subs : list (Z * Z))               (* (value, size) of numeric sub-parts *)
| VCompositeE (outer : Z * Z) (e : expr) (mx mn : Z) (isz : Z).   (* register code followed by a range-checked expression *)

Record ipart := { ip_val : pval; ip_size : Z; ip_align : bool; ip_endian : endian }.

Inductive stmt :=
| SLabel (n : str)
| SConst (n : str) (e : expr)
| SData (w : nat) (e : endian) (vals : list expr)
| SBytes (bs : list Z)                            (* a string directive / embedded string, already converted (Data.v) *)
| SFill (cnt val : expr)
| SZeroUntil (a : expr)
| SInstr (ps : list ipart)
| SInstrs (steps : list (list ipart))             (* a macro invocation: its expanded instruction sequence *)
| SOrg (e : expr) (z : option str)
| SMemzone (z : str)
| SAlign (e : option expr)
| SOther.                                         (* a compilable line without bytes or effect (comment, #require, ...) *)

Inductive item :=
| ICond (d : directive ccond cpayload unit)
| ICreateZone (name : str) (s e : Z)
| IInclude (target : option nat)                  (* None: not found, or found in more than one directory *)
| IStmt (s : stmt).

Record config := {
  c_addr_bits : Z; c_origin : Z; c_page : Z;
  c_registers : list str;
  c_keywords : list str;
  c_pre_zones : list (str * Z * Z);
  c_pre_consts : list (str * Z);
  c_pre_data : list (str * Z * Z * Z);            (* name, address, value, size *)
  c_pre_syms : list (str * str);
  c_cli_syms : list (str * str)
}.

Record placed := { p_stmt : stmt; p_scope : lscope; p_zone : str; p_muted : bool }.

Record gstate := {
  g_tab : table; g_zones : list zone; g_labels : labels; g_used : list nat; g_region : nat
}.

(* ---------- reader ---------- *)

Definition in_nat (x : nat) (l : list nat) : bool := existsb (Nat.eqb x) l.

Definition is_register_name (cfg : config) (n : str) : bool := reg_mem n (c_registers cfg).

Definition eval_in (cfg : config) (ls : labels) (sc : lscope) (e : expr) : result Z :=
  eval (lookup_label (c_registers cfg) ls sc) e.

Definition cstep := Cond.step table ccond ceval cpayload capply unit unit (fun _ _ => Ok tt).

Record fstate := { f_stack : list entry; f_mute : nat; f_scope : lscope; f_zone : str }.

(* the reader's state while one file is being read: everything global, the file-local state, the lines so far (newest first) *)
Definition rstate := (gstate * fstate * list placed)%type.

(* one source item; [load_file] reads an included file (recursion is tied in [load]) *)
Definition item_step (cfg : config) (load_file : nat -> gstate -> result (gstate * list placed)) (fid : nat)
           (st : rstate) (it : item) : result rstate :=
  let '(g, fs, acc) := st in
  let active := currently_active (f_stack fs) in
  match it with
  | ICond d =>
      let cs := {| st_sym := g_tab g; st_mute := f_mute fs; st_out := []; st_stack := f_stack fs |} in
      do cs' <- cstep cs d;
      Ok ({| g_tab := st_sym table unit cs'; g_zones := g_zones g; g_labels := g_labels g;
             g_used := g_used g; g_region := g_region g |},
          {| f_stack := st_stack table unit cs'; f_mute := st_mute table unit cs';
             f_scope := f_scope fs; f_zone := f_zone fs |}, acc)
  | ICreateZone n s e =>
      if active then
        do zs <- create_zone (c_addr_bits cfg) (g_zones g) s e n;
        Ok ({| g_tab := g_tab g; g_zones := zs; g_labels := g_labels g; g_used := g_used g; g_region := g_region g |}, fs, acc)
      else Ok st
  | IInclude target =>
      if active then
        match target with
        | None => Rejected                                   (* not found, or found in more than one directory *)
        | Some t =>
            if in_nat t (g_used g) then Rejected else      (* "assembly file included multiple times" *)
            do r <- load_file t {| g_tab := g_tab g; g_zones := g_zones g; g_labels := g_labels g;
                                   g_used := t :: g_used g; g_region := g_region g |};
            (* the includer's own scope, zone, condition stack and mute counter are untouched *)
            Ok (fst r, fs, rev (snd r) ++ acc)
        end
      else Ok st
  | IStmt s =>
      if negb active then Ok st else
      (* zone of the line object: the current zone, or the zone named by .memzone / .org *)
      let line_zone := match s with
                       | SMemzone z => z
                       | SOrg _ (Some z) => z
                       | SOrg _ None => GLOBAL
                       | _ => f_zone fs
                       end in
      match find_zone (g_zones g) line_zone with
      | None => Rejected                                   (* unknown memory zone *)
      | Some _ =>
        let '(scope', zone', region') :=
          match s with
          | SLabel n => match label_kind n with
                        | LkLocal => (f_scope fs, f_zone fs, g_region g)
                        | _ => (ScLocal fid (g_region g), f_zone fs, S (g_region g))
                        end
          | SOrg _ _ | SMemzone _ => (ScFile fid, line_zone, g_region g)
          | _ => (f_scope fs, f_zone fs, g_region g)
          end in
        let bad_name := match s with
                        | SLabel n | SConst n _ => is_register_name cfg n
                        | _ => false
                        end in
        if bad_name then Rejected else
        do ls' <- match s with
                  | SConst n e =>
                      do v <- eval_in cfg (g_labels g) (f_scope fs) e;
                      set_label (c_keywords cfg) (g_labels g) scope' n v
                  | _ => Ok (g_labels g)
                  end;
        Ok ({| g_tab := g_tab g; g_zones := g_zones g; g_labels := ls'; g_used := g_used g; g_region := region' |},
            {| f_stack := f_stack fs; f_mute := f_mute fs; f_scope := scope'; f_zone := zone' |},
            {| p_stmt := s; p_scope := scope'; p_zone := line_zone; p_muted := negb (Nat.eqb (f_mute fs) 0) |} :: acc)
      end
  end.

Fixpoint run_items (step : rstate -> item -> result rstate) (items : list item) (st : rstate) : result rstate :=
  match items with
  | [] => Ok st
  | it :: rest => do st' <- step st it; run_items step rest st'
  end.

(* a file starts with a fresh condition stack, mute counter 0, its own FILE scope and the GLOBAL zone *)
Definition file_init (fid : nat) : fstate := {| f_stack := []; f_mute := 0; f_scope := ScFile fid; f_zone := GLOBAL |}.

Fixpoint load (fuel : nat) (cfg : config) (files : list (list item)) (fid : nat) (g : gstate)
  : result (gstate * list placed) :=
  match fuel with
  | O => OutOfFuel
  | S fu =>
    match nth_error files fid with
    | None => Rejected
    | Some items =>
        do r <- run_items (item_step cfg (load fu cfg files) fid) items (g, file_init fid, []);
        let '(g', _, acc) := r in Ok (g', rev acc)
    end
  end.

(* ---------- part values ---------- *)

Definition in_bounds (b : option (Z * Z)) (v : Z) : bool :=
  match b with None => true | Some (lo, hi) => (lo <=? v) && (v <=? hi) end.
Definition opt_le (v : Z) (mx : option Z) : bool := match mx with None => true | Some m => v <=? m end.
Definition opt_ge (v : Z) (mn : option Z) : bool := match mn with None => true | Some m => m <=? v end.
Fixpoint dict_get (d : list (Z * Z)) (k : Z) : option Z :=
  match d with [] => None | (a, b) :: r => if a =? k then Some b else dict_get r k end.

Definition part_value (ev : expr -> result Z) (addr size : Z) (p : ipart) : result Z :=
  match ip_val p with
  | VNum v => Ok v
  | VExpr e => ev e
  | VValid e mx mn => do v <- ev e; if opt_le v mx && opt_ge v mn then Ok v else Rejected
  | VZone e b => do v <- ev e; if in_bounds b v then Ok v else Rejected
  | VEnum e d => do v <- ev e; match dict_get d v with Some x => Ok x | None => Rejected end
  | VRel e mn mx from_end b =>
      do v <- ev e;
      if negb (in_bounds b v) then Rejected else
      let rel := v - addr in
      let rel := if from_end then rel - (size - 1) else rel in
      if opt_le rel mx && opt_ge rel mn then Ok rel else Rejected
  | VAddr e b slice msb =>
      do v <- ev e;
      if negb (in_bounds b v) then Rejected else
      if slice && msb then
        if Z.shiftr addr (ip_size p) =? Z.shiftr v (ip_size p)
        then Ok (Z.land v (2 ^ ip_size p - 1)) else Rejected
      else Ok v
  | VComposite subs => composite_value subs (ip_endian p)
  | VCompositeE outer e mx mn isz =>
      do v <- ev e;
      if (v <=? mx) && (mn <=? v) then composite_value [outer; (v, isz)] (ip_endian p) else Rejected
  end.

Definition instr_size (ps : list ipart) : Z :=
  byte_size (map (fun p => {| p_value := 0; p_size := ip_size p; p_align := ip_align p; p_endian := ip_endian p |}) ps).

Definition instr_bytes (ev : expr -> result Z) (addr : Z) (ps : list ipart) : result (list Z) :=
  let size := instr_size ps in
  do vals <- mapM (part_value ev addr size) ps;
  get_bytes (map (fun pv => {| p_value := snd pv; p_size := ip_size (fst pv); p_align := ip_align (fst pv);
                               p_endian := ip_endian (fst pv) |}) (combine ps vals)).

(* ---------- pass 1 ---------- *)

Record sized := { s_line : placed; s_addr : Z; s_size : Z }.

Definition is_byte_stmt (s : stmt) : bool :=
  match s with SData _ _ _ | SBytes _ | SFill _ _ | SZeroUntil _ | SInstr _ | SInstrs _ => true | _ => false end.

(* the address a line is given: the zone cursor, except for .org (its expression, offset from the zone's start when a
   zone is named, and inside GLOBAL) and .align (next page boundary) *)
Definition line_addr (cfg : config) (ev : expr -> result Z) (z g : zone) (s : stmt) : result Z :=
  match s with
  | SOrg e zn =>
      do v <- ev e;
      let value := match zn with None => v | Some _ => z_start z + v end in
      if (value <? z_start g) || (value >? z_end g) then Rejected else Ok value
  | SAlign eo => do page <- match eo with Some e => ev e | None => Ok (c_page cfg) end;
                 align_addr (z_cur z) page
  | _ => Ok (z_cur z)
  end.

(* the number of bytes reserved for a line in pass 1 *)
Definition line_size (ev : expr -> result Z) (addr : Z) (s : stmt) : result Z :=
  match s with
  | SData w _ vals => Ok (Z.of_nat (length vals) * Z.of_nat w)
  | SBytes bs => Ok (Z.of_nat (length bs))
  | SFill c _ => do n <- ev c; if n <? 0 then Rejected else Ok n
  | SZeroUntil a => do t <- ev a; Ok (zerountil_size t addr)
  | SInstr ips => Ok (instr_size ips)
  | SInstrs steps => Ok (fold_right (fun ips acc => instr_size ips + acc) 0 steps)
  | _ => Ok 0
  end.

Fixpoint pass1 (cfg : config) (zs : list zone) (ls : labels) (ps : list placed) (acc : list sized)
  : result (list sized * list zone * labels) :=
  match ps with
  | [] => Ok (rev acc, zs, ls)
  | p :: rest =>
    match find_zone zs (p_zone p), find_zone zs GLOBAL with
    | Some z, Some g =>
      let ev := eval_in cfg ls (p_scope p) in
      do addr <- line_addr cfg ev z g (p_stmt p);
      do size <- line_size ev addr (p_stmt p);
      do z' <- set_cursor z (addr + size);
      do ls' <- match p_stmt p with
                | SLabel n => set_label (c_keywords cfg) ls (p_scope p) n addr
                | _ => Ok ls
                end;
      pass1 cfg (update_zone zs z') ls' rest ({| s_line := p; s_addr := addr; s_size := size |} :: acc)
    | _, _ => Rejected
    end
  end.

(* ---------- pass 2 ---------- *)

(* the instructions of a sequence are assembled one after the other, each at the address it occupies *)
Fixpoint instrs_bytes (ev : expr -> result Z) (addr : Z) (steps : list (list ipart)) : result (list Z) :=
  match steps with
  | [] => Ok []
  | ips :: rest => do b <- instr_bytes ev addr ips;
                   do bs <- instrs_bytes ev (addr + instr_size ips) rest;
                   Ok (b ++ bs)
  end.

Definition gen_bytes (cfg : config) (ls : labels) (s : sized) : result (list Z) :=
  let p := s_line s in
  let ev := eval_in cfg ls (p_scope p) in
  match p_stmt p with
  | SData w e vals => do vs <- mapM ev vals; Ok (flat_map (data_value_bytes w e) vs)
  | SBytes bs => Ok bs
  | SFill _ v => do x <- ev v; Ok (fill_bytes (s_size s) x)
  | SZeroUntil _ => Ok (fill_bytes (s_size s) 0)
  | SInstr ips => instr_bytes ev (s_addr s) ips
  | SInstrs steps => instrs_bytes ev (s_addr s) steps
  | _ => Ok []
  end.

Definition to_pline (cfg : config) (ls : labels) (s : sized) : result pline :=
  do bs <- (if is_byte_stmt (p_stmt (s_line s)) then gen_bytes cfg ls s else Ok []);
  Ok {| pl_addr := s_addr s; pl_isbytes := is_byte_stmt (p_stmt (s_line s)); pl_bytes := bs;
        pl_size := s_size s; pl_muted := p_muted (s_line s) |}.

Definition predefined_pline (d : str * Z * Z * Z) : pline :=
  let '(_, addr, value, size) := d in
  {| pl_addr := addr; pl_isbytes := true; pl_bytes := fill_bytes size value; pl_size := size; pl_muted := false |}.

Record options := { o_start : Z; o_end : option Z; o_fill : Z }.

Record outcome := { out_image : list Z; out_lines : list pline }.   (* lines in address order, as handed to the printers *)

Definition FUEL_FILES (files : list (list item)) : nat := S (length files).

Definition assemble (cfg : config) (files : list (list item)) (opts : options) : result outcome :=
  (* engine set-up: zones, predefined constants and data labels, symbols (config, then command line) *)
  do zs0 <- init_zones (c_addr_bits cfg) (c_origin cfg) (c_pre_zones cfg);
  do ls0 <- fold_left (fun acc nv => do ls <- acc; set_label_global (c_keywords cfg) ls (fst nv) (snd nv))
                      (c_pre_consts cfg) (Ok []);
  do tab0 <- fold_left (fun acc nv => do t <- acc; create_symbol t (fst nv) (snd nv))
                       (c_pre_syms cfg ++ c_cli_syms cfg) (Ok []);
  do ls1 <- fold_left (fun acc d => do ls <- acc; let '(n, a, _, _) := d in set_label_global (c_keywords cfg) ls n a)
                      (c_pre_data cfg) (Ok ls0);
  (* reader *)
  do gl <- load (FUEL_FILES files) cfg files 0
             {| g_tab := tab0; g_zones := zs0; g_labels := ls1; g_used := [0%nat]; g_region := 0 |};
  let '(g, lines) := gl in
  (* pass 1 *)
  do r1 <- pass1 cfg (g_zones g) (g_labels g) lines [];
  let '(sized_lines, _, ls) := r1 in
  (* pass 2: generate bytes (all labels bound), merge predefined data, sort, overlap check *)
  do plines <- mapM (to_pline cfg ls) sized_lines;
  let all := sort_by_addr (plines ++ map predefined_pline (c_pre_data cfg)) in
  if negb (overlap_check None all) then Rejected else
  Ok {| out_image := image all (o_start opts) (o_end opts) (o_fill opts mod 256); out_lines := all |}.

(* observation for the correspondence: the image and the (address, bytes) rows of unmuted byte lines *)
Definition obs_prog := option (list Z * list (Z * list Z)).
Definition row_eqb (a b : Z * list Z) : bool := (fst a =? fst b) && zlist_eqb (snd a) (snd b).
Definition obs_prog_eqb (a b : obs_prog) : bool :=
  match a, b with
  | Some (i1, r1), Some (i2, r2) => zlist_eqb i1 i2 && list_eqb row_eqb r1 r2
  | None, None => true
  | _, _ => false
  end.
Definition rows_of (o : outcome) : list (Z * list Z) :=
  flat_map (fun p => if pl_isbytes p && negb (pl_muted p) && negb (Nat.eqb (length (pl_bytes p)) 0)
                     then [(pl_addr p, pl_bytes p)] else []) (out_lines o).
Definition run_prog (c : config * list (list item) * options) : obs_prog :=
  let '(cfg, files, opts) := c in
  match assemble cfg files opts with Ok o => Some (out_image o, rows_of o) | _ => None end.

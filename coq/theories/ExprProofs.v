(* ExprProofs.v — facts about the expression model (Expr.v). *)
From BA Require Import Base Expr.
From Coq Require Import ZifyBool.
Ltac Zify.zify_post_hook ::= Z.to_euclidean_division_equations.
Local Open Scope Z_scope.

(* BYTEn(x): byte n of the two's-complement representation of x — for every x (negative, huge) and n >= 0 *)
Lemma byte_n_spec x n : 0 <= n -> byte_n x n = (x / 2 ^ (8 * n)) mod 256.
Proof.
  intros Hn. unfold byte_n.
  set (c := Z.max ((bit_length (Z.abs x) + 7) / 8) (n + 1)).
  assert (Hc : n + 1 <= c) by (unfold c; lia).
  replace (2 ^ (8 * c) - 1) with (Z.ones (8 * c)) by (rewrite Z.ones_equiv; lia).
  rewrite Z.land_ones by lia.
  apply Z.bits_inj'. intros i Hi. change 256 with (2 ^ 8).
  destruct (Z.lt_ge_cases i 8) as [Hlt|Hge].
  - rewrite !Z.mod_pow2_bits_low by lia.
    rewrite <- !Z.shiftr_div_pow2 by lia. rewrite !Z.shiftr_spec by lia.
    rewrite Z.mod_pow2_bits_low by lia. reflexivity.
  - rewrite !Z.mod_pow2_bits_high by lia. reflexivity.
Qed.

Lemma byte_n_range x n : 0 <= n -> 0 <= byte_n x n < 256.
Proof. intros Hn. rewrite byte_n_spec by exact Hn. apply Z.mod_pos_bound. lia. Qed.

(* int(a/b) for integers: truncation toward zero of the real quotient *)
Lemma trunc_div_int a b : b <> 0 -> trunc (qz a / qz b) = Z.quot a b.
Proof.
  intros Hb. unfold trunc, qz, inject_Z, Qdiv, Qmult, Qinv. cbn [Qnum Qden].
  destruct b as [|p|p]; [now elim Hb| |]; cbn [Qnum Qden].
  - rewrite Z.mul_1_r, Pos.mul_1_l. reflexivity.
  - rewrite Pos.mul_1_l. replace (a * -1) with (- a) by lia.
    rewrite Z.quot_opp_l by discriminate. change (Z.neg p) with (- Z.pos p).
    rewrite Z.quot_opp_r by discriminate. reflexivity.
Qed.

Lemma trunc_qz z : trunc (qz z) = z.
Proof. unfold trunc, qz, inject_Z. cbn. apply Z.quot_1_r. Qed.

Theorem eval_int_division rho a b :
  b <> 0 -> eval rho (EBin ODiv (ENum a) (ENum b)) = Ok (Z.quot a b).
Proof.
  intros Hb. unfold eval. cbn [compute bind]. unfold q_is_zero, qz, inject_Z. cbn [Qnum].
  destruct (b =? 0) eqn:E; [lia|]. cbn [bind]. f_equal. apply (trunc_div_int a b Hb).
Qed.

Theorem eval_division_by_zero rho a : eval rho (EBin ODiv (ENum a) (ENum 0)) = Rejected.
Proof. reflexivity. Qed.

Theorem eval_byte rho i x :
  0 <= i -> eval rho (EFun (FByte (Some i)) (ENum x)) = Ok ((x / 2 ^ (8 * i)) mod 256).
Proof.
  intros Hi. unfold eval. cbn [compute bind]. rewrite !trunc_qz. now rewrite byte_n_spec.
Qed.

Theorem eval_lsb rho x : eval rho (EFun FLsb (ENum x)) = Ok (x mod 256).
Proof.
  unfold eval. cbn [compute bind]. rewrite !trunc_qz, byte_n_spec by lia.
  change (2 ^ (8 * 0)) with 1. now rewrite Z.div_1_r.
Qed.

(* an unknown label is an error, never a value *)
Theorem eval_unknown_label rho s : rho s = None -> eval rho (ELabel s) = Rejected.
Proof. intros H. unfold eval. cbn. now rewrite H. Qed.

(* ------------------------------------------------------------------------------------------ *)
(* the parser's fuel always suffices: it never runs out, and consumes at least one token          *)

Definition need (lvl : nat) (n : nat) : nat := (6 * n + (5 - Nat.min lvl 4))%nat.
Definition loop_need (n : nat) : nat := (6 * n + 1)%nat.

Lemma parse_fuel_ok : forall fuel,
  (forall lvl ts, (need lvl (length ts) <= fuel)%nat ->
      parse fuel lvl ts <> OutOfFuel /\
      (forall e r, parse fuel lvl ts = Ok (e, r) -> (length r < length ts)%nat))
  /\ (forall lvl lhs ts, (loop_need (length ts) <= fuel)%nat ->
      ploop fuel lvl lhs ts <> OutOfFuel /\
      (forall e r, ploop fuel lvl lhs ts = Ok (e, r) -> (length r <= length ts)%nat)).
Proof.
  induction fuel as [|f [IHp IHl]].
  - split; intros; unfold need, loop_need in *; lia.
  - split.
    + (* parse *)
      intros lvl ts Hf. cbn [parse].
      destruct (lvl <? 4)%nat eqn:Elvl.
      * apply Nat.ltb_lt in Elvl.
        assert (Hn : (need (S lvl) (length ts) <= f)%nat) by (unfold need in *; lia).
        destruct (IHp (S lvl) ts Hn) as [P1 P2].
        destruct (parse f (S lvl) ts) as [[lhs r]| |] eqn:Ep; [|split; [discriminate | intros; discriminate] | now elim P1].
        specialize (P2 lhs r eq_refl).
        assert (Hl : (loop_need (length r) <= f)%nat) by (unfold need, loop_need in *; lia).
        destruct (IHl lvl lhs r Hl) as [L1 L2].
        split; [exact L1|]. intros e r' H. specialize (L2 e r' H). lia.
      * apply Nat.ltb_ge in Elvl.
        assert (Hf' : (6 * length ts + 1 <= S f)%nat) by (unfold need in Hf; lia).
        destruct ts as [|t rest]; [split; [discriminate | intros; discriminate]|].
        cbn [length] in *.
        assert (N0 : (need 0 (length rest) <= f)%nat) by (unfold need; cbn; lia).
        assert (N4 : (need 4 (length rest) <= f)%nat) by (unfold need; cbn; lia).
        destruct t as [n|s|o| |i| |].
        -- split; [discriminate|]. intros e r H; inversion H; subst; lia.
        -- split; [discriminate|]. intros e r H; inversion H; subst; lia.
        -- destruct o; try (split; [discriminate | intros; discriminate]).
           destruct (IHp 4%nat rest N4) as [P1 P2].
           destruct (parse f 4 rest) as [[e1 r1]| |] eqn:Ep; [|split; [discriminate | intros; discriminate] | now elim P1].
           specialize (P2 e1 r1 eq_refl). split; [discriminate|]. intros e r H; inversion H; subst; lia.
        -- destruct (IHp 0%nat rest N0) as [P1 P2].
           destruct (parse f 0 rest) as [[e1 r1]| |] eqn:Ep; [|split; [discriminate | intros; discriminate] | now elim P1].
           specialize (P2 e1 r1 eq_refl).
           destruct r1 as [|t1 r2]; [split; [discriminate | intros; discriminate]|].
           destruct t1; try (split; [discriminate | intros; discriminate]).
           split; [discriminate|]. intros e r H; inversion H; subst; cbn [length] in *; lia.
        -- destruct (IHp 0%nat rest N0) as [P1 P2].
           destruct (parse f 0 rest) as [[e1 r1]| |] eqn:Ep; [|split; [discriminate | intros; discriminate] | now elim P1].
           specialize (P2 e1 r1 eq_refl).
           destruct r1 as [|t1 r2]; [split; [discriminate | intros; discriminate]|].
           destruct t1; try (split; [discriminate | intros; discriminate]).
           split; [discriminate|]. intros e r H; inversion H; subst; cbn [length] in *; lia.
        -- destruct (IHp 0%nat rest N0) as [P1 P2].
           destruct (parse f 0 rest) as [[e1 r1]| |] eqn:Ep; [|split; [discriminate | intros; discriminate] | now elim P1].
           specialize (P2 e1 r1 eq_refl).
           destruct r1 as [|t1 r2]; [split; [discriminate | intros; discriminate]|].
           destruct t1; try (split; [discriminate | intros; discriminate]).
           split; [discriminate|]. intros e r H; inversion H; subst; cbn [length] in *; lia.
        -- split; [discriminate | intros; discriminate].
    + (* ploop *)
      intros lvl lhs ts Hf. cbn [ploop].
      destruct ts as [|t rest]; [split; [discriminate|]; intros e r H; inversion H; subst; lia|].
      destruct t as [n|s|o| |i| |]; try (split; [discriminate|]; intros e r H; inversion H; subst; lia).
      destruct (Nat.eqb (level o) lvl); [|split; [discriminate|]; intros e r H; inversion H; subst; lia].
      cbn [length] in Hf.
      assert (Hn : (need (S lvl) (length rest) <= f)%nat) by (unfold need, loop_need in *; lia).
      destruct (IHp (S lvl) rest Hn) as [P1 P2].
      destruct (parse f (S lvl) rest) as [[rhs r1]| |] eqn:Ep; [|split; [discriminate | intros; discriminate] | now elim P1].
      specialize (P2 rhs r1 eq_refl).
      assert (Hl : (loop_need (length r1) <= f)%nat) by (unfold loop_need in *; lia).
      destruct (IHl lvl (EBin o lhs rhs) r1 Hl) as [L1 L2].
      split; [exact L1|]. intros e r H. specialize (L2 e r H). cbn [length]. lia.
Qed.

Theorem parse_tokens_never_out_of_fuel ts : parse_tokens ts <> OutOfFuel.
Proof.
  unfold parse_tokens, parse_fuel.
  destruct (parse_fuel_ok (6 * length ts + 6)) as [Hp _].
  destruct (Hp 0%nat ts ltac:(unfold need; cbn; lia)) as [P1 _].
  destruct (parse (6 * length ts + 6) 0 ts) as [[e r]| |]; cbn [bind]; [|discriminate | now elim P1].
  destruct r; discriminate.
Qed.

(* evaluation succeeds only if every label occurring in the expression resolves *)
Fixpoint e_labels (e : expr) : list str :=
  match e with
  | ENum _ => [] | ELabel s => [s] | ENeg a => e_labels a | EFun _ a => e_labels a
  | EBin _ a b => e_labels a ++ e_labels b
  end.

Theorem eval_ok_labels_resolved rho e v :
  eval rho e = Ok v -> forall s, In s (e_labels e) -> rho s <> None.
Proof.
  unfold eval. destruct (compute rho e) as [q| |] eqn:Ec; cbn [bind]; try discriminate. intros _. clear v.
  revert q Ec. induction e as [n|s|a IH|f a IH|o a IHa b IHb]; intros q Ec x Hin; cbn [e_labels] in Hin.
  - contradiction.
  - destruct Hin as [<-|[]]. cbn [compute] in Ec. destruct (rho s); [discriminate | discriminate].
  - cbn [compute] in Ec. destruct (compute rho a) as [qa| |] eqn:Ea; cbn [bind] in Ec; try discriminate. eapply IH; eauto.
  - cbn [compute] in Ec. destruct (compute rho a) as [qa| |] eqn:Ea; cbn [bind] in Ec; try discriminate. eapply IH; eauto.
  - cbn [compute] in Ec. destruct (compute rho a) as [qa| |] eqn:Ea; cbn [bind] in Ec; try discriminate.
    destruct (compute rho b) as [qb| |] eqn:Eb; cbn [bind] in Ec; try discriminate.
    apply in_app_or in Hin as [Hin|Hin]; [eapply IHa | eapply IHb]; eauto.
Qed.

(* the shortcut in [shr] is the same function as Z.shiftr *)
Lemma shr_spec : forall a n, 0 <= n -> shr a n = Z.shiftr a n.
Proof.
  intros a n Hn. unfold shr. destruct (Z.log2 (Z.abs a) + 1 <? n) eqn:E; [|reflexivity].
  apply Z.ltb_lt in E. destruct (a <? 0) eqn:Ea.
  - apply Z.ltb_lt in Ea. rewrite Z.shiftr_div_pow2 by lia.
    assert (Habs : Z.abs a = - a) by lia.
    assert (Hlt : - a < 2 ^ n).
    { destruct (Z.log2_spec (- a) ltac:(lia)) as [_ H2]. rewrite Habs in E.
      assert (2 ^ Z.succ (Z.log2 (- a)) <= 2 ^ n) by (apply Z.pow_le_mono_r; lia). lia. }
    assert (Hp : 0 < 2 ^ n) by (apply Z.pow_pos_nonneg; lia).
    apply (Z.div_unique a (2 ^ n) (-1) (a + 2 ^ n)); lia.
  - apply Z.ltb_ge in Ea. rewrite Z.abs_eq in E by lia. symmetry. apply Z.shiftr_eq_0_iff.
    destruct (Z.eq_dec a 0) as [->|Hne]; [left; reflexivity|]. right. split; lia.
Qed.

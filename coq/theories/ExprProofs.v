(* ExprProofs.v — facts about the expression model (Expr.v). *)
From BA Require Import Base Expr.
From Coq Require Import ZifyBool.
Ltac Zify.zify_post_hook ::= Z.to_euclidean_division_equations.
Local Open Scope Z_scope.

(* BYTEn(x): byte n of the two's-complement representation of x — for every x (negative, huge) and n >= 0 *)
Lemma byte_n_spec x n : 0 <= n -> byte_n x n = (x / 2 ^ (8 * n)) mod 256.
Proof.
  intros Hn. unfold byte_n.
  set (c := Z.max ((bit_length (Z.abs x) + 7) / 8) (n + 1)).
  assert (Hc : n + 1 <= c) by (unfold c; lia).
  replace (2 ^ (8 * c) - 1) with (Z.ones (8 * c)) by (rewrite Z.ones_equiv; lia).
  rewrite Z.land_ones by lia.
  apply Z.bits_inj'. intros i Hi. change 256 with (2 ^ 8).
  destruct (Z.lt_ge_cases i 8) as [Hlt|Hge].
  - rewrite !Z.mod_pow2_bits_low by lia.
    rewrite <- !Z.shiftr_div_pow2 by lia. rewrite !Z.shiftr_spec by lia.
    rewrite Z.mod_pow2_bits_low by lia. reflexivity.
  - rewrite !Z.mod_pow2_bits_high by lia. reflexivity.
Qed.

Lemma byte_n_range x n : 0 <= n -> 0 <= byte_n x n < 256.
Proof. intros Hn. rewrite byte_n_spec by exact Hn. apply Z.mod_pos_bound. lia. Qed.

(* int(a/b) for integers: truncation toward zero of the real quotient *)
Lemma trunc_div_int a b : b <> 0 -> trunc (qz a / qz b) = Z.quot a b.
Proof.
  intros Hb. unfold trunc, qz, inject_Z, Qdiv, Qmult, Qinv. cbn [Qnum Qden].
  destruct b as [|p|p]; [now elim Hb| |]; cbn [Qnum Qden].
  - rewrite Z.mul_1_r, Pos.mul_1_l. reflexivity.
  - rewrite Pos.mul_1_l. replace (a * -1) with (- a) by lia.
    rewrite Z.quot_opp_l by discriminate. change (Z.neg p) with (- Z.pos p).
    rewrite Z.quot_opp_r by discriminate. reflexivity.
Qed.

Lemma trunc_qz z : trunc (qz z) = z.
Proof. unfold trunc, qz, inject_Z. cbn. apply Z.quot_1_r. Qed.

Theorem eval_int_division rho a b :
  b <> 0 -> eval rho (EBin ODiv (ENum a) (ENum b)) = Ok (Z.quot a b).
Proof.
  intros Hb. unfold eval. cbn [compute bind]. unfold q_is_zero, qz, inject_Z. cbn [Qnum].
  destruct (b =? 0) eqn:E; [lia|]. cbn [bind]. f_equal. apply (trunc_div_int a b Hb).
Qed.

Theorem eval_division_by_zero rho a : eval rho (EBin ODiv (ENum a) (ENum 0)) = Rejected.
Proof. reflexivity. Qed.

Theorem eval_byte rho i x :
  0 <= i -> eval rho (EFun (FByte (Some i)) (ENum x)) = Ok ((x / 2 ^ (8 * i)) mod 256).
Proof.
  intros Hi. unfold eval. cbn [compute bind]. rewrite !trunc_qz. now rewrite byte_n_spec.
Qed.

Theorem eval_lsb rho x : eval rho (EFun FLsb (ENum x)) = Ok (x mod 256).
Proof.
  unfold eval. cbn [compute bind]. rewrite !trunc_qz, byte_n_spec by lia.
  change (2 ^ (8 * 0)) with 1. now rewrite Z.div_1_r.
Qed.

(* an unknown label is an error, never a value *)
Theorem eval_unknown_label rho s : rho s = None -> eval rho (ELabel s) = Rejected.
Proof. intros H. unfold eval. cbn. now rewrite H. Qed.

(* ExprTie.v — comparison helpers used only by generated correspondence files (no facts about the code). *)
From BA Require Export Expr.

Definition opt_z_eqb (a b : option Z) : bool :=
  match a, b with Some x, Some y => x =? y | None, None => true | _, _ => false end.

Definition token_eqb (a b : token) : bool :=
  match a, b with
  | TNum x, TNum y => x =? y
  | TLabel x, TLabel y => list_eqb Z.eqb x y
  | TOp x, TOp y => binop_eqb x y
  | TLsb, TLsb => true
  | TByte x, TByte y => opt_z_eqb x y
  | TLPar, TLPar => true
  | TRPar, TRPar => true
  | _, _ => false
  end.

Definition obs_tokens := option (list token).
Definition obs_tokens_eqb (a b : obs_tokens) : bool :=
  match a, b with
  | Some x, Some y => list_eqb token_eqb x y
  | None, None => true
  | _, _ => false
  end.
Definition run_lex (s : str) : obs_tokens := match lex_text s with Ok t => Some t | _ => None end.

Definition run_eval (c : list (str * Z) * str) : obs_z := obs_of_zresult (eval_text (env_of (fst c)) (snd c)).

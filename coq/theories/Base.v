(* Base.v — shared result type and small helpers.  No facts about the modelled code here. *)
From Coq Require Export ZArith List Bool Lia.
Export ListNotations.
Open Scope Z_scope.

(* Outcome of a modelled operation.  [Rejected] stands for every way the implementation refuses
   an input (sys.exit with a message, an uncaught exception); [OutOfFuel] is reserved for fuelled
   recursion and is excluded by the fuel theorems, never treated as a normal value. *)
Inductive result (A : Type) : Type :=
| Ok (a : A)
| Rejected
| OutOfFuel.
Arguments Ok {A} a.
Arguments Rejected {A}.
Arguments OutOfFuel {A}.

Definition bind {A B} (r : result A) (f : A -> result B) : result B :=
  match r with Ok a => f a | Rejected => Rejected | OutOfFuel => OutOfFuel end.
Notation "'do' x <- r ; k" := (bind r (fun x => k)) (at level 200, x pattern, r at level 100, k at level 200).

Definition is_ok {A} (r : result A) : bool := match r with Ok _ => true | _ => false end.

Fixpoint mapM {A B} (f : A -> result B) (l : list A) : result (list B) :=
  match l with
  | [] => Ok []
  | x :: xs => do y <- f x; do ys <- mapM f xs; Ok (y :: ys)
  end.

(* indices at which two observation lists differ (used by generated correspondence files) *)
Fixpoint mismatches_from {A} (eqb : A -> A -> bool) (i : Z) (xs ys : list A) : list Z :=
  match xs, ys with
  | x :: xs', y :: ys' => (if eqb x y then [] else [i]) ++ mismatches_from eqb (i + 1) xs' ys'
  | [], [] => []
  | _, _ => [-1]
  end.
Definition mismatches {A} (eqb : A -> A -> bool) (xs ys : list A) : list Z := mismatches_from eqb 0 xs ys.

Fixpoint list_eqb {A} (eqb : A -> A -> bool) (xs ys : list A) : bool :=
  match xs, ys with
  | [], [] => true
  | x :: xs', y :: ys' => eqb x y && list_eqb eqb xs' ys'
  | _, _ => false
  end.

Definition zlist_eqb := list_eqb Z.eqb.

(* observation of a byte-producing operation: Some bytes | None (= rejected) *)
Definition obs_bytes := option (list Z).
Definition obs_bytes_eqb (a b : obs_bytes) : bool :=
  match a, b with
  | Some x, Some y => zlist_eqb x y
  | None, None => true
  | _, _ => false
  end.
Definition obs_of_result (r : result (list Z)) : obs_bytes :=
  match r with Ok l => Some l | _ => None end.

Lemma list_eqb_refl {A} (eqb : A -> A -> bool) (H : forall a, eqb a a = true) l : list_eqb eqb l l = true.
Proof. induction l as [|x xs IH]; cbn; [reflexivity|]. rewrite H, IH. reflexivity. Qed.

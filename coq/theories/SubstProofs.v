(* SubstProofs.v — facts about the symbol-substitution model (Subst.v). *)
From BA Require Import Base Expr Subst.
Local Open Scope Z_scope.

Definition unseg (g : seg) : str := match g with SWord x => x | SSep c => [c] end.
Definition unsegs (l : list seg) : str := flat_map unseg l.

(* cutting a line into word runs and separators loses nothing *)
Lemma segs_aux_unsegs s : forall cur, unsegs (segs_aux s cur) = rev cur ++ s.
Proof.
  induction s as [|c r IH]; intros cur; cbn [segs_aux].
  - rewrite app_nil_r. destruct cur; cbn; [reflexivity | now rewrite app_nil_r].
  - destruct (is_word c).
    + rewrite IH. cbn [rev]. now rewrite <- app_assoc.
    + unfold unsegs. rewrite flat_map_app. cbn [flat_map unseg].
      fold (unsegs (segs_aux r [])). rewrite IH. cbn [rev app].
      destruct cur as [|x cur']; cbn [flush flat_map]; [reflexivity|].
      cbn [unseg]. now rewrite app_nil_r.
Qed.

Lemma segs_unsegs s : unsegs (segs s) = s.
Proof. unfold segs. now rewrite segs_aux_unsegs. Qed.

Lemma str_eqb_eq a b : str_eqb a b = true -> a = b.
Proof.
  revert b; induction a as [|x a IH]; intros [|y b]; cbn; try discriminate; [reflexivity|].
  intros H. apply andb_prop in H as [H1 H2]. apply Z.eqb_eq in H1. subst. f_equal. now apply IH.
Qed.

(* whole-word replacement leaves every other segment — in particular every identifier that merely
   contains the symbol's name — untouched and in place *)
Theorem replace_word_segments w repl line :
  replace_word w repl line
  = flat_map (fun g => match g with
                       | SWord x => if str_eqb x w then repl else x
                       | SSep c => [c]
                       end) (segs line).
Proof. reflexivity. Qed.

Lemma flat_map_ext_in' {A B} (f g : A -> list B) l :
  (forall a, In a l -> f a = g a) -> flat_map f l = flat_map g l.
Proof.
  induction l as [|a l IH]; intros H; cbn [flat_map]; [reflexivity|].
  rewrite H by (left; reflexivity). rewrite IH; [reflexivity|]. intros b Hb. apply H. now right.
Qed.

Theorem replace_word_absent w repl line :
  (forall x, In (SWord x) (segs line) -> str_eqb x w = false) ->
  replace_word w repl line = line.
Proof.
  intros H. unfold replace_word. rewrite <- (segs_unsegs line) at 2. unfold unsegs.
  apply flat_map_ext_in'. intros [x|c] Hin; cbn [unseg]; [|reflexivity].
  now rewrite (H x Hin).
Qed.

(* a line none of whose words is a defined symbol is left exactly as it is *)
Lemma loop_no_symbols t resolved f : forall ws line replaced,
  (forall w, In w ws -> lookup t w = None) ->
  (fix loop (ws : list str) (line : str) (replaced : list str) : result (str * list str) :=
     match ws with
     | [] => Ok (line, replaced)
     | w :: r =>
         match lookup t w with
         | None => loop r line replaced
         | Some v =>
             if mem w resolved then Rejected
             else match resolve f t (w :: resolved) v with
                  | Ok repl => loop r (replace_word w repl line) (w :: replaced)
                  | Rejected => Rejected
                  | OutOfFuel => OutOfFuel
                  end
         end
     end) ws line replaced = Ok (line, replaced).
Proof.
  induction ws as [|w ws IH]; intros line replaced H; [reflexivity|].
  rewrite (H w) by (left; reflexivity). apply IH. intros x Hx. apply H. now right.
Qed.

Theorem resolve_no_symbols t line :
  (forall w, In w (words line) -> lookup t w = None) -> resolve_line t line = Ok line.
Proof.
  intros H. unfold resolve_line. cbn [resolve].
  rewrite loop_no_symbols by exact H. reflexivity.
Qed.

(* uses that precede the definition are left untouched: the empty table changes nothing *)
Corollary resolve_empty_table line : resolve_line [] line = Ok line.
Proof. apply resolve_no_symbols. intros w _. reflexivity. Qed.

(* defining a symbol twice is rejected *)
Theorem create_symbol_duplicate t n v v' :
  lookup t n = Some v -> create_symbol t n v' = Rejected.
Proof. intros H. unfold create_symbol. now rewrite H. Qed.

Theorem create_symbol_fresh t n v :
  lookup t n = None -> create_symbol t n v = Ok (t ++ [(n, v)]).
Proof. intros H. unfold create_symbol. now rewrite H. Qed.

(* a symbol whose replacement text mentions itself is rejected, not expanded forever *)
Theorem resolve_direct_cycle t w v :
  lookup t w = Some v -> words v = [w] -> words w = [w] ->
  resolve_line t w = Rejected.
Proof.
  intros Hl Hv Hw. unfold resolve_line. cbn [resolve]. rewrite Hw, Hl. cbn [mem existsb].
  destruct (length t) as [|n] eqn:E.
  - destruct t; [discriminate | cbn in E; discriminate].
  - cbn [resolve]. rewrite Hv, Hl. cbn [mem existsb].
    assert (Hrefl : str_eqb w w = true) by (apply list_eqb_refl; apply Z.eqb_refl).
    rewrite Hrefl. reflexivity.
Qed.

(* SubstProofs.v — facts about the symbol-substitution model (Subst.v). *)
From BA Require Import Base Expr Subst.
Local Open Scope Z_scope.

Definition unseg (g : seg) : str := match g with SWord x => x | SSep c => [c] end.
Definition unsegs (l : list seg) : str := flat_map unseg l.

(* cutting a line into word runs and separators loses nothing *)
Lemma segs_aux_unsegs s : forall cur, unsegs (segs_aux s cur) = rev cur ++ s.
Proof.
  induction s as [|c r IH]; intros cur; cbn [segs_aux].
  - rewrite app_nil_r. destruct cur; cbn; [reflexivity | now rewrite app_nil_r].
  - destruct (is_word c).
    + rewrite IH. cbn [rev]. now rewrite <- app_assoc.
    + unfold unsegs. rewrite flat_map_app. cbn [flat_map unseg].
      fold (unsegs (segs_aux r [])). rewrite IH. cbn [rev app].
      destruct cur as [|x cur']; cbn [flush flat_map]; [reflexivity|].
      cbn [unseg]. now rewrite app_nil_r.
Qed.

Lemma segs_unsegs s : unsegs (segs s) = s.
Proof. unfold segs. now rewrite segs_aux_unsegs. Qed.

Lemma str_eqb_eq a b : str_eqb a b = true -> a = b.
Proof.
  revert b; induction a as [|x a IH]; intros [|y b]; cbn; try discriminate; [reflexivity|].
  intros H. apply andb_prop in H as [H1 H2]. apply Z.eqb_eq in H1. subst. f_equal. now apply IH.
Qed.

(* whole-word replacement leaves every other segment — in particular every identifier that merely
   contains the symbol's name — untouched and in place *)
Theorem replace_word_segments w repl line :
  replace_word w repl line
  = flat_map (fun g => match g with
                       | SWord x => if str_eqb x w then repl else x
                       | SSep c => [c]
                       end) (segs line).
Proof. reflexivity. Qed.

Lemma flat_map_ext_in' {A B} (f g : A -> list B) l :
  (forall a, In a l -> f a = g a) -> flat_map f l = flat_map g l.
Proof.
  induction l as [|a l IH]; intros H; cbn [flat_map]; [reflexivity|].
  rewrite H by (left; reflexivity). rewrite IH; [reflexivity|]. intros b Hb. apply H. now right.
Qed.

Theorem replace_word_absent w repl line :
  (forall x, In (SWord x) (segs line) -> str_eqb x w = false) ->
  replace_word w repl line = line.
Proof.
  intros H. unfold replace_word. rewrite <- (segs_unsegs line) at 2. unfold unsegs.
  apply flat_map_ext_in'. intros [x|c] Hin; cbn [unseg]; [|reflexivity].
  now rewrite (H x Hin).
Qed.

(* a line none of whose words is a defined symbol is left exactly as it is *)
Lemma loop_no_symbols t resolved f : forall ws line replaced,
  (forall w, In w ws -> lookup t w = None) ->
  (fix loop (ws : list str) (line : str) (replaced : list str) : result (str * list str) :=
     match ws with
     | [] => Ok (line, replaced)
     | w :: r =>
         match lookup t w with
         | None => loop r line replaced
         | Some v =>
             if mem w resolved then Rejected
             else match resolve f t (w :: resolved) v with
                  | Ok repl => loop r (replace_word w repl line) (w :: replaced)
                  | Rejected => Rejected
                  | OutOfFuel => OutOfFuel
                  end
         end
     end) ws line replaced = Ok (line, replaced).
Proof.
  induction ws as [|w ws IH]; intros line replaced H; [reflexivity|].
  rewrite (H w) by (left; reflexivity). apply IH. intros x Hx. apply H. now right.
Qed.

Theorem resolve_no_symbols t line :
  (forall w, In w (words line) -> lookup t w = None) -> resolve_line t line = Ok line.
Proof.
  intros H. unfold resolve_line. cbn [resolve].
  rewrite loop_no_symbols by exact H. reflexivity.
Qed.

(* uses that precede the definition are left untouched: the empty table changes nothing *)
Corollary resolve_empty_table line : resolve_line [] line = Ok line.
Proof. apply resolve_no_symbols. intros w _. reflexivity. Qed.

(* defining a symbol twice is rejected *)
Theorem create_symbol_duplicate t n v v' :
  lookup t n = Some v -> create_symbol t n v' = Rejected.
Proof. intros H. unfold create_symbol. now rewrite H. Qed.

Theorem create_symbol_fresh t n v :
  lookup t n = None -> create_symbol t n v = Ok (t ++ [(n, v)]).
Proof. intros H. unfold create_symbol. now rewrite H. Qed.

(* a symbol whose replacement text mentions itself is rejected, not expanded forever *)
Theorem resolve_direct_cycle t w v :
  lookup t w = Some v -> words v = [w] -> words w = [w] ->
  resolve_line t w = Rejected.
Proof.
  intros Hl Hv Hw. unfold resolve_line. cbn [resolve]. rewrite Hw, Hl. cbn [mem existsb].
  destruct (length t) as [|n] eqn:E.
  - destruct t; [discriminate | cbn in E; discriminate].
  - cbn [resolve]. rewrite Hv, Hl. cbn [mem existsb].
    assert (Hrefl : str_eqb w w = true) by (apply list_eqb_refl; apply Z.eqb_refl).
    rewrite Hrefl. reflexivity.
Qed.

(* ------------------------------------------------------------------------------------------ *)
(* the substitution fuel always suffices: every nested or repeated round adds at least one defined symbol to the
   set of symbols already resolved on the way, a symbol met again there is an error, and there are only |table|
   symbols *)

Local Open Scope nat_scope.

Definition unresolved (t : table) (resolved : list str) : nat :=
  length (filter (fun kv => negb (mem (fst kv) resolved)) t).

Lemma str_eqb_refl a : str_eqb a a = true.
Proof. unfold str_eqb. induction a as [|x a IH]; cbn; [reflexivity|]. now rewrite Z.eqb_refl. Qed.

Lemma lookup_in t w v : lookup t w = Some v -> exists v', In (w, v') t.
Proof.
  induction t as [|[k x] r IH]; cbn; [discriminate|].
  destruct (str_eqb k w) eqn:E.
  - intros _. apply str_eqb_eq in E. subst. exists x. now left.
  - intros H. destruct (IH H) as [v' Hv]. exists v'. now right.
Qed.

Lemma mem_app w a b : mem w (a ++ b) = mem w a || mem w b.
Proof. unfold mem. apply existsb_app. Qed.

Lemma filter_length_le {A} (f g : A -> bool) l :
  (forall x, In x l -> g x = true -> f x = true) -> length (filter g l) <= length (filter f l).
Proof.
  induction l as [|x l IH]; intros H; cbn; [lia|].
  assert (IH' : length (filter g l) <= length (filter f l)) by (apply IH; intros y Hy; apply H; now right).
  destruct (g x) eqn:Eg.
  - rewrite (H x (or_introl eq_refl) Eg). cbn. lia.
  - destruct (f x); cbn; lia.
Qed.

Lemma filter_length_lt {A} (f g : A -> bool) l x :
  (forall y, In y l -> g y = true -> f y = true) -> In x l -> f x = true -> g x = false ->
  length (filter g l) < length (filter f l).
Proof.
  induction l as [|y l IH]; intros H Hin Hf Hg; [destruct Hin|].
  cbn. destruct Hin as [->|Hin].
  - rewrite Hf, Hg. cbn.
    assert (length (filter g l) <= length (filter f l)) by (apply filter_length_le; intros z Hz; apply H; now right). lia.
  - assert (IH' : length (filter g l) < length (filter f l)) by (apply IH; auto; intros z Hz; apply H; now right).
    destruct (g y) eqn:Eg.
    + rewrite (H y (or_introl eq_refl) Eg). cbn. lia.
    + destruct (f y); cbn; lia.
Qed.

(* adding names to the resolved set never increases the count, and a defined name not yet in it decreases it *)
Lemma unresolved_mono t r1 r2 : (forall w, mem w r1 = true -> mem w r2 = true) -> unresolved t r2 <= unresolved t r1.
Proof.
  intros H. unfold unresolved. apply filter_length_le. intros [k v] _ Hg. cbn in *.
  destruct (mem k r1) eqn:E; [|reflexivity]. rewrite (H k E) in Hg. discriminate.
Qed.

Lemma unresolved_lt t r1 r2 w v :
  (forall x, mem x r1 = true -> mem x r2 = true) -> lookup t w = Some v -> mem w r1 = false -> mem w r2 = true ->
  unresolved t r2 < unresolved t r1.
Proof.
  intros H Hl H1 H2. destruct (lookup_in t w v Hl) as [v' Hin]. unfold unresolved.
  apply (filter_length_lt _ _ t (w, v')); auto.
  - intros [k x] _ Hg. cbn in *. destruct (mem k r1) eqn:E; [|reflexivity]. rewrite (H k E) in Hg. discriminate.
  - cbn. now rewrite H1.
  - cbn. now rewrite H2.
Qed.

Lemma mem_cons_self w l : mem w (w :: l) = true.
Proof. unfold mem. cbn. now rewrite str_eqb_refl. Qed.
Lemma mem_cons_keep x w l : mem x l = true -> mem x (w :: l) = true.
Proof. unfold mem. cbn. intros ->. apply orb_true_r. Qed.

Theorem resolve_fuel_suffices : forall fuel t resolved line,
  unresolved t resolved < fuel -> resolve fuel t resolved line <> OutOfFuel.
Proof.
  induction fuel as [|f IH]; intros t resolved line Hf; [lia|].
  cbn [resolve].
  (* the loop over the words of the line: never out of fuel; what it reports as replaced are defined names that were
     not in the resolved set *)
  assert (Hloop : forall ws ln replaced,
    (forall x, In x replaced -> (exists v, lookup t x = Some v) /\ mem x resolved = false) ->
    match (fix loop (ws : list str) (line : str) (replaced : list str) : result (str * list str) :=
             match ws with
             | [] => Ok (line, replaced)
             | w :: r =>
                 match lookup t w with
                 | None => loop r line replaced
                 | Some v =>
                     if mem w resolved then Rejected
                     else match resolve f t (w :: resolved) v with
                          | Ok repl => loop r (replace_word w repl line) (w :: replaced)
                          | Rejected => Rejected
                          | OutOfFuel => OutOfFuel
                          end
                 end
             end) ws ln replaced with
    | Ok (_, replaced') => forall x, In x replaced' -> (exists v, lookup t x = Some v) /\ mem x resolved = false
    | Rejected => True
    | OutOfFuel => False
    end).
  { induction ws as [|w ws IHw]; intros ln replaced Hrep; [exact Hrep|].
    destruct (lookup t w) as [v|] eqn:El; [|apply IHw; exact Hrep].
    destruct (mem w resolved) eqn:Em; [exact I|].
    assert (Hlt : unresolved t (w :: resolved) < f).
    { assert (unresolved t (w :: resolved) < unresolved t resolved).
      { apply (unresolved_lt t resolved (w :: resolved) w v); auto using mem_cons_keep, mem_cons_self. }
      lia. }
    pose proof (IH t (w :: resolved) v Hlt) as Hne.
    destruct (resolve f t (w :: resolved) v) as [repl| |]; [|exact I|now elim Hne].
    apply IHw. intros x [<-|Hx]; [split; [eauto | exact Em] | apply Hrep; exact Hx]. }
  specialize (Hloop (words line) line [] ltac:(intros x [])).
  destruct ((fix loop (ws : list str) (line0 : str) (replaced : list str) : result (str * list str) := _) (words line) line [])
    as [[line' replaced']| |]; [|discriminate|contradiction].
  destruct replaced' as [|w rest]; [discriminate|].
  apply IH.
  destruct (Hloop w (or_introl eq_refl)) as [[v Hv] Hm].
  assert (unresolved t (resolved ++ w :: rest) < unresolved t resolved).
  { apply (unresolved_lt t resolved _ w v); auto.
    - intros x Hx. rewrite mem_app, Hx. reflexivity.
    - rewrite mem_app, mem_cons_self. apply orb_true_r. }
  lia.
Qed.

Corollary resolve_line_never_out_of_fuel t line : resolve_line t line <> OutOfFuel.
Proof.
  unfold resolve_line. apply resolve_fuel_suffices. unfold unresolved.
  pose proof (filter_length_le (fun _ => true) (fun kv : str * str => negb (mem (fst kv) [])) t (fun _ _ _ => eq_refl)) as H.
  assert (length (filter (fun _ : str * str => true) t) = length t) by (induction t as [|a t' IHt]; cbn; [reflexivity | now rewrite IHt]). lia.
Qed.

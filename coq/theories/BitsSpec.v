(* BitsSpec.v — declarative specification of an instruction's bit layout (property C01).
   Nothing here mentions the packer's cursor; it is the "bit string" of the property statement. *)
From BA Require Export Bits.

(* the n low bits of v (two's complement for negative v), most significant first *)
Fixpoint bits_desc (v : Z) (n : nat) : list bool :=
  match n with
  | O => []
  | S k => Z.testbit v (Z.of_nat k) :: bits_desc v k
  end.

(* little-endian field of r bits: bytes from least to most significant, each written MSB-first,
   the most significant (possibly partial) byte last; [fuel] = number of bytes *)
Fixpoint le_bits (v : Z) (r : Z) (fuel : nat) : list bool :=
  match fuel with
  | O => []
  | S k => if r <=? 8 then bits_desc v (Z.to_nat r)
           else bits_desc v 8 ++ le_bits (v / 256) (r - 8) k
  end.

Definition field_bits (v size : Z) (e : endian) : list bool :=
  match e with
  | Big => bits_desc v (Z.to_nat size)
  | Little => le_bits v size (nbytes size)
  end.

(* zero bits inserted before a byte-aligned field that would start at bit position pos *)
Definition align_pad (pos : Z) (aligned : bool) : Z :=
  if aligned then (8 - pos mod 8) mod 8 else 0.

(* the bit string of a list of fields, the first field starting at bit position pos *)
Fixpoint layout (pos : Z) (ps : list part) : list bool :=
  match ps with
  | [] => []
  | p :: rest =>
      let pad := align_pad pos (p_align p) in
      repeat false (Z.to_nat pad)
      ++ field_bits (p_value p) (p_size p) (p_endian p)
      ++ layout (pos + pad + p_size p) rest
  end.

(* a bit string as bytes: MSB-first, zero-padded to a whole number of bytes.
   acc = bits gathered for the current byte, k = bits still missing in it *)
Fixpoint bytes_of_bits_aux (bs : list bool) (acc : Z) (k : nat) : list Z :=
  match bs with
  | [] => if Nat.eqb k 8 then [] else [acc * 2 ^ Z.of_nat k]
  | b :: r =>
      let acc' := 2 * acc + Z.b2z b in
      match k with
      | 1%nat => acc' :: bytes_of_bits_aux r 0 8
      | S k' => bytes_of_bits_aux r acc' k'
      | O => []
      end
  end.
Definition bytes_of_bits (bs : list bool) : list Z := bytes_of_bits_aux bs 0 8.

Definition spec_bytes (ps : list part) : list Z := bytes_of_bits (layout 0 ps).

(* the value fits the signed-or-unsigned range of a field of [size] bits *)
Definition fits_width (size v : Z) : Prop := - 2 ^ (size - 1) <= v < 2 ^ size.

Definition part_ok (p : part) : Prop := 0 < p_size p /\ fits_width (p_size p) (p_value p).

(* Bits.v — implementation model of
     src/bespokeasm/assembler/bytecode/packed_bits.py   (PackedBits.append_bits / get_bytes)
     src/bespokeasm/assembler/bytecode/assembled.py     (AssembledInstruction.__init__ size loop, get_bytes)
     src/bespokeasm/assembler/bytecode/parts.py         (CompositeByteCodePart.get_value)
   written to mirror the Python statement by statement.  No proofs here. *)
From BA Require Export Base.

Inductive endian := Big | Little.
Definition endian_eqb (a b : endian) : bool :=
  match a, b with Big, Big => true | Little, Little => true | _, _ => false end.

(* ---------- int.to_bytes(n, byteorder, signed=(value < 0)) ---------- *)

Fixpoint to_bytes_le (v : Z) (n : nat) : list Z :=
  match n with
  | O => []
  | S k => (v mod 256) :: to_bytes_le (v / 256) k
  end.

(* Python raises OverflowError outside these ranges *)
Definition to_bytes_fits (v : Z) (n : nat) : bool :=
  if v <? 0 then (- 2 ^ (8 * Z.of_nat n - 1) <=? v) || (Nat.eqb n 0 && (v =? -1))   (* CPython accepts (-1).to_bytes(0) *)
  else (v <? 2 ^ (8 * Z.of_nat n)).

Definition to_bytes (v : Z) (n : nat) (e : endian) : result (list Z) :=
  if to_bytes_fits v n then
    Ok (match e with Little => to_bytes_le v n | Big => rev (to_bytes_le v n) end)
  else Rejected.

(* math.ceil(bit_size/8) *)
Definition nbytes (size : Z) : nat := Z.to_nat ((size + 7) / 8).

(* ---------- PackedBits ---------- *)

(* _bytes = rev (cur :: done_rev); _cur_byte_idx = length done_rev; _cur_bit_idx = bit *)
Record pstate := { done_rev : list Z; cur : Z; bit : Z }.

Definition p_init : pstate := {| done_rev := []; cur := 0; bit := 7 |}.

Definition new_byte (s : pstate) : pstate :=
  {| done_rev := cur s :: done_rev s; cur := 0; bit := 7 |}.

(* inner loop body of append_bits for one bit value b *)
Definition push_bit (s : pstate) (b : bool) : pstate :=
  let s1 := if bit s <? 0 then new_byte s else s in
  {| done_rev := done_rev s1;
     cur := Z.lor (cur s1) (Z.shiftl (Z.b2z b) (bit s1));
     bit := bit s1 - 1 |}.

(* bits of one value byte from bit_start down to 0:  ((byte & (1<<i)) >> i) *)
Fixpoint byte_bits_from (byte : Z) (n : nat) : list bool :=   (* n = bit_start + 1 *)
  match n with
  | O => []
  | S k => Z.testbit byte (Z.of_nat k) :: byte_bits_from byte k
  end.

(* bit_start = (bit_size+7) % 8 on the "first" byte (index 0 for big, last index for little), else 7 *)
Definition first_count (size : Z) : nat := Z.to_nat ((size + 7) mod 8 + 1).

Fixpoint value_bits_big (bs : list Z) (size : Z) (is_first : bool) : list bool :=
  match bs with
  | [] => []
  | b :: rest => byte_bits_from b (if is_first then first_count size else 8%nat)
                 ++ value_bits_big rest size false
  end.

Fixpoint value_bits_little (bs : list Z) (size : Z) : list bool :=
  match bs with
  | [] => []
  | [b] => byte_bits_from b (first_count size)
  | b :: rest => byte_bits_from b 8%nat ++ value_bits_little rest size
  end.

Definition value_bits (bs : list Z) (size : Z) (e : endian) : list bool :=
  match e with Big => value_bits_big bs size true | Little => value_bits_little bs size end.

Definition align_step (s : pstate) (aligned : bool) : pstate :=
  if aligned && (bit s <? 7) then new_byte s else s.

(* fix D4 (bit-width range check) is mirrored here: see Bits.v/[width_fits] *)
Definition width_fits (v size : Z) : bool :=
  (- 2 ^ (size - 1) <=? v) && (v <? 2 ^ size).

Definition append_bits (s : pstate) (v size : Z) (aligned : bool) (e : endian) : result pstate :=
  if negb (width_fits v size) then Rejected else
  do vb <- to_bytes v (nbytes size) e;
  Ok (fold_left push_bit (value_bits vb size e) (align_step s aligned)).

Definition p_bytes (s : pstate) : list Z := rev (cur s :: done_rev s).

(* ---------- AssembledInstruction ---------- *)

Record part := { p_value : Z; p_size : Z; p_align : bool; p_endian : endian }.

Definition total_bits_step (tb : Z) (p : part) : Z :=
  (if p_align p then (if negb (tb mod 8 =? 0) then tb + (8 - tb mod 8) else tb) else tb) + p_size p.

Definition total_bits (ps : list part) : Z := fold_left total_bits_step ps 0.

Definition byte_size (ps : list part) : Z := (total_bits ps + 7) / 8.

Fixpoint append_parts (s : pstate) (ps : list part) : result pstate :=
  match ps with
  | [] => Ok s
  | p :: rest => do s' <- append_bits s (p_value p) (p_size p) (p_align p) (p_endian p);
                 append_parts s' rest
  end.

(* get_bytes: pack all parts, then `if len(bytes) != byte_size: return None` (which the caller
   turns into a TypeError, i.e. a rejection) *)
Definition get_bytes (ps : list part) : result (list Z) :=
  do s <- append_parts p_init ps;
  let bs := p_bytes s in
  if Z.of_nat (length bs) =? byte_size ps then Ok bs else Rejected.

(* ---------- CompositeByteCodePart.get_value ---------- *)

Fixpoint from_bytes_big (bs : list Z) (acc : Z) : Z :=
  match bs with [] => acc | b :: r => from_bytes_big r (acc * 256 + b) end.
Definition from_bytes (bs : list Z) (e : endian) : Z :=
  match e with Big => from_bytes_big bs 0 | Little => from_bytes_big (rev bs) 0 end.

Definition composite_value (subs : list (Z * Z)) (e : endian) : result Z :=   (* (value, size) *)
  do s <- append_parts p_init
            (map (fun vs => {| p_value := fst vs; p_size := snd vs; p_align := false; p_endian := e |}) subs);
  let total := fold_left (fun a vs => a + snd vs) subs 0 in
  let v := from_bytes (p_bytes s) e in
  Ok (if negb (total mod 8 =? 0) then Z.shiftr v (8 - total mod 8) else v).

(* BitsProofs.v — the packer model (Bits.v) refines the bit-layout specification (BitsSpec.v). *)
From BA Require Import Base Bits BitsSpec.
From Coq Require Import ZifyBool.
Ltac Zify.zify_post_hook ::= Z.to_euclidean_division_equations.

Local Open Scope Z_scope.

(* ------------------------------------------------------------------------------------------ *)
(* bits of a byte                                                                              *)

Definition bits8 (b : Z) : list bool := bits_desc b 8.

Lemma byte_bits_from_eq b n : byte_bits_from b n = bits_desc b n.
Proof. induction n as [|n IH]; cbn; [reflexivity|]. now rewrite IH. Qed.

Lemma bits_desc_length v n : length (bits_desc v n) = n.
Proof. induction n as [|n IH]; cbn; [reflexivity|]. now rewrite IH. Qed.

Lemma bits_desc_ext v w n :
  (forall i, 0 <= i < Z.of_nat n -> Z.testbit v i = Z.testbit w i) -> bits_desc v n = bits_desc w n.
Proof.
  induction n as [|n IH]; intros H; cbn [bits_desc]; [reflexivity|].
  f_equal; [apply H; lia | apply IH; intros i Hi; apply H; lia].
Qed.

Lemma bits_desc_mod256 v n : (n <= 8)%nat -> bits_desc (v mod 256) n = bits_desc v n.
Proof.
  intros Hn. apply bits_desc_ext. intros i Hi.
  change 256 with (2 ^ 8). apply Z.mod_pow2_bits_low. lia.
Qed.

Lemma testbit_div256 v i : 0 <= i -> Z.testbit (v / 256) i = Z.testbit v (i + 8).
Proof.
  intros Hi. change 256 with (2 ^ 8). rewrite <- Z.shiftr_div_pow2 by lia.
  now rewrite Z.shiftr_spec by lia.
Qed.

Lemma bits_desc_app v n m :
  bits_desc v (n + m) = bits_desc (Z.shiftr v (Z.of_nat m)) n ++ bits_desc v m.
Proof.
  induction n as [|n IH]; cbn [bits_desc Nat.add app]; [reflexivity|].
  rewrite IH. f_equal. rewrite Z.shiftr_spec by lia. f_equal. lia.
Qed.

Lemma bits_desc_add8 v n : bits_desc v (n + 8) = bits_desc (v / 256) n ++ bits_desc v 8.
Proof.
  rewrite bits_desc_app. change (Z.of_nat 8) with 8. rewrite Z.shiftr_div_pow2 by lia. reflexivity.
Qed.

Lemma bits_desc_skipn v n m : skipn n (bits_desc v (n + m)) = bits_desc v m.
Proof.
  rewrite bits_desc_app. rewrite skipn_app, bits_desc_length, Nat.sub_diag.
  rewrite skipn_all2 by (rewrite bits_desc_length; lia). reflexivity.
Qed.

(* value of a bit list read MSB-first *)
Definition bits_val (l : list bool) : Z := fold_left (fun a b => 2 * a + Z.b2z b) l 0.

Lemma in_seq_Z (P : Z -> bool) n :
  forallb (fun k => P (Z.of_nat k)) (seq 0 n) = true -> forall b, 0 <= b < Z.of_nat n -> P b = true.
Proof.
  intros H b Hb. rewrite forallb_forall in H.
  specialize (H (Z.to_nat b)). rewrite Z2Nat.id in H by lia. apply H. apply in_seq. lia.
Qed.

Lemma bits8_val b : 0 <= b < 256 -> bits_val (bits8 b) = b.
Proof.
  intros Hb.
  pose proof (in_seq_Z (fun b => bits_val (bits8 b) =? b) 256) as H.
  assert (Hc : forallb (fun k => bits_val (bits8 (Z.of_nat k)) =? Z.of_nat k) (seq 0 256) = true)
    by (vm_compute; reflexivity).
  specialize (H Hc b Hb). lia.
Qed.

(* ------------------------------------------------------------------------------------------ *)
(* bytes_of_bits on whole bytes and on a final partial byte                                     *)

Lemma bytes_of_bits_aux_byte b rest :
  0 <= b < 256 -> bytes_of_bits_aux (bits8 b ++ rest) 0 8 = b :: bytes_of_bits_aux rest 0 8.
Proof.
  intros Hb. pose proof (bits8_val b Hb) as Hv.
  unfold bits8 in *. cbn [bits_desc app bytes_of_bits_aux] in *.
  unfold bits_val in Hv. cbn [fold_left] in Hv.
  f_equal. lia.
Qed.

Lemma bytes_of_bits_bytes l rest :
  Forall (fun b => 0 <= b < 256) l ->
  bytes_of_bits_aux (concat (map bits8 l) ++ rest) 0 8 = l ++ bytes_of_bits_aux rest 0 8.
Proof.
  induction 1 as [|b l Hb Hl IH]; cbn [map concat app]; [reflexivity|].
  rewrite <- app_assoc, bytes_of_bits_aux_byte by exact Hb. now rewrite IH.
Qed.

(* a last byte c of which only the k high bits have been written (its low 8-k bits are clear) *)
Definition partial_ok (c : Z) (k : nat) : bool :=
  match bytes_of_bits_aux (firstn k (bits8 c)) 0 8 with
  | [c'] => c' =? c
  | _ => false
  end.

Lemma partial_byte_table :
  forallb (fun c => forallb (fun k => negb (Z.of_nat c mod 2 ^ (8 - Z.of_nat k) =? 0) || partial_ok (Z.of_nat c) k)
                            (seq 1 8)) (seq 0 256) = true.
Proof. vm_compute. reflexivity. Qed.

Lemma bytes_of_bits_partial c k :
  0 <= c < 256 -> (1 <= k <= 8)%nat -> c mod 2 ^ (8 - Z.of_nat k) = 0 ->
  bytes_of_bits_aux (firstn k (bits8 c)) 0 8 = [c].
Proof.
  intros Hc Hk Hz.
  pose proof partial_byte_table as T. rewrite forallb_forall in T.
  specialize (T (Z.to_nat c)). rewrite Z2Nat.id in T by lia.
  assert (Hin : In (Z.to_nat c) (seq 0 256)) by (apply in_seq; lia).
  specialize (T Hin). rewrite forallb_forall in T.
  specialize (T k). assert (Hink : In k (seq 1 8)) by (apply in_seq; lia).
  specialize (T Hink). rewrite Hz in T. cbn [Z.eqb negb orb] in T.
  unfold partial_ok in T.
  destruct (bytes_of_bits_aux (firstn k (bits8 c)) 0 8) as [|c' [|? ?]]; try discriminate.
  f_equal. lia.
Qed.

(* ------------------------------------------------------------------------------------------ *)
(* the packer state as "bits written so far"                                                    *)

Definition state_bits (s : pstate) : list bool :=
  concat (map bits8 (rev (done_rev s))) ++ firstn (Z.to_nat (7 - bit s)) (bits8 (cur s)).

Record wf (s : pstate) : Prop := {
  wf_bit : -1 <= bit s <= 7;
  wf_cur : 0 <= cur s < 256;
  wf_low : cur s mod 2 ^ (bit s + 1) = 0;
  wf_done : Forall (fun b => 0 <= b < 256) (done_rev s)
}.

Lemma wf_init : wf p_init.
Proof. constructor; cbn; try lia. constructor. Qed.

Lemma state_bits_init : state_bits p_init = [].
Proof. reflexivity. Qed.

Lemma wf_new_byte s : wf s -> wf (new_byte s).
Proof.
  intros [Hb Hc Hl Hd]. constructor; cbn; try lia. constructor; assumption.
Qed.

(* the unwritten low bits of cur are zero, so closing the byte appends (bit+1) zero bits *)
Lemma bits8_low_zero_table :
  forallb (fun c => forallb (fun k =>
     negb (Z.of_nat c mod 2 ^ (Z.of_nat k) =? 0)
     || list_eqb Bool.eqb (bits8 (Z.of_nat c)) (firstn (8 - k) (bits8 (Z.of_nat c)) ++ repeat false k))
     (seq 0 9)) (seq 0 256) = true.
Proof. vm_compute. reflexivity. Qed.

Lemma list_eqb_bool_eq (a b : list bool) : list_eqb Bool.eqb a b = true -> a = b.
Proof.
  revert b; induction a as [|x a IH]; intros [|y b]; cbn; try discriminate; [reflexivity|].
  intros H. apply andb_prop in H as [H1 H2]. apply Bool.eqb_prop in H1. subst. f_equal. now apply IH.
Qed.

Lemma bits8_low_zero c k :
  0 <= c < 256 -> (k <= 8)%nat -> c mod 2 ^ Z.of_nat k = 0 ->
  bits8 c = firstn (8 - k) (bits8 c) ++ repeat false k.
Proof.
  intros Hc Hk Hz.
  pose proof bits8_low_zero_table as T. rewrite forallb_forall in T.
  specialize (T (Z.to_nat c)). rewrite Z2Nat.id in T by lia.
  assert (Hin : In (Z.to_nat c) (seq 0 256)) by (apply in_seq; lia).
  specialize (T Hin). rewrite forallb_forall in T.
  specialize (T k). assert (Hink : In k (seq 0 9)) by (apply in_seq; lia).
  specialize (T Hink). rewrite Hz in T. cbn [Z.eqb negb orb] in T.
  now apply list_eqb_bool_eq.
Qed.

Lemma state_bits_new_byte s :
  wf s -> state_bits (new_byte s) = state_bits s ++ repeat false (Z.to_nat (bit s + 1)).
Proof.
  intros [Hb Hc Hl Hd]. unfold state_bits, new_byte. cbn [done_rev cur bit rev].
  rewrite map_app, concat_app. cbn [map concat]. rewrite app_nil_r.
  change (Z.to_nat (7 - 7)) with 0%nat. cbn [firstn]. rewrite app_nil_r.
  rewrite <- app_assoc. f_equal.
  rewrite (bits8_low_zero (cur s) (Z.to_nat (bit s + 1))) at 1; try lia.
  - f_equal. f_equal. lia.
  - rewrite Z2Nat.id by lia. exact Hl.
Qed.

(* one pushed bit *)
Lemma push_bit_table :
  forallb (fun c => forallb (fun k => forallb (fun b : bool =>
     negb (Z.of_nat c mod 2 ^ (Z.of_nat k + 1) =? 0)
     || (let c' := Z.lor (Z.of_nat c) (Z.shiftl (Z.b2z b) (Z.of_nat k)) in
         (c' <? 256) && (c' mod 2 ^ (Z.of_nat k) =? 0)
         && list_eqb Bool.eqb (firstn (8 - k) (bits8 c')) (firstn (7 - k) (bits8 (Z.of_nat c)) ++ [b])))
     [true; false]) (seq 0 8)) (seq 0 256) = true.
Proof. vm_compute. reflexivity. Qed.

Lemma push_bit_byte c k b :
  0 <= c < 256 -> 0 <= k <= 7 -> c mod 2 ^ (k + 1) = 0 ->
  let c' := Z.lor c (Z.shiftl (Z.b2z b) k) in
  0 <= c' < 256 /\ c' mod 2 ^ k = 0 /\
  firstn (Z.to_nat (7 - (k - 1))) (bits8 c') = firstn (Z.to_nat (7 - k)) (bits8 c) ++ [b].
Proof.
  intros Hc Hk Hz c'.
  pose proof push_bit_table as T. rewrite forallb_forall in T.
  specialize (T (Z.to_nat c)). rewrite Z2Nat.id in T by lia.
  assert (Hin : In (Z.to_nat c) (seq 0 256)) by (apply in_seq; lia).
  specialize (T Hin). rewrite forallb_forall in T.
  specialize (T (Z.to_nat k)). rewrite Z2Nat.id in T by lia.
  assert (Hink : In (Z.to_nat k) (seq 0 8)) by (apply in_seq; lia).
  specialize (T Hink). rewrite forallb_forall in T.
  specialize (T b). assert (Hinb : In b [true; false]) by (destruct b; cbn; auto).
  specialize (T Hinb). rewrite Hz in T. cbn [Z.eqb negb orb] in T. fold c' in T.
  apply andb_prop in T as [T12 T3]. apply andb_prop in T12 as [T1 T2].
  apply list_eqb_bool_eq in T3.
  assert (Hnn : 0 <= c').
  { unfold c'. apply Z.lor_nonneg. split; [lia|]. apply Z.shiftl_nonneg. destruct b; cbn; lia. }
  repeat split; try lia.
  replace (Z.to_nat (7 - (k - 1))) with (8 - Z.to_nat k)%nat by lia.
  replace (Z.to_nat (7 - k)) with (7 - Z.to_nat k)%nat by lia. exact T3.
Qed.

Lemma push_bit_spec s b :
  wf s -> wf (push_bit s b) /\ state_bits (push_bit s b) = state_bits s ++ [b] /\ bit (push_bit s b) < 7.
Proof.
  intros Hwf. unfold push_bit.
  destruct (bit s <? 0) eqn:Hneg.
  - (* a new byte is started first *)
    pose proof (wf_new_byte s Hwf) as Hwf'.
    pose proof (state_bits_new_byte s Hwf) as Hsb.
    destruct Hwf as [Hb Hc Hl Hd].
    assert (Hbit : bit s = -1) by lia.
    rewrite Hbit in Hsb. cbn [Z.add Z.to_nat repeat] in Hsb. rewrite app_nil_r in Hsb.
    destruct Hwf' as [Hb' Hc' Hl' Hd'].
    pose proof (push_bit_byte (cur (new_byte s)) (bit (new_byte s)) b Hc' ltac:(cbn; lia) Hl') as [P1 [P2 P3]].
    split; [|split].
    + constructor; cbn [bit cur done_rev].
      * cbn [new_byte bit]. lia.
      * exact P1.
      * replace (bit (new_byte s) - 1 + 1) with (bit (new_byte s)) by lia. exact P2.
      * exact Hd'.
    + rewrite <- Hsb. unfold state_bits at 1 2. cbn [done_rev cur bit].
      rewrite <- app_assoc. f_equal. exact P3.
    + cbn. lia.
  - destruct Hwf as [Hb Hc Hl Hd].
    pose proof (push_bit_byte (cur s) (bit s) b Hc ltac:(lia) Hl) as [P1 [P2 P3]].
    split; [|split].
    + constructor; cbn [bit cur done_rev].
      * lia.
      * exact P1.
      * replace (bit s - 1 + 1) with (bit s) by lia. exact P2.
      * exact Hd.
    + unfold state_bits. cbn [done_rev cur bit]. rewrite <- app_assoc. f_equal. exact P3.
    + cbn. lia.
Qed.

Lemma push_bits_spec bs : forall s,
  wf s -> wf (fold_left push_bit bs s) /\ state_bits (fold_left push_bit bs s) = state_bits s ++ bs
          /\ (bs <> [] -> bit (fold_left push_bit bs s) < 7).
Proof.
  induction bs as [|b bs IH]; intros s Hwf; cbn [fold_left].
  - split; [exact Hwf|]. split; [now rewrite app_nil_r | intros H; now elim H].
  - destruct (push_bit_spec s b Hwf) as [H1 [H2 H3]].
    destruct (IH _ H1) as [I1 [I2 I3]].
    split; [exact I1|]. split.
    + rewrite I2, H2, <- app_assoc. reflexivity.
    + intros _. destruct bs as [|b' bs']; [exact H3 | apply I3; discriminate].
Qed.

(* position = number of bits written *)
Lemma state_bits_length s :
  wf s -> Z.of_nat (length (state_bits s)) = 8 * Z.of_nat (length (done_rev s)) + (7 - bit s).
Proof.
  intros [Hb Hc Hl Hd]. unfold state_bits. rewrite app_length.
  unfold bits8 at 2. rewrite firstn_length, (bits_desc_length (cur s) 8).
  assert (Hcc : forall l : list Z, length (concat (map bits8 l)) = (8 * length l)%nat).
  { induction l as [|x l IH]; cbn [map concat length]; [reflexivity|].
    rewrite app_length, IH. unfold bits8. rewrite bits_desc_length. lia. }
  rewrite Hcc, rev_length. lia.
Qed.

Lemma align_step_spec s a :
  wf s ->
  wf (align_step s a) /\
  state_bits (align_step s a)
  = state_bits s ++ repeat false (Z.to_nat (align_pad (Z.of_nat (length (state_bits s))) a)).
Proof.
  intros Hwf. pose proof (state_bits_length s Hwf) as Hlen.
  unfold align_step, align_pad. destruct a; cbn [andb].
  - destruct (bit s <? 7) eqn:Hlt.
    + split; [now apply wf_new_byte|]. rewrite state_bits_new_byte by exact Hwf.
      f_equal. f_equal. destruct Hwf as [Hb _ _ _]. rewrite Hlen. f_equal. lia.
    + split; [exact Hwf|]. destruct Hwf as [Hb _ _ _].
      replace (Z.to_nat _) with 0%nat by (rewrite Hlen; lia). cbn. now rewrite app_nil_r.
  - split; [exact Hwf|]. cbn. now rewrite app_nil_r.
Qed.

(* ------------------------------------------------------------------------------------------ *)
(* the bits written for one value are the field's bits                                         *)

Lemma to_bytes_le_length v n : length (to_bytes_le v n) = n.
Proof. revert v; induction n as [|n IH]; intros v; cbn; [reflexivity|]. now rewrite IH. Qed.

Lemma value_bits_big_app l b size first :
  l <> [] -> value_bits_big (l ++ [b]) size first = value_bits_big l size first ++ bits_desc b 8.
Proof.
  revert first. induction l as [|x l IH]; intros first Hne; [now elim Hne|].
  cbn [app value_bits_big]. destruct l as [|y l].
  - cbn [app value_bits_big]. rewrite !byte_bits_from_eq, !app_nil_r. reflexivity.
  - rewrite (IH false) by discriminate. now rewrite app_assoc.
Qed.

Lemma value_bits_big_full v n :
  value_bits_big (rev (to_bytes_le v n)) 0 false = bits_desc v (n * 8).
Proof.
  revert v. induction n as [|n IH]; intros v; [reflexivity|].
  cbn [to_bytes_le rev]. destruct n as [|n'].
  - cbn [to_bytes_le rev app value_bits_big]. rewrite byte_bits_from_eq, app_nil_r.
    apply bits_desc_mod256. lia.
  - rewrite value_bits_big_app.
    + rewrite IH. replace (S (S n') * 8)%nat with (S n' * 8 + 8)%nat by lia.
      rewrite bits_desc_add8. f_equal. apply bits_desc_mod256. lia.
    + intros H. apply (f_equal (@length Z)) in H. rewrite rev_length, to_bytes_le_length in H. discriminate.
Qed.

Lemma value_bits_big_size_irrelevant l s1 s2 : value_bits_big l s1 false = value_bits_big l s2 false.
Proof. induction l as [|x l IH]; cbn; [reflexivity|]. now rewrite IH. Qed.

Lemma bits_desc_skipn' v a b : (b <= a)%nat -> skipn (a - b) (bits_desc v a) = bits_desc v b.
Proof. intros H. replace a with ((a - b) + b)%nat at 2 by lia. apply bits_desc_skipn. Qed.

Lemma value_bits_big_first l size :
  l <> [] ->
  value_bits_big l size true = skipn (8 - first_count size) (value_bits_big l size false).
Proof.
  destruct l as [|x l]; intros H; [now elim H|]. cbn [value_bits_big].
  rewrite !byte_bits_from_eq.
  assert (Hfc : (first_count size <= 8)%nat) by (unfold first_count; lia).
  rewrite skipn_app, bits_desc_length.
  replace (8 - first_count size - 8)%nat with 0%nat by lia. cbn [skipn].
  f_equal. symmetry. apply bits_desc_skipn'. exact Hfc.
Qed.

Lemma nbytes_pos size : 0 < size -> (1 <= nbytes size)%nat /\
  (nbytes size * 8 = (8 - first_count size) + Z.to_nat size)%nat.
Proof. intros H. unfold nbytes, first_count. split; lia. Qed.

Lemma value_bits_big_correct v size :
  0 < size -> value_bits (rev (to_bytes_le v (nbytes size))) size Big = bits_desc v (Z.to_nat size).
Proof.
  intros Hs. destruct (nbytes_pos size Hs) as [Hn Heq]. cbn [value_bits].
  rewrite value_bits_big_first.
  - rewrite (value_bits_big_size_irrelevant _ size 0), value_bits_big_full, Heq.
    apply bits_desc_skipn.
  - intros H. apply (f_equal (@length Z)) in H. rewrite rev_length, to_bytes_le_length in H. cbn in H. lia.
Qed.

Lemma value_bits_little_correct n : forall v size,
  0 < size -> nbytes size = n ->
  value_bits_little (to_bytes_le v n) size = le_bits v size n.
Proof.
  induction n as [|n IH]; intros v size Hs Hn; [reflexivity|].
  cbn [to_bytes_le le_bits].
  destruct n as [|n'].
  - (* single (last) byte *)
    cbn [to_bytes_le value_bits_little]. rewrite byte_bits_from_eq.
    assert (Hle : size <= 8) by (unfold nbytes in Hn; lia).
    destruct (size <=? 8) eqn:E; [|lia].
    replace (first_count size) with (Z.to_nat size) by (unfold first_count; lia).
    apply bits_desc_mod256. lia.
  - assert (Hgt : 8 < size) by (unfold nbytes in Hn; lia).
    destruct (size <=? 8) eqn:E; [lia|].
    change (value_bits_little (v mod 256 :: to_bytes_le (v / 256) (S n')) size)
      with (byte_bits_from (v mod 256) 8 ++ value_bits_little (to_bytes_le (v / 256) (S n')) size).
    rewrite byte_bits_from_eq, bits_desc_mod256 by lia. f_equal.
    (* the remaining bytes: same first_count for size and size-8 *)
    assert (Hfc : first_count size = first_count (size - 8)) by (unfold first_count; f_equal; lia).
    assert (Hvl : forall l, value_bits_little l size = value_bits_little l (size - 8)).
    { induction l as [|x l IHl]; [reflexivity|]. cbn [value_bits_little]. destruct l as [|y l].
      - now rewrite Hfc.
      - now rewrite IHl. }
    rewrite Hvl. apply IH; [lia|]. unfold nbytes in *. lia.
Qed.

Lemma width_fits_to_bytes v size :
  0 < size -> width_fits v size = true -> to_bytes_fits v (nbytes size) = true.
Proof.
  intros Hs Hw. unfold width_fits in Hw. apply andb_prop in Hw as [H1 H2].
  unfold to_bytes_fits.
  assert (Hn : size <= 8 * Z.of_nat (nbytes size)) by (unfold nbytes; lia).
  destruct (v <? 0) eqn:E.
  - assert (2 ^ (size - 1) <= 2 ^ (8 * Z.of_nat (nbytes size) - 1)) by (apply Z.pow_le_mono_r; lia). lia.
  - assert (2 ^ size <= 2 ^ (8 * Z.of_nat (nbytes size))) by (apply Z.pow_le_mono_r; lia). lia.
Qed.

Lemma append_bits_spec s v size a e :
  wf s -> 0 < size -> width_fits v size = true ->
  exists s', append_bits s v size a e = Ok s' /\ wf s' /\ bit s' < 7 /\
    state_bits s' = state_bits s
                    ++ repeat false (Z.to_nat (align_pad (Z.of_nat (length (state_bits s))) a))
                    ++ field_bits v size e.
Proof.
  intros Hwf Hs Hw. unfold append_bits. rewrite Hw. cbn [negb].
  unfold to_bytes. rewrite (width_fits_to_bytes v size Hs Hw). cbn [bind].
  destruct (align_step_spec s a Hwf) as [Hwa Hsa].
  set (vb := match e with Little => _ | Big => _ end).
  assert (Hvb : value_bits vb size e = field_bits v size e).
  { unfold vb. destruct e; cbn [field_bits].
    - now apply value_bits_big_correct.
    - cbn [value_bits]. now apply value_bits_little_correct. }
  destruct (push_bits_spec (value_bits vb size e) _ Hwa) as [P1 [P2 P3]].
  eexists. split; [reflexivity|]. split; [exact P1|]. split.
  - apply P3. rewrite Hvb. destruct e; cbn [field_bits].
    + intros H. apply (f_equal (@length bool)) in H. rewrite bits_desc_length in H. cbn in H. lia.
    + destruct (nbytes_pos size Hs) as [Hn _]. destruct (nbytes size) as [|k]; [lia|].
      cbn [le_bits]. destruct (size <=? 8) eqn:E.
      * intros H. apply (f_equal (@length bool)) in H. rewrite bits_desc_length in H. cbn in H. lia.
      * cbn. discriminate.
  - rewrite P2, Hsa, Hvb, <- app_assoc. reflexivity.
Qed.

Lemma append_bits_rejects s v size a e :
  width_fits v size = false -> append_bits s v size a e = Rejected.
Proof. intros H. unfold append_bits. now rewrite H. Qed.

Definition part_okb (p : part) : bool := (0 <? p_size p) && width_fits (p_value p) (p_size p).

Lemma part_okb_iff p : part_okb p = true <-> part_ok p.
Proof.
  unfold part_okb, part_ok, fits_width, width_fits. split.
  - intros H. apply andb_prop in H as [H1 H2]. apply andb_prop in H2 as [H2 H3]. lia.
  - intros [H1 [H2 H3]]. apply andb_true_intro. split; [lia|]. apply andb_true_intro. split; lia.
Qed.

Lemma le_bits_length n : forall v r,
  0 < r -> nbytes r = n -> length (le_bits v r n) = Z.to_nat r.
Proof.
  induction n as [|n IH]; intros v r Hr Hn; [unfold nbytes in Hn; lia|].
  cbn [le_bits]. destruct (r <=? 8) eqn:E.
  - apply bits_desc_length.
  - rewrite app_length, bits_desc_length, IH; [lia | lia | unfold nbytes in *; lia].
Qed.

Lemma field_bits_length v size e : 0 < size -> Z.of_nat (length (field_bits v size e)) = size.
Proof.
  intros Hs. destruct e; cbn [field_bits].
  - rewrite bits_desc_length. lia.
  - rewrite (le_bits_length (nbytes size)) by (auto; lia). lia.
Qed.

Lemma align_pad_nonneg pos a : 0 <= align_pad pos a.
Proof. unfold align_pad. destruct a; lia. Qed.

Lemma append_parts_spec ps : forall s,
  wf s -> Forall part_ok ps ->
  exists s', append_parts s ps = Ok s' /\ wf s' /\ (ps <> [] -> bit s' < 7) /\
    state_bits s' = state_bits s ++ layout (Z.of_nat (length (state_bits s))) ps.
Proof.
  induction ps as [|p ps IH]; intros s Hwf Hall.
  - exists s. cbn. split; [reflexivity|]. split; [exact Hwf|]. split; [intros H; now elim H|].
    now rewrite app_nil_r.
  - inversion Hall as [|? ? Hp Hps]; subst. destruct Hp as [Hsz Hfit].
    assert (Hw : width_fits (p_value p) (p_size p) = true).
    { unfold width_fits, fits_width in *. apply andb_true_intro; split; lia. }
    destruct (append_bits_spec s (p_value p) (p_size p) (p_align p) (p_endian p) Hwf Hsz Hw)
      as [s1 [E1 [W1 [B1 S1]]]].
    destruct (IH s1 W1 Hps) as [s2 [E2 [W2 [B2 S2]]]].
    exists s2. cbn [append_parts]. rewrite E1. cbn [bind]. split; [exact E2|]. split; [exact W2|]. split.
    + intros _. destruct ps as [|q qs]; [cbn in E2; inversion E2; subst; exact B1 | apply B2; discriminate].
    + rewrite S2, S1. cbn [layout]. rewrite <- !app_assoc. f_equal. f_equal. f_equal.
      f_equal. rewrite !app_length, repeat_length.
      pose proof (field_bits_length (p_value p) (p_size p) (p_endian p) Hsz) as Hfl.
      pose proof (align_pad_nonneg (Z.of_nat (length (state_bits s))) (p_align p)) as Hpad.
      lia.
Qed.

(* ------------------------------------------------------------------------------------------ *)
(* final bytes                                                                                 *)

Lemma p_bytes_spec s :
  wf s -> bit s < 7 -> p_bytes s = bytes_of_bits (state_bits s).
Proof.
  intros [Hb Hc Hl Hd] Hlt. unfold p_bytes, bytes_of_bits, state_bits. cbn [rev].
  rewrite bytes_of_bits_bytes by (apply Forall_rev; exact Hd).
  f_equal. symmetry. apply bytes_of_bits_partial; [exact Hc | lia |].
  replace (8 - Z.of_nat (Z.to_nat (7 - bit s))) with (bit s + 1) by lia. exact Hl.
Qed.

Lemma bytes_of_bits_aux_length bs : forall acc k,
  (1 <= k <= 8)%nat ->
  Z.of_nat (length (bytes_of_bits_aux bs acc k)) = (Z.of_nat (length bs) + (8 - Z.of_nat k) + 7) / 8.
Proof.
  induction bs as [|b bs IH]; intros acc k Hk; cbn [bytes_of_bits_aux length].
  - destruct (Nat.eqb_spec k 8) as [->|Hne]; cbn [length]; lia.
  - destruct k as [|[|k']]; [lia| |].
    + cbn [length]. rewrite Nat2Z.inj_succ, IH by lia. lia.
    + rewrite IH by lia. lia.
Qed.

Lemma bytes_of_bits_length bs : Z.of_nat (length (bytes_of_bits bs)) = (Z.of_nat (length bs) + 7) / 8.
Proof. unfold bytes_of_bits. rewrite bytes_of_bits_aux_length by lia. cbn. f_equal. lia. Qed.

Lemma layout_length ps : forall pos,
  0 <= pos -> Forall part_ok ps ->
  pos + Z.of_nat (length (layout pos ps)) = fold_left total_bits_step ps pos.
Proof.
  induction ps as [|p ps IH]; intros pos Hpos Hall; cbn [layout fold_left length]; [lia|].
  inversion Hall as [|? ? [Hsz Hfit] Hps]; subst.
  rewrite !app_length, repeat_length.
  pose proof (field_bits_length (p_value p) (p_size p) (p_endian p) Hsz) as Hfl.
  pose proof (align_pad_nonneg pos (p_align p)) as Hpad.
  assert (Hstep : total_bits_step pos p = pos + align_pad pos (p_align p) + p_size p).
  { unfold total_bits_step, align_pad. destruct (p_align p); [|lia].
    destruct (pos mod 8 =? 0) eqn:E; cbn [negb]; lia. }
  rewrite Hstep. rewrite <- IH by (try assumption; lia). lia.
Qed.

Theorem pack_correct ps :
  ps <> [] -> Forall part_ok ps ->
  get_bytes ps = Ok (spec_bytes ps) /\ Z.of_nat (length (spec_bytes ps)) = byte_size ps.
Proof.
  intros Hne Hall.
  destruct (append_parts_spec ps p_init wf_init Hall) as [s [E [W [B S]]]].
  rewrite state_bits_init in S. cbn [app length] in S. change (Z.of_nat 0) with 0 in S.
  assert (Hlen : Z.of_nat (length (spec_bytes ps)) = byte_size ps).
  { unfold spec_bytes, byte_size, total_bits. rewrite bytes_of_bits_length.
    rewrite <- (layout_length ps 0) by (auto; lia). f_equal. }
  split; [|exact Hlen].
  unfold get_bytes. rewrite E. cbn [bind].
  rewrite (p_bytes_spec s W (B Hne)), S. fold (spec_bytes ps).
  rewrite Hlen, Z.eqb_refl. reflexivity.
Qed.

Theorem pack_accepts ps : ps <> [] -> Forall part_ok ps -> is_ok (get_bytes ps) = true.
Proof. intros H1 H2. destruct (pack_correct ps H1 H2) as [E _]. rewrite E. reflexivity. Qed.

Lemma append_parts_rejects ps : forall s,
  Exists (fun p => width_fits (p_value p) (p_size p) = false) ps -> ~ is_ok (append_parts s ps) = true.
Proof.
  induction ps as [|p ps IH]; intros s Hex; [inversion Hex|].
  cbn [append_parts]. inversion Hex as [? ? Hbad | ? ? Hlater]; subst.
  - rewrite append_bits_rejects by exact Hbad. cbn. discriminate.
  - destruct (append_bits s (p_value p) (p_size p) (p_align p) (p_endian p)) as [s'| |]; cbn [bind is_ok];
      [now apply IH | discriminate | discriminate].
Qed.

(* a value that does not fit its field's width is never assembled *)
Theorem pack_rejects_overflow ps :
  Exists (fun p => ~ fits_width (p_size p) (p_value p)) ps -> is_ok (get_bytes ps) = false.
Proof.
  intros Hex. unfold get_bytes.
  assert (Hex' : Exists (fun p => width_fits (p_value p) (p_size p) = false) ps).
  { apply Exists_exists in Hex as [p [Hin Hbad]]. apply Exists_exists. exists p. split; [exact Hin|].
    unfold width_fits, fits_width in *. destruct (- 2 ^ (p_size p - 1) <=? p_value p) eqn:E1;
      destruct (p_value p <? 2 ^ p_size p) eqn:E2; cbn; try reflexivity. exfalso. apply Hbad. lia. }
  pose proof (append_parts_rejects ps p_init Hex') as Hno.
  destruct (append_parts p_init ps) as [s| |]; cbn [bind is_ok] in *; [now elim Hno | reflexivity | reflexivity].
Qed.

(* alignment: a byte-aligned field starts on a byte boundary of the specified bit string *)
Theorem aligned_field_on_byte_boundary pos :
  0 <= pos -> (pos + align_pad pos true) mod 8 = 0 /\ 0 <= align_pad pos true < 8
              /\ align_pad pos false = 0.
Proof. intros Hpos. unfold align_pad. lia. Qed.

(* composite of sub-fields: the value packs the sub-values MSB-first *)
Example pack_example :
  get_bytes [ {| p_value := 5; p_size := 3; p_align := false; p_endian := Big |};
              {| p_value := 0x1A3; p_size := 12; p_align := false; p_endian := Little |};
              {| p_value := -2; p_size := 4; p_align := true; p_endian := Big |} ]
  = Ok [0xB4; 0x62; 0xE0].
Proof. vm_compute. reflexivity. Qed.

(* Match.v — implementation model of operand matching and instruction encoding:
     Operand types' parse_operand                     (model/operand/types/*.py)
     OperandSet (alternatives sorted by type priority)  (model/operand_set.py)
     OperandParser / SpecificOperandsModel / OperandSetsModel / MatchedOperandSet.generate_bytecode (model/operand_parser.py)
     InstructionBytecodeGenerator                     (bytecode/generator/instruction.py)
     MacroBytecodeGenerator placeholder substitution   (bytecode/generator/macro.py)
   An operand is the token list of its text (expression tokens plus brackets, braces and decorator characters);
   the generated grammar is described in harness/sysisa.py.  No proofs here. *)
From BA Require Export Base Bits Expr Subst Layout Program.
Open Scope Z_scope.

Inductive otok := OT (t : token) | OLBr | ORBr | OLCu | ORCu | OBang | OAt.
Definition operand := list otok.

Inductive dec := DPlus | DPlusPlus | DMinus | DMinusMinus | DBang | DAt.
Definition dec_toks (d : dec) : list otok :=
  match d with
  | DPlus => [OT (TOp OAdd)]
  | DPlusPlus => [OT (TOp OAdd); OT (TOp OAdd)]
  | DMinus => [OT (TOp OSub)]
  | DMinusMinus => [OT (TOp OSub); OT (TOp OSub)]
  | DBang => [OBang]
  | DAt => [OAt]
  end.

Record argcfg := { a_size : Z; a_align : bool; a_endian : endian }.

Inductive position := PosPrefix | PosSuffix.

(* index operands of (indirect) indexed register operands: registers and numeric expressions only *)
Inductive idxcfg :=
| IdxReg (r : str) (code : option (Z * Z))                         (* (value, size) *)
| IdxNum (code : option (Z * Z)) (a : argcfg)
| IdxNumBc (size mn mx : Z).                                       (* numeric_bytecode: the index value is the code *)

Inductive idxcode := ICNone | ICConst (c : Z * Z) | ICExpr (e : expr) (mx mn size : Z).

Inductive okind :=
| KRegister (r : str) (d : option (dec * bool))                    (* decorator, is_prefix *)
| KIndexedReg (r : str) (idx : list idxcfg)
| KIndirectReg (r : str) (d : option (dec * bool)) (offset : option argcfg)
| KIndirectIndexedReg (r : str) (d : option (dec * bool)) (idx : list idxcfg)
| KNumeric (a : argcfg) (valid : option (Z * Z))                   (* valid_address: GLOBAL bounds *)
| KIndirectNumeric (a : argcfg) (valid : option (Z * Z))
| KDeferredNumeric (a : argcfg) (valid : option (Z * Z))
| KEnumeration (code_dict : option (list (str * Z))) (arg_dict : list (str * Z)) (a : argcfg)
| KNumericEnum (code_dict : option (list (Z * Z))) (arg_dict : option (list (Z * Z))) (a : option argcfg)
| KNumericBytecode (mn mx : Z)
| KAddress (a : argcfg) (bounds : option (Z * Z)) (slice msb : bool)
| KRelative (a : argcfg) (curly : bool) (mn mx : option Z) (from_end : bool) (bounds : option (Z * Z))
| KEmpty.

Record opcfg := {
  op_id : str;
  op_kind : okind;
  op_code : option Z;        (* bytecode.value, when the operand has a fixed code *)
  op_code_size : Z;          (* bytecode.size (0 when there is no bytecode section) *)
  op_pos : position
}.

(* OperandType values: the sort key inside an operand set *)
Definition kind_priority (k : okind) : Z :=
  match k with
  | KEmpty => 1
  | KIndirectReg _ _ _ => 2
  | KIndirectIndexedReg _ _ _ => 3
  | KIndirectNumeric _ _ => 4
  | KDeferredNumeric _ _ => 5
  | KIndexedReg _ _ => 6
  | KEnumeration _ _ _ | KNumericEnum _ _ _ => 7
  | KRegister _ _ => 8
  | KNumeric _ _ => 9
  | KAddress _ _ _ _ => 10
  | KRelative _ _ _ _ _ _ => 11
  | KNumericBytecode _ _ => 12
  end.

(* ---------- helpers on operand token lists ---------- *)

(* [lower], [str_eqb_ci] and [reg_mem] live in Subst.v *)

Definition otok_eqb (a b : otok) : bool :=
  match a, b with
  | OT (TOp x), OT (TOp y) => binop_eqb x y
  | OLBr, OLBr | ORBr, ORBr | OLCu, OLCu | ORCu, ORCu | OBang, OBang | OAt, OAt => true
  | _, _ => false
  end.

Fixpoint strip_prefix (p l : list otok) : option (list otok) :=
  match p, l with
  | [], _ => Some l
  | x :: p', y :: l' => if otok_eqb x y then strip_prefix p' l' else None
  | _, [] => None
  end.
Definition strip_suffix (p l : list otok) : option (list otok) :=
  match strip_prefix (rev p) (rev l) with Some r => Some (rev r) | None => None end.

(* remove the configured decorator from the front / back of the operand *)
Definition undecorate (d : option (dec * bool)) (l : list otok) : option (list otok) :=
  match d with
  | None => Some l
  | Some (dc, true) => strip_prefix (dec_toks dc) l
  | Some (dc, false) => strip_suffix (dec_toks dc) l
  end.

(* [ inner ] *)
Definition unbracket (l : list otok) : option (list otok) :=
  match l with
  | OLBr :: r => match rev r with ORBr :: inner_rev => Some (rev inner_rev) | _ => None end
  | _ => None
  end.
Definition uncurly (l : list otok) : option (list otok) :=
  match l with
  | OLCu :: r => match rev r with ORCu :: inner_rev => Some (rev inner_rev) | _ => None end
  | _ => None
  end.

(* the operand consists of expression tokens only *)
Fixpoint plain_tokens (l : list otok) : option (list token) :=
  match l with
  | [] => Some []
  | OT t :: r => match plain_tokens r with Some ts => Some (t :: ts) | None => None end
  | _ :: _ => None
  end.
Definition has_square (l : list otok) : bool := existsb (fun t => match t with OLBr | ORBr => true | _ => false end) l.
Definition has_brace (l : list otok) : bool := existsb (fun t => match t with OLCu | ORCu => true | _ => false end) l.

Fixpoint expr_labels (e : expr) : list str :=
  match e with
  | ENum _ => []
  | ELabel s => [s]
  | ENeg a => expr_labels a
  | EFun _ a => expr_labels a
  | EBin _ a b => expr_labels a ++ expr_labels b
  end.
Definition mentions_register (regs : list str) (e : expr) : bool := existsb (fun n => reg_mem n regs) (expr_labels e).

(* outcome of trying one operand alternative on one operand text *)
Record matched := {
  m_id : str;
  m_pos : position;
  m_code : option ipart;
  m_arg : option ipart;
  m_argtoks : option (list token);     (* argument.instruction_string, for @ARG *)
  m_reg : option str;                  (* operand_register_string, for @REG *)
  m_text : operand                     (* operand_string, for @OP *)
}.
Inductive pres := PMatch (m : matched) | PNo | PAbort.

Fixpoint kdict_get (d : list (str * Z)) (k : str) : option Z :=
  match d with [] => None | (a, v) :: r => if str_eqb a k then Some v else kdict_get r k end.

Definition code_part (value size : Z) : ipart :=
  {| ip_val := VNum value; ip_size := size; ip_align := false; ip_endian := Big |}.
Definition fixed_code (o : opcfg) : option ipart :=
  match op_code o with Some v => Some (code_part v (op_code_size o)) | None => None end.
Definition arg_part (pv : pval) (a : argcfg) : ipart :=
  {| ip_val := pv; ip_size := a_size a; ip_align := a_align a; ip_endian := a_endian a |}.

Definition mk (o : opcfg) (code arg : option ipart) (argtoks : option (list token)) (reg : option str) (txt : operand) : pres :=
  PMatch {| m_id := op_id o; m_pos := op_pos o; m_code := code; m_arg := arg; m_argtoks := argtoks; m_reg := reg; m_text := txt |}.

(* a numeric-style argument: parse the tokens; a syntax error is "no match" or an abort depending on the caller *)
Definition numeric_arg (regs : list str) (o : opcfg) (a : argcfg) (valid : option (Z * Z)) (catch_syntax : bool)
           (ts : list token) (txt : operand) : pres :=
  match parse_tokens ts with
  | Ok e => if mentions_register regs e then PNo
            else mk o (fixed_code o)
                      (Some (arg_part (match valid with Some b => VZone e (Some b) | None => VExpr e end) a))
                      (Some ts) None txt
  | _ => PNo          (* SyntaxError: caught by the operand type itself or by the matching loop -> no match *)
  end.

(* index operand of an (indirect) indexed register operand *)
Definition idx_priority (i : idxcfg) : Z := match i with IdxReg _ _ => 8 | IdxNum _ _ => 9 | IdxNumBc _ _ _ => 12 end.

Fixpoint insert_idx (x : idxcfg) (l : list idxcfg) : list idxcfg :=
  match l with
  | [] => [x]
  | y :: r => if idx_priority y <=? idx_priority x then y :: insert_idx x r else x :: l
  end.
(* list.sort(key=type.value): stable *)
Definition sort_idx (l : list idxcfg) : list idxcfg := fold_left (fun acc x => insert_idx x acc) l [].

(* does the index text match one of the alternatives of the combined index pattern? *)
Definition idx_pattern_matches (i : idxcfg) (ts : list token) : bool :=
  match i with
  | IdxReg r _ => match ts with [TLabel x] => str_eqb_ci x r | _ => false end
  | IdxNum _ _ => negb (Nat.eqb (length ts) 0)
  | IdxNumBc _ _ _ => Nat.eqb (length ts) 1        (* its pattern is that of a single expression token *)
  end.

(* parse the index text with one index operand: Some (code (value,size), argument part, its tokens) *)
Definition idx_parse (regs : list str) (i : idxcfg) (ts : list token)
  : (idxcode * option ipart * option (list token)) + bool :=     (* inr true = abort, inr false = no match *)
  let oc (c : option (Z * Z)) := match c with Some x => ICConst x | None => ICNone end in
  match i with
  | IdxReg r code => match ts with [TLabel x] => if str_eqb_ci x r then inl (oc code, None, None) else inr false | _ => inr false end
  | IdxNum code a =>
      match parse_tokens ts with
      | Ok e => if mentions_register regs e then inr false else inl (oc code, Some (arg_part (VExpr e) a), Some ts)
      | _ => inr false                                  (* SyntaxError is caught by NumericExpressionOperand.parse_operand *)
      end
  | IdxNumBc size mn mx =>
      match parse_tokens ts with
      | Ok e => if mentions_register regs e then inr false else inl (ICExpr e mx mn size, None, None)
      | _ => inr false                                  (* SyntaxError: the operand as a whole does not match (it is the last one tried) *)
      end
  end.

Fixpoint first_idx (regs : list str) (l : list idxcfg) (ts : list token)
  : option (idxcode * option ipart * option (list token)) :=
  match l with
  | [] => None
  | i :: r => match idx_parse regs i ts with inl x => Some x | inr _ => first_idx regs r ts end
  end.

Definition indexed_match (regs : list str) (o : opcfg) (r : str) (idx : list idxcfg) (inner : list otok) (txt : operand) : pres :=
  match plain_tokens inner with
  | Some (TLabel x :: TOp s :: rest) =>
      if negb (str_eqb_ci x r) then PNo else
      if negb (existsb (fun i => idx_pattern_matches i rest) idx) then PNo else
      match s with
      | OAdd =>
          match first_idx regs (sort_idx idx) rest with
          | Some (icode, iarg, itoks) =>
              let outer := match op_code o with Some v => (v, op_code_size o) | None => (0, 0) end in
              let code := match icode with
                          | ICConst ic => {| ip_val := VComposite [outer; ic]; ip_size := snd outer + snd ic; ip_align := false; ip_endian := Big |}
                          | ICExpr e mx mn isz => {| ip_val := VCompositeE outer e mx mn isz; ip_size := snd outer + isz; ip_align := false; ip_endian := Big |}
                          | ICNone => code_part (fst outer) (snd outer)
                          end in
              mk o (Some code) iarg itoks (Some r) txt
          | None => PNo
          end
      | OSub => PNo                                                (* only addition is supported when indexing *)
      | _ => PNo
      end
  | _ => PNo
  end.

Definition try_operand (regs : list str) (o : opcfg) (txt : operand) : pres :=
  match op_kind o with
  | KEmpty => mk o (fixed_code o) None None None txt
  | KRegister r d =>
      match undecorate d txt with
      | Some [OT (TLabel x)] => if str_eqb_ci x r then mk o (fixed_code o) None None (Some r) txt else PNo
      | _ => PNo
      end
  | KIndexedReg r idx => indexed_match regs o r idx txt txt
  | KIndirectIndexedReg r d idx =>
      match undecorate d txt with
      | Some body => match unbracket body with Some inner => indexed_match regs o r idx inner txt | None => PNo end
      | None => PNo
      end
  | KIndirectReg r d offset =>
      match undecorate d txt with
      | None => PNo
      | Some body =>
        match unbracket body with
        | None => PNo
        | Some inner =>
          match plain_tokens inner with
          | Some [TLabel x] =>
              if negb (str_eqb_ci x r) then PNo else
              mk o (fixed_code o)
                   (match offset with Some a => Some (arg_part (VNum 0) a) | None => None end)
                   (match offset with Some _ => Some [TNum 0] | None => None end) (Some r) txt
          | Some (TLabel x :: TOp s :: rest) =>
              if negb (str_eqb_ci x r) then PNo else
              match s, rest with
              | (OAdd | OSub), _ :: _ =>
                  match offset with
                  | None => PNo                                      (* an offset for an operand configured without one: no match (D42) *)
                  | Some a =>
                      let ats := match s with OSub => TNum 0 :: TOp OSub :: rest | _ => rest end in
                      match parse_tokens ats with
                      | Ok e => if mentions_register regs e then PNo
                                else mk o (fixed_code o) (Some (arg_part (VExpr e) a)) (Some ats) (Some r) txt
                      | _ => PNo                                     (* SyntaxError: no match *)
                      end
                  end
              | _, _ => PNo
              end
          | _ => PNo
          end
        end
      end
  | KNumeric a valid =>
      if has_square txt || has_brace txt then PNo else
      match plain_tokens txt with
      | Some ts => numeric_arg regs o a valid true ts txt
      | None => PNo                                                  (* stray '!' / '@': unrecognised characters -> SyntaxError -> no match *)
      end
  | KAddress a b slice msb =>
      if has_square txt || has_brace txt then PNo else
      match plain_tokens txt with
      | Some ts =>
          match parse_tokens ts with
          | Ok e => if mentions_register regs e then PNo
                    else mk o (fixed_code o) (Some (arg_part (VAddr e b slice (slice && msb)) a)) (Some ts) None txt
          | _ => PNo
          end
      | None => PNo
      end
  | KIndirectNumeric a valid =>
      match unbracket txt with
      | Some inner => match plain_tokens inner with
                      | Some ts => match ts with [] => PNo | _ => numeric_arg regs o a valid false ts txt end
                      | None => PNo
                      end
      | None => PNo
      end
  | KDeferredNumeric a valid =>
      match unbracket txt with
      | Some inner1 =>
          match unbracket inner1 with
          | Some inner => match plain_tokens inner with
                          | Some ts => match ts with [] => PNo | _ => numeric_arg regs o a valid false ts txt end
                          | None => PNo
                          end
          | None => PNo
          end
      | None => PNo
      end
  | KEnumeration code_dict arg_dict a =>
      (* re.match(r'^\b(k1|k2|..)\b$', text): the operand is exactly one of the argument dictionary's keys *)
      match txt with
      | [OT (TLabel k)] =>
          match kdict_get arg_dict k with
          | None => PNo
          | Some av =>
              let code := match code_dict with
                          | Some cd => match kdict_get cd k with Some cv => Some (code_part cv (op_code_size o)) | None => None end
                          | None => None
                          end in
              mk o code (Some (arg_part (VNum av) a)) (Some [TNum av]) None txt
          end
      | _ => PNo
      end
  | KNumericEnum code_dict arg_dict a =>
      if has_square txt || has_brace txt then PNo else
      match plain_tokens txt with
      | Some ts =>
          match ts with
          | [] => PNo
          | _ =>
            match code_dict, arg_dict with
            | None, None => PNo
            | _, _ =>
              match parse_tokens ts with
              | Ok e =>
                  if mentions_register regs e then PNo else
                  mk o (match code_dict with
                        | Some cd => Some {| ip_val := VEnum e cd; ip_size := op_code_size o; ip_align := false; ip_endian := Big |}
                        | None => None end)
                       (match arg_dict, a with
                        | Some ad, Some ac => Some (arg_part (VEnum e ad) ac)
                        | _, _ => None end)
                       (match arg_dict with Some _ => Some ts | None => None end) None txt
              | _ => PNo
              end
            end
          end
      | None => PNo
      end
  | KNumericBytecode mn mx =>
      if has_square txt then PNo else
      match plain_tokens txt with
      | Some ts =>
          match parse_tokens ts with
          | Ok e => if mentions_register regs e then PNo
                    else mk o (Some {| ip_val := VValid e (Some mx) (Some mn); ip_size := op_code_size o; ip_align := false; ip_endian := Big |})
                              None None None txt
          | _ => PNo
          end
      | None => PNo                                                  (* braces / stray characters: SyntaxError -> no match *)
      end
  | KRelative a curly mn mx from_end b =>
      if has_square txt then PNo else
      let inner := if curly then uncurly txt else (if has_brace txt then None else Some txt) in
      match inner with
      | None => PNo
      | Some body =>
          match plain_tokens body with
          | Some ts =>
              match ts with
              | [] => PNo
              | _ => match parse_tokens ts with
                     | Ok e => if mentions_register regs e then PNo
                               else mk o (fixed_code o) (Some (arg_part (VRel e mn mx from_end b) a)) (Some ts) None txt
                     | _ => PNo
                     end
              end
          | None => PNo
          end
      end
  end.

(* ---------- operand sets ---------- *)

Fixpoint insert_op (x : opcfg) (l : list opcfg) : list opcfg :=
  match l with
  | [] => [x]
  | y :: r => if kind_priority (op_kind y) <=? kind_priority (op_kind x) then y :: insert_op x r else x :: l
  end.
Definition sort_ops (l : list opcfg) : list opcfg := fold_left (fun acc x => insert_op x acc) l [].

(* OperandSet.parse_operand: first alternative (in priority order) that matches *)
Fixpoint try_set (regs : list str) (ops : list opcfg) (txt : operand) : pres :=
  match ops with
  | [] => PNo
  | o :: r => match try_operand regs o txt with
              | PNo => try_set regs r txt
              | res => res
              end
  end.

Record specific := { sp_ops : list opcfg; sp_rev_arg : bool; sp_rev_code : bool }.
Record setsmodel := { sm_sets : list (list opcfg); sm_rev_arg : bool; sm_rev_code : bool; sm_disallowed : list (list str) }.

Record opparser := { pp_count : Z; pp_specific : option (list specific); pp_sets : option setsmodel }.

Record mset := { ms_ops : list matched; ms_rev_arg : bool; ms_rev_code : bool }.
Inductive mres := MOk (m : mset) | MNo | MAbort.

(* one specific operand configuration *)
Fixpoint match_specific_ops (regs : list str) (cfgs : list opcfg) (operands : list operand) (nulls : Z) (acc : list matched)
  : option (list matched * Z) + bool :=        (* inl None: this configuration does not match; inr true: abort; inr false: too few operands (return None from the whole scan) *)
  match cfgs with
  | [] => inl (Some (rev acc, nulls))
  | c :: rest =>
      match op_kind c with
      | KEmpty =>
          match try_operand regs c [] with
          | PMatch m => match_specific_ops regs rest operands (nulls + 1) (m :: acc)
          | PNo => inl None
          | PAbort => inr true
          end
      | _ =>
          match operands with
          | [] => inl None                               (* too few operands for this configuration: try the next one (D41) *)
          | t :: ts =>
              match try_operand regs c t with
              | PMatch m => match_specific_ops regs rest ts nulls (m :: acc)
              | PNo => inl None
              | PAbort => inr true
              end
          end
      end
  end.

Fixpoint find_specific (regs : list str) (sps : list specific) (operands : list operand) (count : Z) : mres :=
  match sps with
  | [] => MNo
  | sp :: rest =>
      if negb (Z.of_nat (length (sp_ops sp)) =? count) then MNo          (* wrong operand count: return None (fix D19 not applied) *)
      else match match_specific_ops regs (sp_ops sp) operands 0 [] with
           | inr true => MAbort
           | inr false => MNo
           | inl None => find_specific regs rest operands count
           | inl (Some (ms, nulls)) =>
               if (Z.of_nat (length operands) + nulls =? count) && (count =? Z.of_nat (length ms))
               then MOk {| ms_ops := ms; ms_rev_arg := sp_rev_arg sp; ms_rev_code := sp_rev_code sp |}
               else find_specific regs rest operands count
           end
  end.

Fixpoint match_sets (regs : list str) (sets : list (list opcfg)) (operands : list operand) (acc : list matched)
  : option (list matched) + unit :=              (* inr tt = abort *)
  match sets, operands with
  | [], [] => inl (Some (rev acc))
  | s :: ss, t :: ts =>
      match try_set regs (sort_ops s) t with
      | PMatch m => match_sets regs ss ts (m :: acc)
      | PNo => inl None
      | PAbort => inr tt
      end
  | _, _ => inl None
  end.

Definition ids_eqb (a b : list str) : bool := list_eqb str_eqb a b.

Definition find_sets (regs : list str) (sm : setsmodel) (operands : list operand) : mres :=
  if negb (Nat.eqb (length operands) (length (sm_sets sm))) then MNo else
  match match_sets regs (sm_sets sm) operands [] with
  | inr _ => MAbort
  | inl None => MNo
  | inl (Some ms) =>
      if existsb (ids_eqb (map m_id ms)) (sm_disallowed sm) then MNo
      else MOk {| ms_ops := ms; ms_rev_arg := sm_rev_arg sm; ms_rev_code := sm_rev_code sm |}
  end.

(* OperandParser.find_matching_operands *)
Definition find_matching (regs : list str) (pp : opparser) (operands : list operand) : mres :=
  if (pp_count pp =? 0) && Nat.eqb (length operands) 0
  then MOk {| ms_ops := []; ms_rev_arg := false; ms_rev_code := false |}
  else
    match (match pp_specific pp with Some sps => find_specific regs sps operands (pp_count pp) | None => MNo end) with
    | MOk m => MOk m
    | MAbort => MAbort
    | MNo => match pp_sets pp with Some sm => find_sets regs sm operands | None => MNo end
    end.

(* MatchedOperandSet.generate_bytecode *)
Definition generate_bytecode (m : mset) (base : ipart) (suffix : option ipart) : list ipart :=
  let sufs := flat_map (fun x => match m_code x, m_pos x with Some c, PosSuffix => [c] | _, _ => [] end) (ms_ops m) in
  let pres_ := fold_left (fun acc x => match m_code x, m_pos x with Some c, PosPrefix => c :: acc | _, _ => acc end) (ms_ops m) [] in
  let sufs := if ms_rev_code m then rev sufs else sufs in
  let pres_ := if ms_rev_code m then rev pres_ else pres_ in
  let args := flat_map (fun x => match m_arg x with Some a => [a] | None => [] end) (ms_ops m) in
  let args := if ms_rev_arg m then rev args else args in
  pres_ ++ [base] ++ sufs ++ (match suffix with Some s => [s] | None => [] end) ++ args.

Record variant := {
  v_opcode : Z; v_opsize : Z; v_endian : endian;          (* bytecode.endian or the ISA default *)
  v_suffix : option (Z * Z);
  v_parser : option opparser                               (* 'operands' section present? *)
}.

Definition variant_parts (regs : list str) (v : variant) (operands : list operand) : option (list ipart) + unit :=
  let base := {| ip_val := VNum (v_opcode v); ip_size := v_opsize v; ip_align := false; ip_endian := v_endian v |} in
  let suf := match v_suffix v with
             | Some (sv, ss) => Some {| ip_val := VNum sv; ip_size := ss; ip_align := false; ip_endian := v_endian v |}
             | None => None end in
  match v_parser v with
  | Some pp => match find_matching regs pp operands with
               | MOk m => inl (Some (generate_bytecode m base suf))
               | MNo => inl None
               | MAbort => inr tt
               end
  | None => match operands with
            | [] => inl (Some (base :: match suf with Some s => [s] | None => [] end))      (* fix D37: the suffix too *)
            | _ => inl None
            end
  end.

(* variants are tried in definition order; the first that accepts is used; none: "no valid operands" *)
Fixpoint select_variant (regs : list str) (vs : list variant) (operands : list operand) : result (list ipart) :=
  match vs with
  | [] => Rejected
  | v :: r => match variant_parts regs v operands with
              | inl (Some ps) => Ok ps
              | inl None => select_variant regs r operands
              | inr _ => Rejected
              end
  end.

(* ---------- macros ---------- *)

Inductive ttok := TT (t : otok) | PArg (n : nat) | PReg (n : nat) | POp (n : nat).
Record step := { st_mnemonic : str; st_operands : list (list ttok) }.
Record mvariant := { mv_parser : option opparser; mv_steps : list step }.

Definition subst_ttok (ms : list matched) (t : ttok) : option (list otok) :=
  match t with
  | TT x => Some [x]
  | PArg n => match nth_error ms n with
              | Some m => match m_argtoks m with Some ts => Some (map OT ts) | None => None end
              | None => None end
  | PReg n => match nth_error ms n with
              | Some m => match m_reg m with Some r => Some [OT (TLabel r)] | None => None end
              | None => None end
  | POp n => match nth_error ms n with Some m => Some (m_text m) | None => None end
  end.

Fixpoint subst_operand (ms : list matched) (l : list ttok) : option operand :=
  match l with
  | [] => Some []
  | t :: r => match subst_ttok ms t, subst_operand ms r with
              | Some a, Some b => Some (a ++ b)
              | _, _ => None
              end
  end.

Fixpoint subst_operands_raw (ms : list matched) (l : list (list ttok)) : option (list operand) :=
  match l with
  | [] => Some []
  | o :: r => match subst_operand ms o, subst_operands_raw ms r with
              | Some a, Some b => Some (a :: b)
              | _, _ => None
              end
  end.

(* the expanded step is text: when its only operand template expands to no text at all ("ldx @OP(0)" with an `empty`
   operand) the statement has no operands; with a comma in it, blank operands remain operands *)
Definition subst_operands (ms : list matched) (l : list (list ttok)) : option (list operand) :=
  match subst_operands_raw ms l with
  | Some [[]] => Some []
  | r => r
  end.

(* ---------- the instruction set ---------- *)

Inductive entry := EInstr (vs : list variant) | EMacro (vs : list mvariant).
Definition isa := list (str * entry).          (* mnemonic (lower case) -> definition *)

Fixpoint isa_get (i : isa) (mn : str) : option entry :=
  match i with [] => None | (k, e) :: r => if str_eqb k mn then Some e else isa_get r mn end.

(* one statement = mnemonic + operand texts; result: the assembled instructions (one for an instruction, one per step
   for a macro), each a list of parts *)
Fixpoint assemble_stmt (fuel : nat) (regs : list str) (i : isa) (mn : str) (operands : list operand)
  : result (list (list ipart)) :=
  match fuel with
  | O => OutOfFuel
  | S f =>
    match isa_get i (map lower mn) with
    | None => Rejected
    | Some (EInstr vs) => do ps <- select_variant regs vs operands; Ok [ps]
    | Some (EMacro mvs) =>
        (fix try_variants (mvs : list mvariant) : result (list (list ipart)) :=
           match mvs with
           | [] => Rejected
           | mv :: rest =>
               let matched_ops :=
                 match mv_parser mv with
                 | Some pp => match find_matching regs pp operands with
                              | MOk m => inl (Some (ms_ops m))
                              | MNo => inl None
                              | MAbort => inr tt
                              end
                 | None => match operands with [] => inl (Some []) | _ => inl None end
                 end in
               match matched_ops with
               | inr _ => Rejected
               | inl None => try_variants rest
               | inl (Some ms) =>
                   (fix run_steps (steps : list step) : result (list (list ipart)) :=
                      match steps with
                      | [] => Ok []
                      | s :: more =>
                          match subst_operands ms (st_operands s) with
                          | None => Rejected                     (* a placeholder that cannot be filled *)
                          | Some ops =>
                              do a <- assemble_stmt f regs i (st_mnemonic s) ops;
                              do b <- run_steps more;
                              Ok (a ++ b)
                          end
                      end) (mv_steps mv)
               end
           end) mvs
    end
  end.

(* Config.v — implementation model of ISA-definition validation and version gates:
     AssemblerModel._validate_config / __init__          (model/__init__.py)
     InstructionSet.__init__ (keywords, macro/instruction clash), InstructionVariant / OperandParser.validate,
     OperandSetsModel (unknown operand set), RegisterOperand (undeclared register), NumericBytecode (max < min),
     MemoryZone / MemoryZoneManager (zone ranges, GLOBAL vs origin), RequiredLanguageLine (#require).
   The definition is abstracted to the facts these checks look at (extracted from the YAML by the harness). No proofs. *)
From BA Require Export Base Expr Subst Layout Match.
Open Scope Z_scope.

(* ---------- versions (PEP 440 subset  N(.N)*((a|b|rc)N)? ) ---------- *)
Inductive prekind := PA | PB | PRC.
Record ver := { v_rel : list Z; v_pre : option (prekind * Z) }.

Fixpoint pad (l : list Z) (n : nat) : list Z :=
  match n with
  | O => []
  | S k => match l with [] => 0 :: pad [] k | x :: r => x :: pad r k end
  end.
Fixpoint lex_cmp (a b : list Z) : comparison :=
  match a, b with
  | x :: a', y :: b' => match Z.compare x y with Eq => lex_cmp a' b' | c => c end
  | [], [] => Eq
  | [], _ => Lt
  | _, [] => Gt
  end.
(* release segments compare numerically, missing components count as 0 *)
Definition cmp_rel (a b : list Z) : comparison :=
  let n := Nat.max (length a) (length b) in lex_cmp (pad a n) (pad b n).
Definition pre_rank (k : prekind) : Z := match k with PA => 0 | PB => 1 | PRC => 2 end.
(* a pre-release sorts before its release *)
Definition cmp_pre (a b : option (prekind * Z)) : comparison :=
  match a, b with
  | None, None => Eq
  | None, Some _ => Gt
  | Some _, None => Lt
  | Some (k1, n1), Some (k2, n2) => match Z.compare (pre_rank k1) (pre_rank k2) with Eq => Z.compare n1 n2 | c => c end
  end.
Definition ver_cmp (a b : ver) : comparison :=
  match cmp_rel (v_rel a) (v_rel b) with Eq => cmp_pre (v_pre a) (v_pre b) | c => c end.

Definition ver_le (a b : ver) : bool := match ver_cmp a b with Gt => false | _ => true end.

Definition RUNNING : ver := {| v_rel := [0; 4; 3]; v_pre := Some (PB, 1) |}.      (* BESPOKEASM_VERSION_STR = 0.4.3b1 *)
Definition MIN_SUPPORTED : ver := {| v_rel := [0; 3; 0]; v_pre := None |}.          (* BESPOKEASM_MIN_REQUIRED_STR *)

(* min_version gate: rejected if newer than the running assembler or older than the minimum supported format *)
Definition gate (required : ver) : bool :=
  negb (match ver_cmp required RUNNING with Gt => true | _ => false end)
  && negb (match ver_cmp required MIN_SUPPORTED with Lt => true | _ => false end).

(* #require "name op version" *)
Inductive reqop := RGe | RLe | RGt | RLt | REq.
Definition req_holds (op : reqop) (isa_version required : ver) : bool :=
  match op, ver_cmp isa_version required with
  | RGe, Lt => false | RGe, _ => true
  | RLe, Gt => false | RLe, _ => true
  | RGt, Gt => true | RGt, _ => false
  | RLt, Lt => true | RLt, _ => false
  | REq, Eq => true | REq, _ => false
  end.
Definition require_ok (name_matches : bool) (cond : option (reqop * ver)) (isa_version : ver) : bool :=
  name_matches && match cond with None => true | Some (op, v) => req_holds op isa_version v end.


(* ---------- version text ---------- *)
(* what packaging.version.parse makes of text in the subset  N(.N)*((a|b|rc)N)?  of PEP 440; None outside it *)
Fixpoint parse_rel (s : str) (cur : option Z) (acc : list Z) : option (list Z * str) :=
  match s with
  | [] => match cur with Some n => Some (rev (n :: acc), []) | None => None end
  | c :: r =>
      if is_digit c then parse_rel r (Some (match cur with Some n => 10 * n + (c - 48) | None => c - 48 end)) acc
      else if c =? 46 then
        match cur, r with
        | Some n, d :: _ => if is_digit d then parse_rel r None (n :: acc) else None
        | _, _ => None
        end
      else match cur with Some n => Some (rev (n :: acc), s) | None => None end
  end.

Definition all_digits (s : str) : bool := negb (Nat.eqb (length s) 0) && forallb is_digit s.
Definition dec_val (s : str) : Z := fold_left (fun a c => 10 * a + (c - 48)) s 0.

Definition parse_pre (s : str) : option (option (prekind * Z)) :=
  match s with
  | [] => Some None
  | 97 :: ds => if all_digits ds then Some (Some (PA, dec_val ds)) else None
  | 98 :: ds => if all_digits ds then Some (Some (PB, dec_val ds)) else None
  | 114 :: 99 :: ds => if all_digits ds then Some (Some (PRC, dec_val ds)) else None
  | _ => None
  end.

Definition parse_version (s : str) : option ver :=
  match parse_rel s None [] with
  | Some (rel, rest) => match parse_pre rest with Some p => Some {| v_rel := rel; v_pre := p |} | None => None end
  | None => None
  end.

(* ---------- the definition, as far as validation looks at it ---------- *)
Record vvariant := {
  vv_needs_bytecode : bool; vv_has_bytecode : bool;
  vv_has_operands : bool; vv_count : option Z;
  vv_sets : option (list str);
  vv_specific_lens : list Z
}.
Record vcfg := {
  vc_general : bool; vc_instructions : bool; vc_operand_sets : bool;
  vc_keywords : list str;
  vc_mnemonics : list str; vc_macros : list str; vc_registers : list str; vc_set_names : list str;
  vc_variants : list vvariant;
  vc_reg_operands : list str;
  vc_ranges : list (Z * Z);
  vc_addr_bits : Z; vc_zones : list (str * Z * Z); vc_origin : Z;
  vc_min_version : option (option ver)          (* None: no gate; Some None: not a version at all *)
}.

Definition variant_ok (set_names : list str) (v : vvariant) : bool :=
  (negb (vv_needs_bytecode v) || vv_has_bytecode v)
  && (negb (vv_has_operands v) ||
      match vv_count v with
      | None => false
      | Some c =>
          (match vv_sets v with
           | None => true
           | Some l => forallb (fun n => mem n set_names) l && (Z.of_nat (length l) =? c)
           end)
          && forallb (fun n => n =? c) (vv_specific_lens v)
      end).

Definition validate (c : vcfg) : bool :=
  vc_general c && vc_instructions c && vc_operand_sets c
  && forallb (fun m => negb (mem (map lower m) (map (map lower) (vc_keywords c)))) (vc_mnemonics c)
  && forallb (fun m => negb (mem (map lower m) (map (map lower) (vc_keywords c)))) (vc_macros c)
  && forallb (fun r => negb (mem (map lower r) (map (map lower) (vc_keywords c)))) (vc_registers c)      (* any letter case (D47) *)
  && forallb (fun m => negb (mem (map lower m) (map (map lower) (vc_mnemonics c)))) (vc_macros c)
  && forallb (variant_ok (vc_set_names c)) (vc_variants c)
  && forallb (fun r => mem r (vc_registers c)) (vc_reg_operands c)
  && forallb (fun r => fst r <=? snd r) (vc_ranges c)
  && is_ok (init_zones (vc_addr_bits c) (vc_origin c) (vc_zones c))
  && match vc_min_version c with None => true | Some None => false | Some (Some v) => gate v end.

(* keywords.py ASSEMBLER_KEYWORD_SET, as character codes: org memzone align fill zero zerountil byte 2byte 4byte 8byte cstr asciiz include require create_memzone define if elif else endif ifdef ifndef mute unmute emit LSB BYTE0 BYTE1 BYTE2 BYTE3 BYTE4 BYTE5 BYTE6 BYTE7 BYTE8 BYTE9 *)
Definition KEYWORDS : list str :=
  [[111; 114; 103];
   [109; 101; 109; 122; 111; 110; 101];
   [97; 108; 105; 103; 110];
   [102; 105; 108; 108];
   [122; 101; 114; 111];
   [122; 101; 114; 111; 117; 110; 116; 105; 108];
   [98; 121; 116; 101];
   [50; 98; 121; 116; 101];
   [52; 98; 121; 116; 101];
   [56; 98; 121; 116; 101];
   [99; 115; 116; 114];
   [97; 115; 99; 105; 105; 122];
   [105; 110; 99; 108; 117; 100; 101];
   [114; 101; 113; 117; 105; 114; 101];
   [99; 114; 101; 97; 116; 101; 95; 109; 101; 109; 122; 111; 110; 101];
   [100; 101; 102; 105; 110; 101];
   [105; 102];
   [101; 108; 105; 102];
   [101; 108; 115; 101];
   [101; 110; 100; 105; 102];
   [105; 102; 100; 101; 102];
   [105; 102; 110; 100; 101; 102];
   [109; 117; 116; 101];
   [117; 110; 109; 117; 116; 101];
   [101; 109; 105; 116];
   [76; 83; 66];
   [66; 89; 84; 69; 48];
   [66; 89; 84; 69; 49];
   [66; 89; 84; 69; 50];
   [66; 89; 84; 69; 51];
   [66; 89; 84; 69; 52];
   [66; 89; 84; 69; 53];
   [66; 89; 84; 69; 54];
   [66; 89; 84; 69; 55];
   [66; 89; 84; 69; 56];
   [66; 89; 84; 69; 57]].

Definition run_validate (c : vcfg) : bool := validate c.
(* (ISA name, ISA version, required name, optional comparison) *)
Definition run_require (c : str * ver * str * option (reqop * ver)) : bool :=
  let '(isa_name, isa_version, req_name, cond) := c in require_ok (str_eqb req_name isa_name) cond isa_version.
Definition run_gate (v : ver) : bool := gate v.
(* the same, from the text as written in the definition / the source line (None: not a version -> rejected) *)
Definition run_gate_text (s : str) : bool := match parse_version s with Some v => gate v | None => false end.
Definition run_require_text (c : str * str * str * option (reqop * str)) : option bool :=
  let '(isa_name, isa_version, req_name, cond) := c in
  match parse_version isa_version, cond with
  | Some iv, None => Some (require_ok (str_eqb req_name isa_name) None iv)
  | Some iv, Some (op, rv) => match parse_version rv with
                              | Some r => Some (require_ok (str_eqb req_name isa_name) (Some (op, r)) iv)
                              | None => None
                              end
  | None, _ => None
  end.
Definition min_version_of_text (s : option str) : option (option ver) :=
  match s with None => None | Some t => Some (parse_version t) end.
Definition run_vercmp (c : ver * ver) : Z := match ver_cmp (fst c) (snd c) with Lt => -1 | Eq => 0 | Gt => 1 end.
Definition obs_bool_eqb (a b : option bool) : bool :=
  match a, b with Some x, Some y => Bool.eqb x y | None, None => true | _, _ => false end.

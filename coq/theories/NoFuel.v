(* NoFuel.v — the whole-program model never answers OutOfFuel: every program is either assembled or rejected.
   (The fuelled functions are the expression lexer and parser, symbol substitution, and the include loader; their
   fuel bounds are proved sufficient in ExprLexProofs, ExprProofs, SubstProofs and below.) *)
From BA Require Import Base Bits Expr ExprProofs ExprLexProofs Cond Subst SubstProofs CondEval Layout Data Program.
Local Open Scope Z_scope.

Lemma noo_bind {A B} (r : result A) (k : A -> result B) :
  r <> OutOfFuel -> (forall a, k a <> OutOfFuel) -> bind r k <> OutOfFuel.
Proof. intros Hr Hk. destruct r; cbn; [apply Hk | discriminate | now elim Hr]. Qed.

Create HintDb noo.

(* goals  e <> OutOfFuel : split binds, case on everything that is not itself a fuelled computation *)
Ltac noo :=
  repeat first
    [ discriminate
    | assumption
    | solve [auto with noo]
    | match goal with
      | |- bind _ _ <> OutOfFuel => apply noo_bind; [ | intro ]
      | |- (let (_, _) := ?x in _) <> OutOfFuel => destruct x
      | |- (if ?b then _ else _) <> OutOfFuel => destruct b
      | |- (match ?x with _ => _ end) <> OutOfFuel =>
          lazymatch type of x with
          | result _ => let H := fresh "N" in
                        assert (H : x <> OutOfFuel) by (solve [auto with noo]); destruct x; [ | | now elim H]
          | _ => destruct x
          end
      end ].

Lemma mapM_noo {A B} (f : A -> result B) l : (forall x, f x <> OutOfFuel) -> mapM f l <> OutOfFuel.
Proof. intros H. induction l as [|x xs IH]; cbn [mapM]; noo. Qed.

(* ---------- expressions ---------- *)
Lemma compute_noo rho e : compute rho e <> OutOfFuel.
Proof. induction e as [n|s|a IH|f a IH|o a IHa b IHb]; cbn [compute]; noo. Qed.
#[export] Hint Resolve compute_noo : noo.

Lemma eval_noo rho e : eval rho e <> OutOfFuel.
Proof. unfold eval. noo. Qed.
#[export] Hint Resolve eval_noo : noo.

Lemma eval_in_noo cfg ls sc e : eval_in cfg ls sc e <> OutOfFuel.
Proof. unfold eval_in. apply eval_noo. Qed.
#[export] Hint Resolve eval_in_noo : noo.

Lemma parse_text_noo s : parse_text s <> OutOfFuel.
Proof.
  unfold parse_text. apply noo_bind; [apply lex_text_never_out_of_fuel | intro; apply parse_tokens_never_out_of_fuel].
Qed.
#[export] Hint Resolve parse_text_noo resolve_line_never_out_of_fuel : noo.

(* ---------- conditions and symbols ---------- *)
Lemma ceval_noo t c : ceval t c <> OutOfFuel.
Proof. destruct c; cbn [ceval]; noo. Qed.
#[export] Hint Resolve ceval_noo : noo.

Lemma create_symbol_noo t n v : create_symbol t n v <> OutOfFuel.
Proof. unfold create_symbol. noo. Qed.
#[export] Hint Resolve create_symbol_noo : noo.

Lemma capply_noo t p : capply t p <> OutOfFuel.
Proof. destruct p; cbn [capply]; noo. Qed.
#[export] Hint Resolve capply_noo : noo.

Lemma cstep_noo s d : cstep s d <> OutOfFuel.
Proof.
  unfold cstep, Cond.step. destruct d; noo.
Qed.
#[export] Hint Resolve cstep_noo : noo.

(* ---------- zones, labels ---------- *)
Lemma mk_zone_noo b s e n : mk_zone b s e n <> OutOfFuel.
Proof. unfold mk_zone. noo. Qed.
Lemma set_cursor_noo z v : set_cursor z v <> OutOfFuel.
Proof. unfold set_cursor. noo. Qed.
Lemma align_addr_noo a p : align_addr a p <> OutOfFuel.
Proof. unfold align_addr. noo. Qed.
#[export] Hint Resolve mk_zone_noo set_cursor_noo align_addr_noo : noo.

Lemma create_zone_noo b zs s e n : create_zone b zs s e n <> OutOfFuel.
Proof. unfold create_zone. noo. Qed.
#[export] Hint Resolve create_zone_noo : noo.

Lemma build_zones_noo b pre : forall acc, build_zones b pre acc <> OutOfFuel.
Proof. induction pre as [|[[n s] e] r IH]; intros acc; cbn [build_zones]; noo. Qed.
#[export] Hint Resolve build_zones_noo : noo.

Lemma init_zones_noo b o pre : init_zones b o pre <> OutOfFuel.
Proof. unfold init_zones. noo. Qed.
#[export] Hint Resolve init_zones_noo : noo.

Lemma set_label_noo kw ls sc n v : set_label kw ls sc n v <> OutOfFuel.
Proof. unfold set_label. noo. Qed.
Lemma set_label_global_noo kw ls n v : set_label_global kw ls n v <> OutOfFuel.
Proof. unfold set_label_global. noo. Qed.
#[export] Hint Resolve set_label_noo set_label_global_noo : noo.

(* ---------- bit packing and instruction parts ---------- *)
Lemma to_bytes_noo v n e : to_bytes v n e <> OutOfFuel.
Proof. unfold to_bytes. noo. Qed.
#[export] Hint Resolve to_bytes_noo : noo.

Lemma append_bits_noo s v size al e : append_bits s v size al e <> OutOfFuel.
Proof. unfold append_bits. noo. Qed.
#[export] Hint Resolve append_bits_noo : noo.

Lemma append_parts_noo ps : forall s, append_parts s ps <> OutOfFuel.
Proof. induction ps as [|p r IH]; intros s; cbn [append_parts]; noo. Qed.
#[export] Hint Resolve append_parts_noo : noo.

Lemma get_bytes_noo ps : get_bytes ps <> OutOfFuel.
Proof. unfold get_bytes. noo. Qed.
Lemma composite_value_noo subs e : composite_value subs e <> OutOfFuel.
Proof. unfold composite_value. noo. Qed.
#[export] Hint Resolve get_bytes_noo composite_value_noo : noo.

Lemma part_value_noo ev addr size p : (forall e, ev e <> OutOfFuel) -> part_value ev addr size p <> OutOfFuel.
Proof. intros H. unfold part_value. destruct (ip_val p); noo. Qed.

Lemma instr_bytes_noo ev addr ps : (forall e, ev e <> OutOfFuel) -> instr_bytes ev addr ps <> OutOfFuel.
Proof.
  intros H. unfold instr_bytes. apply noo_bind; [apply mapM_noo; intro; apply part_value_noo; exact H | intro; noo].
Qed.

Lemma instrs_bytes_noo ev steps : (forall e, ev e <> OutOfFuel) -> forall addr, instrs_bytes ev addr steps <> OutOfFuel.
Proof.
  intros H. induction steps as [|ips r IH]; intros addr; cbn [instrs_bytes]; [discriminate|].
  apply noo_bind; [apply instr_bytes_noo; exact H | intro]. apply noo_bind; [apply IH | intro; discriminate].
Qed.

(* ---------- pass 1 and pass 2 ---------- *)
Lemma line_addr_noo cfg ev z g s : (forall e, ev e <> OutOfFuel) -> line_addr cfg ev z g s <> OutOfFuel.
Proof. intros H. unfold line_addr. destruct s; noo. Qed.

Lemma line_size_noo ev addr s : (forall e, ev e <> OutOfFuel) -> line_size ev addr s <> OutOfFuel.
Proof. intros H. unfold line_size. destruct s; noo. Qed.

Lemma pass1_noo cfg ps : forall zs ls acc, pass1 cfg zs ls ps acc <> OutOfFuel.
Proof.
  induction ps as [|p rest IH]; intros zs ls acc; cbn [pass1]; [discriminate|].
  destruct (find_zone zs (p_zone p)) as [z|]; [|discriminate].
  destruct (find_zone zs GLOBAL) as [g|]; [|discriminate].
  apply noo_bind; [apply line_addr_noo; intro; apply eval_in_noo | intro addr].
  apply noo_bind; [apply line_size_noo; intro; apply eval_in_noo | intro size].
  apply noo_bind; [apply set_cursor_noo | intro z'].
  apply noo_bind; [destruct (p_stmt p); noo | intro ls']. apply IH.
Qed.
#[export] Hint Resolve pass1_noo : noo.

Lemma gen_bytes_noo cfg ls s : gen_bytes cfg ls s <> OutOfFuel.
Proof.
  unfold gen_bytes. destruct (p_stmt (s_line s)); try discriminate.
  - apply noo_bind; [apply mapM_noo; intro; apply eval_in_noo | intro; discriminate].
  - noo.
  - apply instr_bytes_noo. intro; apply eval_in_noo.
  - apply instrs_bytes_noo. intro; apply eval_in_noo.
Qed.
#[export] Hint Resolve gen_bytes_noo : noo.

Lemma to_pline_noo cfg ls s : to_pline cfg ls s <> OutOfFuel.
Proof. unfold to_pline. noo. Qed.
#[export] Hint Resolve to_pline_noo : noo.

(* ---------- the reader ---------- *)
Lemma item_step_noo cfg load_file fid st it :
  match it with IInclude _ => forall t g, load_file t g <> OutOfFuel | _ => True end ->
  item_step cfg load_file fid st it <> OutOfFuel.
Proof.
  intros H. destruct st as [[g fs] acc]. unfold item_step. destruct it as [d|n s e|target|s].
  - noo.
  - noo.
  - destruct (currently_active (f_stack fs)); [|discriminate]. destruct target as [t|]; [|discriminate].
    destruct (in_nat t (g_used g)); [discriminate|]. apply noo_bind; [apply H | intro; discriminate].
  - destruct (negb (currently_active (f_stack fs))); [discriminate|].
    match goal with |- (match find_zone ?a ?b with _ => _ end) <> _ => destruct (find_zone a b) end; [|discriminate].
    destruct s; cbn beta iota; try (destruct (label_kind n); cbn beta iota); noo.
Qed.

Lemma run_items_noo step items : (forall st it, step st it <> OutOfFuel) -> forall st, run_items step items st <> OutOfFuel.
Proof. intros H. induction items as [|it r IH]; intros st; cbn [run_items]; noo. Qed.

(* ---------- the include loader: a file can be included at most once, so |files| + 1 levels are enough ---------- *)
Local Open Scope nat_scope.

Definition unused (n : nat) (used : list nat) : nat :=
  length (filter (fun i => negb (in_nat i used)) (seq 0 n)).

Lemma in_nat_cons i t used : in_nat i (t :: used) = Nat.eqb i t || in_nat i used.
Proof. reflexivity. Qed.

Lemma unused_mono n u1 u2 : (forall i, in_nat i u1 = true -> in_nat i u2 = true) -> unused n u2 <= unused n u1.
Proof.
  intros H. unfold unused. apply filter_length_le. intros i _ Hg.
  destruct (in_nat i u1) eqn:E; [|reflexivity]. rewrite (H i E) in Hg. discriminate.
Qed.

Lemma unused_lt n t used : t < n -> in_nat t used = false -> unused n (t :: used) < unused n used.
Proof.
  intros Ht Hu. unfold unused. apply (filter_length_lt _ _ (seq 0 n) t).
  - intros i _ Hg. rewrite in_nat_cons in Hg. destruct (in_nat i used); [rewrite orb_true_r in Hg; discriminate | reflexivity].
  - apply in_seq. lia.
  - now rewrite Hu.
  - rewrite in_nat_cons, Nat.eqb_refl. reflexivity.
Qed.

Definition used_grows (g g' : gstate) : Prop := forall i, in_nat i (g_used g) = true -> in_nat i (g_used g') = true.

Lemma used_grows_refl g : used_grows g g.
Proof. intros i H; exact H. Qed.
Lemma used_grows_trans a b c : used_grows a b -> used_grows b c -> used_grows a c.
Proof. intros H1 H2 i H. apply H2, H1, H. Qed.

(* one item: never out of fuel, and the set of files used only grows -- provided the loader it calls behaves so on
   every state with no more unused files than [bound] *)
Lemma item_step_used cfg (load_file : nat -> gstate -> result (gstate * list placed)) fid n bound g fs acc it :
  (forall t g0, unused n (g_used g0) < bound ->
      load_file t g0 <> OutOfFuel /\ forall g1 ls, load_file t g0 = Ok (g1, ls) -> used_grows g0 g1) ->
  (forall t g0, n <= t -> load_file t g0 <> OutOfFuel /\ forall g1 ls, load_file t g0 = Ok (g1, ls) -> used_grows g0 g1) ->
  unused n (g_used g) <= bound ->
  item_step cfg load_file fid (g, fs, acc) it <> OutOfFuel
  /\ forall g' fs' acc', item_step cfg load_file fid (g, fs, acc) it = Ok (g', fs', acc') -> used_grows g g'.
Proof.
  intros Hload Hfar Hb.
  destruct it as [d|zn s e|target|s].
  - (* conditional directive: the table changes, nothing else *)
    split; [apply item_step_noo; exact I|].
    unfold item_step. intros g' fs' acc' H.
    destruct (cstep _ d) as [cs'| |]; cbn [bind] in H; try discriminate. inversion H; subst. (intros ? Hi; cbn [g_used] in *; exact Hi).
  - split.
    + unfold item_step. noo.
    + unfold item_step. intros g' fs' acc' H. destruct (currently_active (f_stack fs)).
      * destruct (create_zone _ _ _ _ _); cbn [bind] in H; try discriminate. inversion H; subst. (intros ? Hi; cbn [g_used] in *; exact Hi).
      * inversion H; subst. (intros ? Hi; cbn [g_used] in *; exact Hi).
  - unfold item_step. destruct (currently_active (f_stack fs)); [|split; [discriminate | intros ? ? ? H; inversion H; subst; (intros ? Hi; cbn [g_used] in *; exact Hi)]].
    destruct target as [t|]; [|split; [discriminate | intros; discriminate]].
    destruct (in_nat t (g_used g)) eqn:Eu; [split; [discriminate | intros; discriminate]|].
    set (g0 := {| g_tab := g_tab g; g_zones := g_zones g; g_labels := g_labels g; g_used := t :: g_used g; g_region := g_region g |}).
    assert (Hg0 : used_grows g g0) by (intros i Hi; unfold g0; cbn [g_used]; rewrite in_nat_cons, Hi; apply orb_true_r).
    assert (HL : load_file t g0 <> OutOfFuel /\ forall g1 ls, load_file t g0 = Ok (g1, ls) -> used_grows g0 g1).
    { destruct (Nat.lt_ge_cases t n) as [Hlt|Hge]; [|apply Hfar; exact Hge].
      apply Hload. cbn [g_used g0]. pose proof (unused_lt n t (g_used g) Hlt Eu). lia. }
    destruct HL as [HL1 HL2]. split.
    + apply noo_bind; [exact HL1 | intro; discriminate].
    + intros g' fs' acc' H. destruct (load_file t g0) as [[g1 ls]| |] eqn:El; cbn [bind] in H; try discriminate.
      inversion H; subst. cbn [fst]. eapply used_grows_trans; [exact Hg0 | eapply HL2; reflexivity].
  - split.
    + apply item_step_noo; exact I.
    + unfold item_step. intros g' fs' acc' H.
      destruct (negb (currently_active (f_stack fs))); [inversion H; subst; (intros ? Hi; cbn [g_used] in *; exact Hi)|].
      match type of H with (match find_zone ?a ?b with _ => _ end) = _ => destruct (find_zone a b) end; [|discriminate].
      destruct s; cbn beta iota in H; try (destruct (label_kind n0); cbn beta iota in H);
        repeat match type of H with
               | (if ?b then _ else _) = _ => destruct b; try discriminate
               | bind ?r _ = _ => destruct r; cbn [bind] in H; try discriminate
               end;
        inversion H; subst; (intros ? Hi; cbn [g_used] in *; exact Hi).
Qed.

Lemma run_items_used cfg (load_file : nat -> gstate -> result (gstate * list placed)) fid n bound items :
  (forall t g0, unused n (g_used g0) < bound ->
      load_file t g0 <> OutOfFuel /\ forall g1 ls, load_file t g0 = Ok (g1, ls) -> used_grows g0 g1) ->
  (forall t g0, n <= t -> load_file t g0 <> OutOfFuel /\ forall g1 ls, load_file t g0 = Ok (g1, ls) -> used_grows g0 g1) ->
  forall g fs acc, unused n (g_used g) <= bound ->
  run_items (item_step cfg load_file fid) items (g, fs, acc) <> OutOfFuel
  /\ forall g' fs' acc', run_items (item_step cfg load_file fid) items (g, fs, acc) = Ok (g', fs', acc') -> used_grows g g'.
Proof.
  intros Hload Hfar. induction items as [|it r IH]; intros g fs acc Hb; cbn [run_items].
  - split; [discriminate|]. intros g' fs' acc' H. inversion H; subst. apply used_grows_refl.
  - destruct (item_step_used cfg load_file fid n bound g fs acc it Hload Hfar Hb) as [S1 S2].
    destruct (item_step cfg load_file fid (g, fs, acc) it) as [[[g1 fs1] acc1]| |] eqn:E; cbn [bind].
    + pose proof (S2 g1 fs1 acc1 eq_refl) as Hg.
      assert (Hb1 : unused n (g_used g1) <= bound) by (pose proof (unused_mono n (g_used g) (g_used g1) Hg); lia).
      destruct (IH g1 fs1 acc1 Hb1) as [R1 R2]. split; [exact R1|].
      intros g' fs' acc' H. eapply used_grows_trans; [exact Hg | eapply R2; exact H].
    + split; [discriminate | intros; discriminate].
    + now elim S1.
Qed.

Theorem load_fuel_suffices : forall fuel cfg files fid g,
  unused (length files) (g_used g) + 1 < fuel ->
  load fuel cfg files fid g <> OutOfFuel
  /\ forall g' ls, load fuel cfg files fid g = Ok (g', ls) -> used_grows g g'.
Proof.
  induction fuel as [|fu IH]; intros cfg files fid g Hf; [lia|].
  cbn [load]. destruct (nth_error files fid) as [items|] eqn:En; [|split; [discriminate | intros; discriminate]].
  assert (Hload : forall t g0, unused (length files) (g_used g0) < fu - 1 ->
            load fu cfg files t g0 <> OutOfFuel /\ forall g1 ls, load fu cfg files t g0 = Ok (g1, ls) -> used_grows g0 g1)
    by (intros t g0 H0; apply IH; lia).
  assert (Hfar : forall t g0, length files <= t ->
            load fu cfg files t g0 <> OutOfFuel /\ forall g1 ls, load fu cfg files t g0 = Ok (g1, ls) -> used_grows g0 g1).
  { intros t g0 Ht. destruct fu as [|fu']; [lia|]. cbn [load].
    assert (nth_error files t = None) as -> by (apply nth_error_None; exact Ht).
    split; [discriminate | intros; discriminate]. }
  destruct (run_items_used cfg (load fu cfg files) fid (length files) (fu - 1) items Hload Hfar g (file_init fid) []
              ltac:(lia)) as [R1 R2].
  destruct (run_items _ items _) as [[[g' fs'] acc']| |] eqn:E; cbn [bind].
  - split; [discriminate|]. intros g2 ls H. inversion H; subst. eapply R2; reflexivity.
  - split; [discriminate | intros; discriminate].
  - now elim R1.
Qed.

Lemma unused_main n : 0 < n -> unused n [0] < n.
Proof.
  intros Hn. unfold unused.
  assert (H : length (filter (fun i => negb (in_nat i [0])) (seq 0 n)) < length (filter (fun _ : nat => true) (seq 0 n))).
  { apply (filter_length_lt _ _ (seq 0 n) 0); auto. apply in_seq; lia. }
  assert (length (filter (fun _ : nat => true) (seq 0 n)) = n).
  { clear. generalize 0. induction n as [|k IHk]; intros s; cbn; [reflexivity | now rewrite IHk]. }
  lia.
Qed.

Local Open Scope Z_scope.

Lemma fold_symbols_noo l : forall acc, acc <> OutOfFuel ->
  fold_left (fun acc nv => do t <- acc; create_symbol t (fst nv) (snd nv)) l acc <> OutOfFuel.
Proof. induction l as [|x r IH]; intros acc Ha; cbn [fold_left]; [exact Ha|]. apply IH. noo. Qed.

Lemma fold_consts_noo kw l : forall acc, acc <> OutOfFuel ->
  fold_left (fun acc nv => do ls <- acc; set_label_global kw ls (fst nv) (snd nv)) l acc <> OutOfFuel.
Proof. induction l as [|x r IH]; intros acc Ha; cbn [fold_left]; [exact Ha|]. apply IH. noo. Qed.

Lemma fold_data_noo kw (l : list (str * Z * Z * Z)) : forall acc, acc <> OutOfFuel ->
  fold_left (fun acc d => do ls <- acc; let '(n, a, _, _) := d in set_label_global kw ls n a) l acc <> OutOfFuel.
Proof.
  induction l as [|[[[n a] v] sz] r IH]; intros acc Ha; cbn [fold_left]; [exact Ha|]. apply IH. noo.
Qed.

(* the model's answer to every program is "assembled" or "rejected" *)
Theorem assemble_never_out_of_fuel cfg files opts : assemble cfg files opts <> OutOfFuel.
Proof.
  unfold assemble.
  apply noo_bind; [apply init_zones_noo | intro zs0].
  apply noo_bind; [apply fold_consts_noo; discriminate | intro ls0].
  apply noo_bind; [apply fold_symbols_noo; discriminate | intro tab0].
  apply noo_bind; [apply fold_data_noo; discriminate | intro ls1].
  apply noo_bind.
  - unfold FUEL_FILES. destruct files as [|f0 fr]; [cbn; discriminate|].
    apply load_fuel_suffices. cbn [g_used length].
    pose proof (unused_main (S (length fr)) ltac:(lia)). lia.
  - intros [g lines].
    apply noo_bind; [apply pass1_noo | intros [[sized zs] ls]].
    apply noo_bind; [apply mapM_noo; intro; apply to_pline_noo | intro plines].
    noo.
Qed.

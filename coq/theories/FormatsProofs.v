(* FormatsProofs.v — the memory-describing renderings decode to the same address-to-byte pairs as the image's map. *)
From BA Require Import Base Layout LayoutProofs Program Formats.
From Coq Require Import Sorting.Permutation.
Local Open Scope Z_scope.

(* compact hex: decoding the printer's records gives back exactly the address-to-byte pairs, whatever address the decoder
   assumed at the start of a run: an address record is emitted whenever the bytes do not continue at the expected address *)
Theorem minhex_roundtrip lines : forall next, mdecode next (minhex next lines) = memory_pairs lines.
Proof.
  induction lines as [|p r IH]; intros next; cbn [minhex memory_pairs flat_map]; [reflexivity|].
  fold (memory_pairs r).
  destruct (pl_isbytes p && negb (pl_muted p)) eqn:E; cbn [andb].
  - destruct (Nat.eqb (length (pl_bytes p)) 0) eqn:El; cbn [negb].
    + apply Nat.eqb_eq in El. destruct (pl_bytes p); [|discriminate]. cbn [bytes_at app]. apply IH.
    + destruct (pl_addr p =? next) eqn:Ea; cbn [app mdecode].
      * apply Z.eqb_eq in Ea. subst next. now rewrite IH.
      * now rewrite IH.
  - cbn [app]. apply IH.
Qed.

(* the pairs are exactly the contributions of the lines: the same notion the image theorem (C03) is stated with *)
Lemma bytes_at_in a0 bs : forall a b, In (a, b) (bytes_at a0 bs) <-> (a0 <= a /\ nth_error bs (Z.to_nat (a - a0)) = Some b).
Proof.
  revert a0. induction bs as [|x r IH]; intros a0 a b; cbn [bytes_at In].
  - split; [contradiction|]. intros [_ H]. destruct (Z.to_nat (a - a0)); discriminate.
  - rewrite IH. split.
    + intros [H|[H1 H2]].
      * inversion H; subst. split; [lia|]. now rewrite Z.sub_diag.
      * split; [lia|]. replace (Z.to_nat (a - a0)) with (S (Z.to_nat (a - (a0 + 1)))) by lia. exact H2.
    + intros [H1 H2]. destruct (Z.eq_dec a a0) as [->|Hne].
      * left. rewrite Z.sub_diag in H2. cbn in H2. now inversion H2.
      * right. split; [lia|]. replace (Z.to_nat (a - a0)) with (S (Z.to_nat (a - (a0 + 1)))) in H2 by lia. exact H2.
Qed.

Theorem memory_pairs_contrib lines a b :
  In (a, b) (memory_pairs lines) <-> exists p, In p lines /\ contrib p a = Some b.
Proof.
  unfold memory_pairs. rewrite in_flat_map. split.
  - intros [p [Hp Hin]]. exists p. split; [exact Hp|]. unfold contrib.
    destruct (pl_isbytes p && negb (pl_muted p)); [|contradiction]. cbn [andb].
    apply bytes_at_in in Hin as [H1 H2]. replace (pl_addr p <=? a) with true by lia. exact H2.
  - intros [p [Hp Hc]]. exists p. split; [exact Hp|]. unfold contrib in Hc.
    destruct (pl_isbytes p && negb (pl_muted p)); [|discriminate]. cbn [andb] in Hc.
    destruct (pl_addr p <=? a) eqn:E; [|discriminate]. apply bytes_at_in. split; [lia | exact Hc].
Qed.

(* hence every pair is a byte of the image's map, and every mapped byte of the image is one of the pairs *)
Corollary image_byte_is_a_pair lines a b : byte_at lines a = Some b -> In (a, b) (memory_pairs lines).
Proof. intros H. apply memory_pairs_contrib. now apply byte_at_sound. Qed.

Corollary pair_is_mapped lines a b : In (a, b) (memory_pairs lines) -> exists b', byte_at lines a = Some b'.
Proof. intros H. apply memory_pairs_contrib in H as [p [Hp Hc]]. eapply byte_at_complete; eauto. Qed.

(* muted lines appear in none of the memory-describing formats *)
Theorem muted_lines_absent lines : memory_pairs lines = memory_pairs (filter (fun p => negb (pl_muted p)) lines).
Proof.
  induction lines as [|p r IH]; cbn [memory_pairs flat_map filter]; [reflexivity|].
  fold (memory_pairs r). destruct (pl_muted p) eqn:E; cbn [negb].
  - rewrite andb_false_r. cbn [app]. exact IH.
  - cbn [memory_pairs flat_map]. rewrite E. cbn [negb]. fold (memory_pairs (filter (fun p => negb (pl_muted p)) r)). now rewrite IH.
Qed.

(* the listing's (address, bytes) rows: one row per unmuted statement that produced bytes, carrying its address and its
   bytes; together they are the same pairs *)
Theorem listing_rows_pairs (o : outcome) :
  flat_map (fun row => bytes_at (fst row) (snd row)) (rows_of o) = memory_pairs (out_lines o).
Proof.
  unfold rows_of, memory_pairs. induction (out_lines o) as [|p r IH]; cbn [flat_map]; [reflexivity|].
  destruct (pl_isbytes p && negb (pl_muted p)) eqn:E; cbn [andb].
  - destruct (Nat.eqb (length (pl_bytes p)) 0) eqn:El; cbn [negb flat_map app fst snd].
    + apply Nat.eqb_eq in El. destruct (pl_bytes p); [|discriminate]. cbn [bytes_at app]. exact IH.
    + now rewrite IH.
  - cbn [app]. exact IH.
Qed.

Theorem listing_each_statement_once (o : outcome) :
  rows_of o = map (fun p => (pl_addr p, pl_bytes p))
                  (filter (fun p => pl_isbytes p && negb (pl_muted p) && negb (Nat.eqb (length (pl_bytes p)) 0)) (out_lines o)).
Proof.
  unfold rows_of. induction (out_lines o) as [|p r IH]; cbn [flat_map filter map]; [reflexivity|].
  destruct (pl_isbytes p && negb (pl_muted p) && negb (Nat.eqb (length (pl_bytes p)) 0)); cbn [app map]; now rewrite IH.
Qed.

(* ------------------------------------------------------------------------------------------ *)
(* C15: results do not depend on the order in which search directories (or registers) are held   *)

(* _locate_filename: the name must be found in exactly one directory *)
Definition locate {D} (has : D -> bool) (dirs : list D) : result D :=
  match filter has dirs with
  | [d] => Ok d
  | _ => Rejected
  end.

Lemma filter_perm {A} (f : A -> bool) l l' : Permutation l l' -> Permutation (filter f l) (filter f l').
Proof.
  induction 1 as [|x l l' H IH|x y l|l l' l'' H1 IH1 H2 IH2]; cbn [filter].
  - constructor.
  - destruct (f x); [constructor|]; assumption.
  - destruct (f x), (f y); try reflexivity. apply perm_swap.
  - etransitivity; eassumption.
Qed.

Theorem locate_order_independent {D} (has : D -> bool) dirs dirs' :
  Permutation dirs dirs' -> locate has dirs = locate has dirs'.
Proof.
  intros H. unfold locate. pose proof (filter_perm has _ _ H) as Hp.
  destruct (filter has dirs) as [|d [|d2 r]] eqn:E.
  - apply Permutation_nil in Hp. now rewrite Hp.
  - apply Permutation_length_1_inv in Hp. now rewrite Hp.
  - pose proof (Permutation_length Hp) as Hl. destruct (filter has dirs') as [|e [|e2 r']]; cbn in Hl; try discriminate. reflexivity.
Qed.

(* every use of the register collection is a membership test (of the lower-cased name among the lower-cased names) *)
Theorem reg_mem_order_independent (n : list Z) regs regs' :
  Permutation regs regs' -> Subst.reg_mem n regs = Subst.reg_mem n regs'.
Proof.
  intros H. unfold Subst.reg_mem, Subst.mem.
  assert (Hp : Permutation (map (map Subst.lower) regs) (map (map Subst.lower) regs')) by (apply Permutation_map; exact H).
  set (m := map Subst.lower n). set (l := map (map Subst.lower) regs) in *. set (l' := map (map Subst.lower) regs') in *.
  destruct (existsb (Subst.str_eqb m) l) eqn:E1; destruct (existsb (Subst.str_eqb m) l') eqn:E2; try reflexivity.
  - apply existsb_exists in E1 as [x [Hx Hb]]. assert (In x l') by (eapply Permutation_in; eauto).
    assert (existsb (Subst.str_eqb m) l' = true) by (apply existsb_exists; eauto). congruence.
  - apply existsb_exists in E2 as [x [Hx Hb]]. assert (In x l) by (eapply Permutation_in; [symmetry|]; eauto).
    assert (existsb (Subst.str_eqb m) l = true) by (apply existsb_exists; eauto). congruence.
Qed.

(* every use of the register collection is a membership test *)
Theorem mem_order_independent (n : list Z) regs regs' :
  Permutation regs regs' -> Subst.mem n regs = Subst.mem n regs'.
Proof.
  intros H. unfold Subst.mem.
  destruct (existsb (Subst.str_eqb n) regs) eqn:E1; destruct (existsb (Subst.str_eqb n) regs') eqn:E2; try reflexivity.
  - apply existsb_exists in E1 as [x [Hx Hb]]. assert (In x regs') by (eapply Permutation_in; eauto).
    assert (existsb (Subst.str_eqb n) regs' = true) by (apply existsb_exists; eauto). congruence.
  - apply existsb_exists in E2 as [x [Hx Hb]]. assert (In x regs) by (eapply Permutation_in; [symmetry|]; eauto).
    assert (existsb (Subst.str_eqb n) regs = true) by (apply existsb_exists; eauto). congruence.
Qed.

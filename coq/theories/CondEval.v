(* CondEval.v — the concrete condition evaluator of #if / #elif / #ifdef / #ifndef
   (IfPreprocessorCondition._evaluate_condition, IfdefPreprocessorCondition.evaluate) and the
   #define effect, instantiating the parameters of Cond.v.  No proofs. *)
From BA Require Export Base Expr Subst Cond.

Inductive cmpop := CEq | CNe | CGt | CGe | CLt | CLe.

Inductive ccond :=
| CIfdef (n : str)
| CIfndef (n : str)
| CCmp (lhs : str) (op : cmpop) (rhs : str).      (* a bare expression e is CCmp e CNe "0" *)

Fixpoint labels (e : expr) : list str :=
  match e with
  | ENum _ => []
  | ELabel s => [s]
  | ENeg a => labels a
  | EFun _ a => labels a
  | EBin _ a b => labels a ++ labels b
  end.

(* Python's ordering of str: lexicographic by code point *)
Fixpoint str_cmp (a b : str) : comparison :=
  match a, b with
  | [], [] => Eq
  | [], _ => Lt
  | _, [] => Gt
  | x :: a', y :: b' => match Z.compare x y with Eq => str_cmp a' b' | c => c end
  end.

Definition apply_cmp (op : cmpop) (c : comparison) : bool :=
  match op, c with
  | CEq, Eq => true | CEq, _ => false
  | CNe, Eq => false | CNe, _ => true
  | CGt, Gt => true | CGt, _ => false
  | CGe, Lt => false | CGe, _ => true
  | CLt, Lt => true | CLt, _ => false
  | CLe, Gt => false | CLe, _ => true
  end.

Definition parse_text (s : str) : result expr := do ts <- lex_text s; parse_tokens ts.

Definition ceval (t : table) (c : ccond) : result bool :=
  match c with
  | CIfdef n => Ok (match lookup t n with Some _ => true | None => false end)
  | CIfndef n => Ok (match lookup t n with Some _ => false | None => true end)
  | CCmp lhs op rhs =>
      do l <- resolve_line t lhs;
      do r <- resolve_line t rhs;
      do el <- parse_text l;
      do er <- parse_text r;
      match labels el ++ labels er with
      | [] => do vl <- eval (fun _ => None) el;
              do vr <- eval (fun _ => None) er;
              Ok (apply_cmp op (Z.compare vl vr))
      | _ => Ok (apply_cmp op (str_cmp l r))               (* "must do a string comparison" *)
      end
  end.

Inductive cpayload := PDefine (n v : str).
Definition capply (t : table) (p : cpayload) : result table :=
  match p with PDefine n v => create_symbol t n v end.

(* an ordinary line is represented by its text; when selected it contributes the text after symbol
   substitution against the table at that point (LineOjectFactory.parse_line -> resolve_symbols) *)
Definition cemit (t : table) (line : str) : result str := resolve_line t line.

Definition cdirective := directive ccond cpayload str.
Definition crun_file (t : table) (ds : list cdirective) := run_file table ccond ceval cpayload capply str str cemit t ds.

(* observation compared by the correspondence: selected lines (substituted text) with mute flags, and the final table *)
Definition obs_cond := option (list (str * bool) * table).
Definition pair_sb_eqb (a b : str * bool) : bool := str_eqb (fst a) (fst b) && Bool.eqb (snd a) (snd b).
Definition pair_ss_eqb (a b : str * str) : bool := str_eqb (fst a) (fst b) && str_eqb (snd a) (snd b).
Definition obs_cond_eqb (a b : obs_cond) : bool :=
  match a, b with
  | Some (o1, t1), Some (o2, t2) => list_eqb pair_sb_eqb o1 o2 && list_eqb pair_ss_eqb t1 t2
  | None, None => true
  | _, _ => false
  end.
Definition run_cond (c : table * list cdirective) : obs_cond :=
  match crun_file (fst c) (snd c) with Ok x => Some x | _ => None end.

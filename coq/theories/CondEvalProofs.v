(* CondEvalProofs.v — the concrete instance of the refinement theorem and facts on condition evaluation. *)
From BA Require Import Base Expr Subst Cond CondSpec CondProofs CondEval.
Local Open Scope Z_scope.

(* conditions compare integers when both sides are numeric *)
Theorem ceval_numeric t lhs op rhs l r el er vl vr :
  resolve_line t lhs = Ok l -> resolve_line t rhs = Ok r ->
  parse_text l = Ok el -> parse_text r = Ok er ->
  labels el = [] -> labels er = [] ->
  eval (fun _ => None) el = Ok vl -> eval (fun _ => None) er = Ok vr ->
  ceval t (CCmp lhs op rhs) = Ok (apply_cmp op (Z.compare vl vr)).
Proof.
  intros H1 H2 H3 H4 H5 H6 H7 H8. unfold ceval. rewrite H1, H2. cbn [bind]. rewrite H3, H4. cbn [bind].
  rewrite H5, H6. cbn [app]. rewrite H7, H8. reflexivity.
Qed.

Example ten_gt_nine : ceval [] (CCmp [49;48] CGt [57]) = Ok true.   (* "10" > "9" as integers, not as text *)
Proof. vm_compute. reflexivity. Qed.

(* #ifdef / #ifndef test only whether the symbol is defined at that point *)
Theorem ceval_ifdef t n : ceval t (CIfdef n) = Ok (match lookup t n with Some _ => true | None => false end).
Proof. reflexivity. Qed.
Theorem ceval_ifndef t n : ceval t (CIfndef n) = Ok (match lookup t n with Some _ => false | None => true end).
Proof. reflexivity. Qed.

(* instance of the refinement theorem for the real evaluator *)
Theorem flat_refines_blocks_concrete (bs : blocks ccond cpayload str) (t : table) :
  crun_file t (flat_blocks ccond cpayload str bs)
  = do s <- run_blocks table ccond cpayload ceval capply str str cemit {| b_sym := t; b_mute := 0; b_out := [] |} bs;
    Ok (rev (b_out table str s), b_sym table str s).
Proof. apply flat_refines_blocks. Qed.

(* non-vacuity: a nested program in which the guarded definition switches nothing off *)
Example guard_example :
  crun_file [] [DOpen (CIfndef [71;49]); DEffect (PDefine [71;49] [49]); DLine [71;49];
                DOpen (CCmp [48] CNe [48]); DOpen (CIfdef [71;49]); DLine [50]; DEndif; DElse; DLine [51]; DEndif;
                DEndif; DLine [52]]
  = Ok ([([49], false); ([51], false); ([52], false)], [([71;49], [49])]).
Proof. vm_compute. reflexivity. Qed.

(* Subst.v — implementation model of Preprocessor.resolve_symbols / create_symbol
   (src/bespokeasm/assembler/preprocessor/__init__.py), on text as lists of ASCII codes.  No proofs. *)
From BA Require Export Base Expr.

Definition table := list (str * str).          (* insertion order; names are unique (create_symbol) *)

Definition str_eqb (a b : str) : bool := list_eqb Z.eqb a b.

Fixpoint lookup (t : table) (n : str) : option str :=
  match t with
  | [] => None
  | (k, v) :: r => if str_eqb k n then Some v else lookup r n
  end.

(* create_symbol: a second definition of the same name is an error *)
Definition create_symbol (t : table) (n v : str) : result table :=
  match lookup t n with Some _ => Rejected | None => Ok (t ++ [(n, v)]) end.

(* a line as maximal word runs and single non-word characters *)
Inductive seg := SWord (w : str) | SSep (c : Z).

Definition flush (cur_rev : str) : list seg :=
  match cur_rev with [] => [] | _ => [SWord (rev cur_rev)] end.

Fixpoint segs_aux (s : str) (cur_rev : str) : list seg :=
  match s with
  | [] => flush cur_rev
  | c :: r => if is_word c then segs_aux r (c :: cur_rev)
              else flush cur_rev ++ SSep c :: segs_aux r []
  end.
Definition segs (s : str) : list seg := segs_aux s [].

(* re.findall(r'\b([\w_][\w\d_]+)\b', line): the maximal word runs of length >= 2, in order *)
Definition words (s : str) : list str :=
  flat_map (fun g => match g with SWord w => if (2 <=? length w)%nat then [w] else [] | SSep _ => [] end) (segs s).

(* re.sub(r'\b' + name + r'\b', replacement, line): every whole-word occurrence (fix D13) *)
Definition replace_word (w repl : str) (line : str) : str :=
  flat_map (fun g => match g with
                     | SWord x => if str_eqb x w then repl else x
                     | SSep c => [c]
                     end) (segs line).

Definition mem (w : str) (l : list str) : bool := existsb (str_eqb w) l.

(* letter case: register names (and mnemonics) are compared without regard to it *)
Definition lower (c : Z) : Z := if is_upper c then c + 32 else c.
Definition str_eqb_ci (a b : str) : bool := str_eqb (map lower a) (map lower b).
(* is n the name of a register, in any letter case (D53) *)
Definition reg_mem (n : str) (regs : list str) : bool := mem (map lower n) (map (map lower) regs).

Fixpoint resolve (fuel : nat) (t : table) (resolved : list str) (line : str) : result str :=
  match fuel with
  | O => OutOfFuel
  | S f =>
    match
      (fix loop (ws : list str) (line : str) (replaced : list str) : result (str * list str) :=
         match ws with
         | [] => Ok (line, replaced)
         | w :: r =>
             match lookup t w with
             | None => loop r line replaced
             | Some v =>
                 if mem w resolved then Rejected           (* "indirectly referring to itself" *)
                 else match resolve f t (w :: resolved) v with
                      | Ok repl => loop r (replace_word w repl line) (w :: replaced)
                      | Rejected => Rejected
                      | OutOfFuel => OutOfFuel
                      end
             end
         end) (words line) line []
    with
    | Ok (line', []) => Ok line'
    | Ok (line', replaced) => resolve f t (resolved ++ replaced) line'
    | Rejected => Rejected
    | OutOfFuel => OutOfFuel
    end
  end.

Definition resolve_line (t : table) (line : str) : result str := resolve (S (length t)) t [] line.

Definition obs_str := option str.
Definition obs_str_eqb (a b : obs_str) : bool :=
  match a, b with Some x, Some y => str_eqb x y | None, None => true | _, _ => false end.

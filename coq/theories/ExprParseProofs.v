(* ExprParseProofs.v — the recursive-descent parser reads every expression tree back from its minimally parenthesised
   token sequence: precedence (& | ^  <  << >>  <  + -  <  * / %  <  unary minus, functions, brackets) and left
   associativity are exactly those the printer `pr` assumes when it decides where brackets are needed. *)
From BA Require Import Base Expr ExprProofs.
Local Open Scope nat_scope.

(* tokens of e in a context that needs an operand of level >= lvl: brackets only where the tree's shape requires them *)
Fixpoint pr (lvl : nat) (e : expr) : list token :=
  match e with
  | ENum n => [TNum n]
  | ELabel s => [TLabel s]
  | ENeg e1 => TOp OSub :: pr 4 e1
  | EFun FLsb e1 => TLsb :: pr 0 e1 ++ [TRPar]
  | EFun (FByte i) e1 => TByte i :: pr 0 e1 ++ [TRPar]
  | EBin o l r =>
      let body := pr (level o) l ++ TOp o :: pr (S (level o)) r in
      if lvl <=? level o then body else TLPar :: body ++ [TRPar]
  end.

(* what may follow an operand of level lvl: anything but a binary operator the loop of a level >= lvl would consume *)
Definition follow (lvl : nat) (ts : list token) : Prop :=
  match ts with TOp o :: _ => level o < lvl | _ => True end.

Definition Pok (k : nat) (ts : list token) (res : expr * list token) : Prop :=
  exists f0, forall f, f0 <= f -> parse f k ts = Ok res.
Definition Lok (k : nat) (lhs : expr) (ts : list token) (res : expr * list token) : Prop :=
  exists f0, forall f, f0 <= f -> ploop f k lhs ts = Ok res.

Lemma level_le3 o : level o <= 3.
Proof. destruct o; cbn; lia. Qed.

Lemma follow_weaken k k' ts : k <= k' -> follow k ts -> follow k' ts.
Proof. unfold follow. destruct ts as [|[]]; auto. intros; lia. Qed.

(* ---------- one step of each function, with "enough fuel" ---------- *)
Lemma Pok_step k ts x r res : k < 4 -> Pok (S k) ts (x, r) -> Lok k x r res -> Pok k ts res.
Proof.
  intros Hk [f1 H1] [f2 H2]. exists (S (Nat.max f1 f2)). intros f Hf.
  destruct f as [|f]; [lia|]. cbn [parse].
  apply Nat.ltb_lt in Hk. rewrite Hk. rewrite H1 by lia. apply H2. lia.
Qed.

Lemma Lok_stop k lhs ts : match ts with TOp o :: _ => level o <> k | _ => True end -> Lok k lhs ts (lhs, ts).
Proof.
  intros H. exists 1. intros f Hf. destruct f as [|f]; [lia|]. cbn [ploop].
  destruct ts as [|[n|s|o| |i| |] r]; try reflexivity.
  apply Nat.eqb_neq in H. now rewrite H.
Qed.

Lemma Lok_op k lhs o r rhs r1 res :
  level o = k -> Pok (S k) r (rhs, r1) -> Lok k (EBin o lhs rhs) r1 res -> Lok k lhs (TOp o :: r) res.
Proof.
  intros Hl [f1 H1] [f2 H2]. exists (S (Nat.max f1 f2)). intros f Hf.
  destruct f as [|f]; [lia|]. cbn [ploop]. apply Nat.eqb_eq in Hl. rewrite Hl.
  rewrite H1 by lia. apply H2. lia.
Qed.

Lemma Pok_primary k ts res : 4 <= k ->
  (exists f0, forall f, f0 <= f -> parse (S f) k ts = Ok res) -> Pok k ts res.
Proof.
  intros _ [f0 H]. exists (S f0). intros f Hf. destruct f as [|f]; [lia|]. apply H. lia.
Qed.

Lemma ltb4_false k : 4 <= k -> (k <? 4) = false.
Proof. intros. apply Nat.ltb_ge. lia. Qed.

Lemma Pok_num k n rest : 4 <= k -> Pok k (TNum n :: rest) (ENum n, rest).
Proof. intros Hk. exists 1. intros [|f] Hf; [lia|]. cbn [parse]. now rewrite (ltb4_false k Hk). Qed.

Lemma Pok_label k s rest : 4 <= k -> Pok k (TLabel s :: rest) (ELabel s, rest).
Proof. intros Hk. exists 1. intros [|f] Hf; [lia|]. cbn [parse]. now rewrite (ltb4_false k Hk). Qed.

Lemma Pok_neg k ts e r1 : 4 <= k -> Pok 4 ts (e, r1) -> Pok k (TOp OSub :: ts) (ENeg e, r1).
Proof.
  intros Hk [f1 H1]. exists (S f1). intros [|f] Hf; [lia|]. cbn [parse]. rewrite (ltb4_false k Hk).
  now rewrite H1 by lia.
Qed.

Lemma Pok_lsb k ts e r2 : 4 <= k -> Pok 0 ts (e, TRPar :: r2) -> Pok k (TLsb :: ts) (EFun FLsb e, r2).
Proof.
  intros Hk [f1 H1]. exists (S f1). intros [|f] Hf; [lia|]. cbn [parse]. rewrite (ltb4_false k Hk).
  now rewrite H1 by lia.
Qed.

Lemma Pok_byte k i ts e r2 : 4 <= k -> Pok 0 ts (e, TRPar :: r2) -> Pok k (TByte i :: ts) (EFun (FByte i) e, r2).
Proof.
  intros Hk [f1 H1]. exists (S f1). intros [|f] Hf; [lia|]. cbn [parse]. rewrite (ltb4_false k Hk).
  now rewrite H1 by lia.
Qed.

Lemma Pok_paren k ts e r2 : 4 <= k -> Pok 0 ts (e, TRPar :: r2) -> Pok k (TLPar :: ts) (e, r2).
Proof.
  intros Hk [f1 H1]. exists (S f1). intros [|f] Hf; [lia|]. cbn [parse]. rewrite (ltb4_false k Hk).
  now rewrite H1 by lia.
Qed.

(* ---------- climbing: a complete operand of level 4 is also a complete operand of every lower level, provided what
   follows is not an operator those levels would consume ---------- *)
Lemma climb e ts rest : Pok 4 ts (e, rest) -> forall d k, k + d = 4 -> follow k rest -> Pok k ts (e, rest).
Proof.
  intros H4. induction d as [|d IH]; intros k Hk Hf.
  - replace k with 4 by lia. exact H4.
  - apply (Pok_step k ts e rest); [lia | apply IH; [lia | eapply follow_weaken; [|exact Hf]; lia] |].
    apply Lok_stop. unfold follow in Hf. destruct rest as [|[n|s|o| |i| |] r]; auto. lia.
Qed.

(* an operand already complete at level m (m <= 4) is complete at every level k <= m *)
Lemma descend e ts rest m : Pok m ts (e, rest) -> forall d k, k + d = m -> m <= 4 -> follow k rest -> Pok k ts (e, rest).
Proof.
  intros Hm. induction d as [|d IH]; intros k Hk Hm4 Hf.
  - replace k with m by lia. exact Hm.
  - apply (Pok_step k ts e rest); [lia | apply IH; [lia | lia | eapply follow_weaken; [|exact Hf]; lia] |].
    apply Lok_stop. unfold follow in Hf. destruct rest as [|[n|s|o| |i| |] r]; auto. lia.
Qed.

(* ---------- the main induction ---------- *)
(* T: printed at level k and followed by something level k leaves alone, e is read back whole.
   G: printed at level j and followed by anything the levels above j leave alone, the parser arrives in the loop of
      level j with e as the left operand. *)
Definition T (e : expr) : Prop :=
  forall k rest, k <= 4 -> follow k rest -> Pok k (pr k e ++ rest) (e, rest).
Definition G (e : expr) : Prop :=
  forall j rest res, j <= 3 -> follow (S j) rest -> Lok j e rest res -> Pok j (pr j e ++ rest) res.

Lemma G_of_T e : T e -> (forall j, j <= 3 -> pr j e = pr (S j) e) -> G e.
Proof.
  intros HT Hpr j rest res Hj Hf HL.
  apply (Pok_step j _ e rest); [lia | | exact HL].
  rewrite (Hpr j Hj). apply HT; [lia | exact Hf].
Qed.

Lemma T_atomic e : (forall k, pr k e = pr 4 e) -> (forall rest, Pok 4 (pr 4 e ++ rest) (e, rest)) -> T e.
Proof.
  intros Hpr H4 k rest Hk Hf. rewrite Hpr. apply (climb e _ rest (H4 rest) (4 - k) k); [lia | exact Hf].
Qed.

Lemma app_cons_assoc {A} (l : list A) x r rest : (l ++ x :: r) ++ rest = l ++ x :: (r ++ rest).
Proof. now rewrite <- app_assoc. Qed.

Theorem parse_pr : forall e, T e /\ G e.
Proof.
  induction e as [n|s|e1 [T1 G1]|[|i] e1 [T1 G1]|o l [Tl Gl] r [Tr Gr]].
  - (* number *)
    assert (HT : T (ENum n)) by (apply T_atomic; [reflexivity | intros rest; apply Pok_num; lia]).
    split; [exact HT | apply G_of_T; [exact HT | reflexivity]].
  - assert (HT : T (ELabel s)) by (apply T_atomic; [reflexivity | intros rest; apply Pok_label; lia]).
    split; [exact HT | apply G_of_T; [exact HT | reflexivity]].
  - (* unary minus: its operand is a primary *)
    assert (HT : T (ENeg e1)).
    { apply T_atomic; [reflexivity|]. intros rest. cbn [pr app]. apply Pok_neg; [lia|].
      apply T1; [lia | unfold follow; destruct rest as [|[ | |o| | | | ] ?]; auto; pose proof (level_le3 o); lia]. }
    split; [exact HT | apply G_of_T; [exact HT | reflexivity]].
  - (* LSB( e ) *)
    assert (HT : T (EFun FLsb e1)).
    { apply T_atomic; [reflexivity|]. intros rest. cbn [pr app]. rewrite <- app_assoc. cbn [app].
      apply Pok_lsb; [lia|]. apply T1; [lia | exact I]. }
    split; [exact HT | apply G_of_T; [exact HT | reflexivity]].
  - assert (HT : T (EFun (FByte i) e1)).
    { apply T_atomic; [reflexivity|]. intros rest. cbn [pr app]. rewrite <- app_assoc. cbn [app].
      apply Pok_byte; [lia|]. apply T1; [lia | exact I]. }
    split; [exact HT | apply G_of_T; [exact HT | reflexivity]].
  - (* binary operator of level m *)
    set (m := level o). assert (Hm : m <= 3) by apply level_le3.
    set (body := pr m l ++ TOp o :: pr (S m) r).
    assert (Hbody : forall k, k <= m -> pr k (EBin o l r) = body).
    { intros k Hk. cbn [pr]. fold m. apply Nat.leb_le in Hk. now rewrite Hk. }
    assert (Hparen : forall k, m < k -> pr k (EBin o l r) = TLPar :: body ++ [TRPar]).
    { intros k Hk. cbn [pr]. fold m. apply Nat.leb_gt in Hk. now rewrite Hk. }
    (* in the loop of its own level: the left operand, then the operator and the right operand *)
    assert (Gm : forall rest res, follow (S m) rest -> Lok m (EBin o l r) rest res -> Pok m (body ++ rest) res).
    { intros rest res Hf HL. unfold body. rewrite app_cons_assoc.
      apply Gl; [exact Hm | unfold follow; fold m; lia |].
      apply (Lok_op m l o _ r rest); [reflexivity | apply Tr; [lia | exact Hf] | exact HL]. }
    assert (Tm : forall rest, follow m rest -> Pok m (body ++ rest) (EBin o l r, rest)).
    { intros rest Hf. apply Gm; [eapply follow_weaken; [|exact Hf]; lia |].
      apply Lok_stop. unfold follow in Hf. destruct rest as [|[ | |o'| | | | ] ?]; auto. lia. }
    assert (Tlow : forall k rest, k <= m -> follow k rest -> Pok k (body ++ rest) (EBin o l r, rest)).
    { intros k rest Hk Hf.
      apply (descend _ _ rest m (Tm rest (follow_weaken k m rest Hk Hf)) (m - k) k); [lia | lia | exact Hf]. }
    assert (HT : T (EBin o l r)).
    { intros k rest Hk Hf. destruct (Nat.le_gt_cases k m) as [Hkm|Hkm].
      - rewrite Hbody by exact Hkm. apply Tlow; assumption.
      - rewrite Hparen by exact Hkm. cbn [app]. rewrite <- app_assoc. cbn [app].
        apply (climb _ _ rest) with (d := 4 - k); [| lia | exact Hf].
        apply Pok_paren; [lia|]. apply Tlow; [lia | exact I]. }
    split; [exact HT|].
    intros j rest res Hj Hf HL. destruct (Nat.eq_dec j m) as [->|Hjm].
    + rewrite Hbody by lia. apply Gm; assumption.
    + apply (Pok_step j _ (EBin o l r) rest); [lia | | exact HL].
      assert (Hpr : pr j (EBin o l r) = pr (S j) (EBin o l r)).
      { destruct (Nat.le_gt_cases j m) as [Hle|Hgt].
        - rewrite Hbody by lia. rewrite Hbody by lia. reflexivity.
        - rewrite Hparen by lia. rewrite Hparen by lia. reflexivity. }
      rewrite Hpr. apply HT; [lia | exact Hf].
Qed.

(* ---------- from "enough fuel" to the fuel parse_tokens really uses ---------- *)
Lemma fuel_mono : forall f,
  (forall k ts r, parse f k ts = r -> r <> OutOfFuel -> parse (S f) k ts = r)
  /\ (forall k lhs ts r, ploop f k lhs ts = r -> r <> OutOfFuel -> ploop (S f) k lhs ts = r).
Proof.
  induction f as [|f [IHp IHl]].
  - split; intros; cbn in *; subst; congruence.
  - split.
    + intros k ts r H Hr. cbn [parse] in H. remember (S f) as g eqn:Eg. cbn [parse]. subst g.
      destruct (k <? 4) eqn:Ek.
      * destruct (parse f (S k) ts) as [[lhs r1]| |] eqn:E1.
        -- rewrite (IHp (S k) ts _ E1) by discriminate. apply IHl; assumption.
        -- rewrite (IHp (S k) ts _ E1) by discriminate. exact H.
        -- subst. congruence.
      * destruct ts as [|t rest]; [exact H|].
        destruct t as [n|s|o| |i| |]; try exact H.
        -- destruct o; try exact H.
           destruct (parse f 4 rest) as [[e1 r1]| |] eqn:E1;
             [rewrite (IHp 4 rest _ E1) by discriminate; exact H | rewrite (IHp 4 rest _ E1) by discriminate; exact H | subst; congruence].
        -- destruct (parse f 0 rest) as [[e1 r1]| |] eqn:E1;
             [rewrite (IHp 0 rest _ E1) by discriminate; exact H | rewrite (IHp 0 rest _ E1) by discriminate; exact H | subst; congruence].
        -- destruct (parse f 0 rest) as [[e1 r1]| |] eqn:E1;
             [rewrite (IHp 0 rest _ E1) by discriminate; exact H | rewrite (IHp 0 rest _ E1) by discriminate; exact H | subst; congruence].
        -- destruct (parse f 0 rest) as [[e1 r1]| |] eqn:E1;
             [rewrite (IHp 0 rest _ E1) by discriminate; exact H | rewrite (IHp 0 rest _ E1) by discriminate; exact H | subst; congruence].
    + intros k lhs ts r H Hr. cbn [ploop] in H. remember (S f) as g eqn:Eg. cbn [ploop]. subst g.
      destruct ts as [|t rest]; [exact H|].
      destruct t as [n|s|o| |i| |]; try exact H.
      destruct (Nat.eqb (level o) k); [|exact H].
      destruct (parse f (S k) rest) as [[rhs r1]| |] eqn:E1.
      * rewrite (IHp (S k) rest _ E1) by discriminate. apply IHl; assumption.
      * rewrite (IHp (S k) rest _ E1) by discriminate. exact H.
      * subst. congruence.
Qed.

Lemma fuel_mono_add d : forall f k ts r, parse f k ts = r -> r <> OutOfFuel -> parse (f + d) k ts = r.
Proof.
  induction d as [|d IH]; intros f k ts r H Hr.
  - now rewrite Nat.add_0_r.
  - rewrite Nat.add_succ_r. apply (proj1 (fuel_mono (f + d))); [apply IH; assumption | exact Hr].
Qed.

(* every expression tree is read back from its minimally parenthesised token sequence *)
Theorem parse_print_roundtrip e : parse_tokens (pr 0 e) = Ok e.
Proof.
  destruct (parse_pr e) as [HT _].
  destruct (HT 0 [] ltac:(lia) I) as [f0 H0]. rewrite app_nil_r in H0.
  unfold parse_tokens. set (F := parse_fuel (pr 0 e)).
  destruct (parse_fuel_ok F) as [Hp _].
  destruct (Hp 0 (pr 0 e) ltac:(unfold F, parse_fuel, need; cbn; lia)) as [Hne _].
  pose proof (fuel_mono_add f0 F 0 (pr 0 e) _ eq_refl Hne) as Hm.
  rewrite (H0 (F + f0) ltac:(lia)) in Hm. rewrite <- Hm. reflexivity.
Qed.

(* precedence and associativity, read off the printer: no brackets are needed (so none are implied) exactly when ... *)
Example assoc_left a b c :
  parse_tokens [TNum a; TOp OSub; TNum b; TOp OSub; TNum c] = Ok (EBin OSub (EBin OSub (ENum a) (ENum b)) (ENum c)).
Proof. exact (parse_print_roundtrip (EBin OSub (EBin OSub (ENum a) (ENum b)) (ENum c))). Qed.

Example mul_binds_tighter a b c :
  parse_tokens [TNum a; TOp OAdd; TNum b; TOp OMul; TNum c] = Ok (EBin OAdd (ENum a) (EBin OMul (ENum b) (ENum c))).
Proof. exact (parse_print_roundtrip (EBin OAdd (ENum a) (EBin OMul (ENum b) (ENum c)))). Qed.

Example shift_below_add a b c :
  parse_tokens [TNum a; TOp OShl; TNum b; TOp OAdd; TNum c] = Ok (EBin OShl (ENum a) (EBin OAdd (ENum b) (ENum c))).
Proof. exact (parse_print_roundtrip (EBin OShl (ENum a) (EBin OAdd (ENum b) (ENum c)))). Qed.

Example neg_binds_tightest a b :
  parse_tokens [TOp OSub; TNum a; TOp OAdd; TNum b] = Ok (EBin OAdd (ENeg (ENum a)) (ENum b)).
Proof. exact (parse_print_roundtrip (EBin OAdd (ENeg (ENum a)) (ENum b))). Qed.

Example brackets_needed a b c :
  parse_tokens [TLPar; TNum a; TOp OAdd; TNum b; TRPar; TOp OMul; TNum c] = Ok (EBin OMul (EBin OAdd (ENum a) (ENum b)) (ENum c)).
Proof. exact (parse_print_roundtrip (EBin OMul (EBin OAdd (ENum a) (ENum b)) (ENum c))). Qed.

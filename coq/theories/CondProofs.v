(* CondProofs.v — the flat directive processor (Cond.v) refines the block-structured semantics (CondSpec.v),
   for every nesting depth and every condition evaluator. *)
From BA Require Import Base Cond CondSpec.

Section Proofs.
  Variable sym cond payload : Type.
  Variable ceval : sym -> cond -> result bool.
  Variable apply : sym -> payload -> result sym.
  Variable lineT outT : Type.
  Variable emit : sym -> lineT -> result outT.

  Notation directive := (directive cond payload lineT).
  Notation block := (block cond payload lineT).
  Notation blocks := (blocks cond payload lineT).
  Notation ctail := (ctail cond payload lineT).
  Notation run := (run sym cond ceval payload apply lineT outT emit).
  Notation step := (step sym cond ceval payload apply lineT outT emit).
  Notation run_block := (run_block sym cond payload ceval apply lineT outT emit).
  Notation run_blocks := (run_blocks sym cond payload ceval apply lineT outT emit).
  Notation run_tail := (run_tail sym cond payload ceval apply lineT outT emit).
  Notation flat_block := (flat_block cond payload lineT).
  Notation flat_blocks := (flat_blocks cond payload lineT).
  Notation flat_tail := (flat_tail cond payload lineT).
  Notation bstate := (bstate sym outT).
  Notation cstate := (cstate sym outT).
  Notation b_sym := (b_sym sym outT).
  Notation b_mute := (b_mute sym outT).
  Notation b_out := (b_out sym outT).

  Scheme block_mut := Induction for CondSpec.block Sort Prop
  with blocks_mut := Induction for CondSpec.blocks Sort Prop
  with ctail_mut := Induction for CondSpec.ctail Sort Prop.
  Combined Scheme block_blocks_ctail_ind from block_mut, blocks_mut, ctail_mut.

  Definition cs_of (b : bstate) (stk : list entry) : cstate :=
    {| st_sym := b_sym b; st_mute := b_mute b; st_out := b_out b; st_stack := stk |}.

  Lemma run_app s ds1 ds2 : run s (ds1 ++ ds2) = bind (run s ds1) (fun s' => run s' ds2).
  Proof.
    revert s; induction ds1 as [|d ds IH]; intros s; cbn [app Cond.run bind]; [reflexivity|].
    destruct (step s d) as [s'| |]; cbn [bind]; [apply IH | reflexivity | reflexivity].
  Qed.

  (* unfolding equations (the specification functions are mutually recursive; never unfold them with cbn) *)
  Lemma flat_line id : flat_block (BLine id) = [DLine id]. Proof. reflexivity. Qed.
  Lemma flat_effect p : flat_block (BEffect p) = [DEffect p]. Proof. reflexivity. Qed.
  Lemma flat_mute : flat_block BMute = [DMute]. Proof. reflexivity. Qed.
  Lemma flat_unmute : flat_block BUnmute = [DUnmute]. Proof. reflexivity. Qed.
  Lemma flat_chain c body tail : flat_block (BChain c body tail) = DOpen c :: flat_blocks body ++ flat_tail tail.
  Proof. reflexivity. Qed.
  Lemma flat_nil : flat_blocks BNil = []. Proof. reflexivity. Qed.
  Lemma flat_cons b bs : flat_blocks (BCons b bs) = flat_block b ++ flat_blocks bs. Proof. reflexivity. Qed.
  Lemma flat_tend : flat_tail TEnd = [DEndif]. Proof. reflexivity. Qed.
  Lemma flat_telse body : flat_tail (TElse body) = DElse :: flat_blocks body ++ [DEndif]. Proof. reflexivity. Qed.
  Lemma flat_telif c body rest : flat_tail (TElif c body rest) = DElif c :: flat_blocks body ++ flat_tail rest.
  Proof. reflexivity. Qed.
  Lemma rb_line s l : run_block s (BLine l)
    = do o <- emit (b_sym s) l;
      Ok {| CondSpec.b_sym := b_sym s; CondSpec.b_mute := b_mute s; CondSpec.b_out := (o, negb (Nat.eqb (b_mute s) 0)) :: b_out s |}.
  Proof. reflexivity. Qed.
  Lemma rb_effect s p : run_block s (BEffect p)
    = do t <- apply (b_sym s) p; Ok {| CondSpec.b_sym := t; CondSpec.b_mute := b_mute s; CondSpec.b_out := b_out s |}.
  Proof. reflexivity. Qed.
  Lemma rb_mute s : run_block s BMute = Ok {| CondSpec.b_sym := b_sym s; CondSpec.b_mute := S (b_mute s); CondSpec.b_out := b_out s |}.
  Proof. reflexivity. Qed.
  Lemma rb_unmute s : run_block s BUnmute = Ok {| CondSpec.b_sym := b_sym s; CondSpec.b_mute := pred (b_mute s); CondSpec.b_out := b_out s |}.
  Proof. reflexivity. Qed.
  Lemma rb_chain s c body tail : run_block s (BChain c body tail)
    = do g <- ceval (b_sym s) c; if g then run_blocks s body else run_tail s tail.
  Proof. reflexivity. Qed.
  Lemma rbs_nil s : run_blocks s BNil = Ok s. Proof. reflexivity. Qed.
  Lemma rbs_cons s b bs : run_blocks s (BCons b bs) = do s' <- run_block s b; run_blocks s' bs. Proof. reflexivity. Qed.
  Lemma rt_end s : run_tail s TEnd = Ok s. Proof. reflexivity. Qed.
  Lemma rt_else s body : run_tail s (TElse body) = run_blocks s body. Proof. reflexivity. Qed.
  Lemma rt_elif s c body rest : run_tail s (TElif c body rest)
    = do g <- ceval (b_sym s) c; if g then run_blocks s body else run_tail s rest.
  Proof. reflexivity. Qed.

  (* a chain entry after which no later branch of the chain can be selected *)
  Definition dead (e : entry) : Prop :=
    e_kind e <> KElse /\ (e_enclosing e && negb (e_taken e)) = false.

  (* ---------------------------------------------------------------------------------------- *)
  (* (I) in an unselected context nothing is run, evaluated or changed                          *)

  Lemma skip_all :
    (forall b : block, forall s stk rest, currently_active stk = false ->
        run (cs_of s stk) (flat_block b ++ rest) = run (cs_of s stk) rest)
    /\ (forall bs : blocks, forall s stk rest, currently_active stk = false ->
        run (cs_of s stk) (flat_blocks bs ++ rest) = run (cs_of s stk) rest)
    /\ (forall t : ctail, forall s e stk rest, dead e ->
        run (cs_of s (e :: stk)) (flat_tail t ++ rest) = run (cs_of s stk) rest).
  Proof.
    apply block_blocks_ctail_ind.
    - (* BLine *) intros id s stk rest Hin. rewrite ?flat_line, ?flat_effect, ?flat_mute, ?flat_unmute, ?flat_chain; cbn [app Cond.run Cond.step cs_of st_stack].
      rewrite Hin. reflexivity.
    - (* BEffect *) intros p s stk rest Hin. rewrite ?flat_line, ?flat_effect, ?flat_mute, ?flat_unmute, ?flat_chain; cbn [app Cond.run Cond.step cs_of st_stack].
      rewrite Hin. reflexivity.
    - (* BMute *) intros s stk rest Hin. rewrite ?flat_line, ?flat_effect, ?flat_mute, ?flat_unmute, ?flat_chain; cbn [app Cond.run Cond.step cs_of st_stack].
      rewrite Hin. reflexivity.
    - (* BUnmute *) intros s stk rest Hin. rewrite ?flat_line, ?flat_effect, ?flat_mute, ?flat_unmute, ?flat_chain; cbn [app Cond.run Cond.step cs_of st_stack].
      rewrite Hin. reflexivity.
    - (* BChain *) intros c body IHbody tail IHtail s stk rest Hin.
      rewrite ?flat_line, ?flat_effect, ?flat_mute, ?flat_unmute, ?flat_chain; cbn [app Cond.run Cond.step cs_of st_stack]. rewrite Hin. cbn [bind].
      rewrite <- app_assoc.
      change (with_stack sym outT (cs_of s stk) ?x) with (cs_of s x).
      rewrite IHbody by reflexivity.
      apply IHtail; split; [discriminate | reflexivity].
    - (* BNil *) intros s stk rest Hin. reflexivity.
    - (* BCons *) intros b IHb bs IHbs s stk rest Hin. rewrite flat_cons.
      rewrite <- app_assoc, IHb by exact Hin. apply IHbs. exact Hin.
    - (* TEnd *) intros s e stk rest Hd. reflexivity.
    - (* TElse *) intros body IHbody s e stk rest [Hk Hd].
      rewrite ?flat_telse, ?flat_telif; cbn [app Cond.run Cond.step cs_of st_stack].
      destruct (e_kind e) eqn:K; try (now elim Hk); cbn [bind]; rewrite Hd;
        change (with_stack sym outT (cs_of s (e :: stk)) ?x) with (cs_of s x);
        rewrite <- app_assoc, IHbody by reflexivity; reflexivity.
    - (* TElif *) intros c body IHbody rest' IHrest s e stk rest [Hk Hd].
      rewrite ?flat_telse, ?flat_telif; cbn [app Cond.run Cond.step cs_of st_stack].
      destruct (e_kind e) eqn:K; try (now elim Hk); rewrite Hd; cbn [bind];
        change (with_stack sym outT (cs_of s (e :: stk)) ?x) with (cs_of s x);
        rewrite <- app_assoc, IHbody by reflexivity;
        (apply IHrest; split; [discriminate | exact Hd]).
  Qed.

  (* ---------------------------------------------------------------------------------------- *)
  (* (II) in a selected context the flat run is the block semantics                              *)

  Definition live (e : entry) : Prop :=
    e_kind e <> KElse /\ e_enclosing e = true /\ e_taken e = false.

  Lemma run_all :
    (forall b : block, forall s stk rest, currently_active stk = true ->
        run (cs_of s stk) (flat_block b ++ rest) = bind (run_block s b) (fun s' => run (cs_of s' stk) rest))
    /\ (forall bs : blocks, forall s stk rest, currently_active stk = true ->
        run (cs_of s stk) (flat_blocks bs ++ rest) = bind (run_blocks s bs) (fun s' => run (cs_of s' stk) rest))
    /\ (forall t : ctail, forall s e stk rest, live e -> e_active e = false -> currently_active stk = true ->
        run (cs_of s (e :: stk)) (flat_tail t ++ rest) = bind (run_tail s t) (fun s' => run (cs_of s' stk) rest)).
  Proof.
    destruct skip_all as [skip_b [skip_bs skip_t]].
    apply block_blocks_ctail_ind.
    - (* BLine *) intros l s stk rest Hact.
      rewrite flat_line, rb_line; cbn [app Cond.run Cond.step cs_of st_stack st_mute st_sym st_out].
      rewrite Hact. destruct (emit (b_sym s) l); reflexivity.
    - (* BEffect *) intros p s stk rest Hact.
      rewrite flat_effect, rb_effect; cbn [app Cond.run Cond.step cs_of st_stack st_mute st_sym st_out].
      rewrite Hact. destruct (apply (b_sym s) p); reflexivity.
    - (* BMute *) intros s stk rest Hact.
      rewrite ?flat_line, ?flat_mute, ?flat_unmute, ?rb_line, ?rb_mute, ?rb_unmute; cbn [app Cond.run Cond.step cs_of st_stack st_mute st_sym st_out bind].
      rewrite Hact. reflexivity.
    - (* BUnmute *) intros s stk rest Hact.
      rewrite ?flat_line, ?flat_mute, ?flat_unmute, ?rb_line, ?rb_mute, ?rb_unmute; cbn [app Cond.run Cond.step cs_of st_stack st_mute st_sym st_out bind].
      rewrite Hact. reflexivity.
    - (* BChain *) intros c body IHbody tail IHtail s stk rest Hact.
      rewrite flat_chain, rb_chain; cbn [app Cond.run Cond.step cs_of st_stack st_sym].
      rewrite Hact.
      destruct (ceval (b_sym s) c) as [g| |]; cbn [bind]; try reflexivity.
      change (with_stack sym outT (cs_of s stk) ?x) with (cs_of s x).
      rewrite <- app_assoc.
      destruct g.
      + (* first branch selected: body runs, the rest of the chain is dead *)
        rewrite IHbody by reflexivity.
        destruct (run_blocks s body) as [s'| |]; cbn [bind]; try reflexivity.
        apply (skip_t tail s' {| e_kind := KOpen; e_enclosing := true; e_taken := true; e_active := true |} stk rest).
        split; [discriminate | reflexivity].
      + (* first branch not selected: body skipped, continue with the tail *)
        rewrite skip_bs by reflexivity.
        apply IHtail; [repeat split; discriminate | reflexivity | exact Hact].
    - (* BNil *) intros s stk rest Hact. reflexivity.
    - (* BCons *) intros b IHb bs IHbs s stk rest Hact. rewrite flat_cons, rbs_cons.
      rewrite <- app_assoc, IHb by exact Hact.
      destruct (run_block s b) as [s'| |]; cbn [bind]; try reflexivity. apply IHbs. exact Hact.
    - (* TEnd *) intros s e stk rest Hl Ha Hact. reflexivity.
    - (* TElse *) intros body IHbody s e stk rest [Hk [He Ht]] Ha Hact.
      rewrite flat_telse, rt_else; cbn [app Cond.run Cond.step cs_of st_stack].
      destruct (e_kind e) eqn:K; try (now elim Hk); cbn [bind]; rewrite He, Ht; cbn [andb negb orb];
        change (with_stack sym outT (cs_of s (e :: stk)) ?x) with (cs_of s x);
        rewrite <- app_assoc, IHbody by reflexivity;
        (destruct (run_blocks s body) as [s'| |]; cbn [bind]; reflexivity).
    - (* TElif *) intros c body IHbody rest' IHrest s e stk rest [Hk [He Ht]] Ha Hact.
      rewrite flat_telif, rt_elif; cbn [app Cond.run Cond.step cs_of st_stack st_sym].
      destruct (e_kind e) eqn:K; try (now elim Hk); rewrite He, Ht; cbn [andb negb orb];
      (destruct (ceval (b_sym s) c) as [g| |]; cbn [bind]; try reflexivity;
       change (with_stack sym outT (cs_of s (e :: stk)) ?x) with (cs_of s x);
       rewrite <- app_assoc; destruct g;
       [ rewrite IHbody by reflexivity;
         destruct (run_blocks s body) as [s'| |]; cbn [bind]; try reflexivity;
         apply (skip_t rest' s' {| e_kind := KElif; e_enclosing := true; e_taken := true; e_active := true |} stk rest);
         split; [discriminate | reflexivity]
       | rewrite skip_bs by reflexivity;
         apply IHrest; [repeat split; discriminate | reflexivity | exact Hact] ]).
  Qed.

  (* whole file: the flat text of any block tree is processed exactly as the block semantics prescribes *)
  Theorem flat_refines_blocks (bs : blocks) (t : sym) :
    run_file sym cond ceval payload apply lineT outT emit t (flat_blocks bs)
    = do s <- run_blocks {| CondSpec.b_sym := t; CondSpec.b_mute := 0; CondSpec.b_out := [] |} bs;
      Ok (rev (b_out s), b_sym s).
  Proof.
    destruct run_all as [_ [Hbs _]].
    unfold run_file, init.
    specialize (Hbs bs {| CondSpec.b_sym := t; CondSpec.b_mute := 0; CondSpec.b_out := [] |} [] [] eq_refl).
    rewrite app_nil_r in Hbs. unfold cs_of in Hbs. cbn [CondSpec.b_sym CondSpec.b_mute CondSpec.b_out] in Hbs. rewrite Hbs.
    destruct (run_blocks _ bs) as [s| |]; reflexivity.
  Qed.

  (* an #else, #elif or #endif without a matching opener is rejected *)
  Theorem unmatched_rejected (s : cstate) (d : directive) (rest : list directive) :
    st_stack sym outT s = [] -> (d = DElse \/ d = DEndif \/ exists c, d = DElif c) ->
    run s (d :: rest) = Rejected.
  Proof.
    intros Hs [->|[->|[c ->]]]; cbn [Cond.run Cond.step]; rewrite Hs; reflexivity.
  Qed.

  (* #else after #else, #elif after #else are rejected *)
  Theorem after_else_rejected (s : cstate) e stk (d : directive) (rest : list directive) :
    st_stack sym outT s = e :: stk -> e_kind e = KElse -> (d = DElse \/ exists c, d = DElif c) ->
    run s (d :: rest) = Rejected.
  Proof.
    intros Hs Hk [->|[c ->]]; cbn [Cond.run Cond.step]; rewrite Hs, Hk; reflexivity.
  Qed.

End Proofs.

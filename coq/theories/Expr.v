(* Expr.v — implementation model of src/bespokeasm/expression/__init__.py and utilities.py:
     _lexical_analysis (re.findall over EXPRESSION_PARTS_PATTERN + token classification),
     _parse_e .. _parse_e4 / _match (recursive descent on the token list),
     ExpressionNode._compute / get_value (evaluation), parse_numeric_string.
   Text is a list of character codes (ASCII); no proofs here. *)
From BA Require Export Base.
From Coq Require Export QArith Qround.
Open Scope Z_scope.

Definition str := list Z.

(* ---------- character classes (ASCII) ---------- *)
Definition is_digit (c : Z) : bool := (48 <=? c) && (c <=? 57).
Definition is_bin (c : Z) : bool := (c =? 48) || (c =? 49).
Definition is_lower (c : Z) : bool := (97 <=? c) && (c <=? 122).
Definition is_upper (c : Z) : bool := (65 <=? c) && (c <=? 90).
Definition is_alpha (c : Z) : bool := is_lower c || is_upper c.
Definition is_hex (c : Z) : bool :=
  is_digit c || ((97 <=? c) && (c <=? 102)) || ((65 <=? c) && (c <=? 70)).
Definition is_word (c : Z) : bool := is_digit c || is_alpha c || (c =? 95).
(* characters str.strip()/re treat as whitespace inside a source line *)
Definition is_space (c : Z) : bool := (c =? 32) || ((9 <=? c) && (c <=? 13)) || ((28 <=? c) && (c <=? 31)).

Fixpoint span (p : Z -> bool) (s : str) : str * str :=
  match s with
  | c :: r => if p c then let '(a, b) := span p r in (c :: a, b) else ([], s)
  | [] => ([], [])
  end.

Definition hex_val (c : Z) : Z :=
  if is_digit c then c - 48 else if (97 <=? c) then c - 87 else c - 55.
Definition num_of (base : Z) (ds : str) : Z := fold_left (fun a c => a * base + hex_val c) ds 0.

(* ---------- tokens ---------- *)
Inductive binop := OAnd | OOr | OXor | OShl | OShr | OAdd | OSub | OMul | ODiv | OMod.

Inductive token :=
| TNum (n : Z)
| TLabel (name : str)
| TOp (o : binop)            (* TOp OSub is also the unary minus *)
| TLsb                       (* "LSB("  *)
| TByte (idx : option Z)     (* "BYTEd(" ; also any word starting with BYTE (idx = None when value[4] is no digit) *)
| TLPar | TRPar.
(* T_END is the end of the list *)

Definition binop_eqb (a b : binop) : bool :=
  match a, b with
  | OAnd, OAnd | OOr, OOr | OXor, OXor | OShl, OShl | OShr, OShr
  | OAdd, OAdd | OSub, OSub | OMul, OMul | ODiv, ODiv | OMod, OMod => true
  | _, _ => false
  end.

(* ---------- re.findall(EXPRESSION_PARTS_PATTERN, s): one match attempt at the head of s ---------- *)

Definition starts_with (p s : str) : bool := list_eqb Z.eqb p (firstn (length p) s) .

(* is_valid_label on a part produced by the alternative (?:\.|_)?\w+ *)
Definition valid_label (w : str) : bool :=
  match w with
  | c0 :: rest =>
      ((c0 =? 46) || (c0 =? 95) || is_alpha c0)
      && forallb is_word rest
      && negb (starts_with [95; 95] w) && negb (starts_with [46; 46] w)
  | [] => false
  end.

(* is_string_numeric (case-insensitive) on such a word: (b)[01]+ or [0-9a-f]+h, any letter case *)
Definition word_numeric_ci (w : str) : bool :=
  match w with
  | c0 :: rest =>
      (((c0 =? 98) || (c0 =? 66)) && negb (Nat.eqb (length rest) 0) && forallb is_bin rest)
      || (match rev w with
          | h :: body => ((h =? 72) || (h =? 104)) && negb (Nat.eqb (length body) 0) && forallb is_hex body
          | [] => false
          end)
      || (((c0 =? 48) && match rest with x :: hs => ((x =? 120) || (x =? 88)) && negb (Nat.eqb (length hs) 0) && forallb is_hex hs | [] => false end))
      || forallb is_digit w
  | [] => false
  end.

Definition byte_word_idx (w : str) : option Z :=      (* int(value[4]) for a word starting with BYTE *)
  match nth_error w 4 with
  | Some c => if is_digit c then Some (c - 48) else None
  | None => None
  end.

Inductive lexres := LTok (t : token) (rest : str) | LSkip | LBad.

Definition next_is_word (s : str) : bool := match s with c :: _ => is_word c | [] => false end.

Definition lex_one (s : str) : lexres :=
  match s with
  | [] => LSkip
  | c :: r =>
    (* 1. (?:%|b)[01]+ *)
    let '(bins, r_bin) := span is_bin r in
    if ((c =? 37) || (c =? 98)) && negb (Nat.eqb (length bins) 0) then LTok (TNum (num_of 2 bins)) r_bin else
    (* 2a. (?:\$|0x)[0-9a-fA-F]+ *)
    let '(hex1, r_hex1) := span is_hex r in
    if (c =? 36) && negb (Nat.eqb (length hex1) 0) then LTok (TNum (num_of 16 hex1)) r_hex1 else
    let '(hex2, r_hex2) := span is_hex (tl r) in
    if (c =? 48) && (match r with x :: _ => x =? 120 | [] => false end) && negb (Nat.eqb (length hex2) 0)
    then LTok (TNum (num_of 16 hex2)) r_hex2 else
    (* 2b. [0-9a-fA-F]+H\b *)
    let '(hrun, r_hrun) := span is_hex s in
    if negb (Nat.eqb (length hrun) 0)
       && (match r_hrun with h :: after => (h =? 72) && negb (next_is_word after) | [] => false end)
    then LTok (TNum (num_of 16 hrun)) (tl r_hrun) else
    (* 3. \d+ *)
    let '(ds, r_ds) := span is_digit s in
    if negb (Nat.eqb (length ds) 0) then LTok (TNum (num_of 10 ds)) r_ds else
    (* 4. single-character operators and parentheses *)
    if c =? 43 then LTok (TOp OAdd) r else
    if c =? 45 then LTok (TOp OSub) r else
    if c =? 42 then LTok (TOp OMul) r else
    if c =? 47 then LTok (TOp ODiv) r else
    if c =? 38 then LTok (TOp OAnd) r else
    if c =? 124 then LTok (TOp OOr) r else
    if c =? 94 then LTok (TOp OXor) r else
    if c =? 40 then LTok TLPar r else
    if c =? 41 then LTok TRPar r else
    (* 5,6. >> << *)
    if (c =? 62) && (match r with x :: _ => x =? 62 | [] => false end) then LTok (TOp OShr) (tl r) else
    if (c =? 60) && (match r with x :: _ => x =? 60 | [] => false end) then LTok (TOp OShl) (tl r) else
    (* 7. % *)
    if c =? 37 then LTok (TOp OMod) r else
    (* 8. LSB\( *)
    if starts_with [76; 83; 66; 40] s then LTok TLsb (skipn 4 s) else
    (* 9. BYTE\d\( *)
    if starts_with [66; 89; 84; 69] s
       && (match skipn 4 s with d :: p :: _ => is_digit d && (p =? 40) | _ => false end)
    then LTok (TByte (Some (nth 4 s 0 - 48))) (skipn 6 s) else
    (* 10. (?:\.|_)?\w+ *)
    let '(w0, r_w0) := span is_word s in
    let '(w1, r_w1) := span is_word r in
    let word := if negb (Nat.eqb (length w0) 0) then Some (w0, r_w0)
                else if (c =? 46) && negb (Nat.eqb (length w1) 0) then Some (c :: w1, r_w1)
                else None in
    match word with
    | Some (w, rest) =>
        if starts_with [66; 89; 84; 69] w then LTok (TByte (byte_word_idx w)) rest
        (* (is_string_numeric is case sensitive since D43: a word that reaches this alternative is never a number) *)
        else if valid_label w then LTok (TLabel w) rest
        else LBad                                     (* "invalid token" *)
    | None =>
    (* 11. '.' *)
    match (match r with
           | ch :: q2 :: rest => if (c =? 39) && (q2 =? 39) then Some (ch, rest) else None
           | _ => None
           end) with
    | Some (ch, rest) => if negb (ch =? 10) then LTok (TNum ch) rest else LBad
    | None =>
    (* 12. [><]  -> "invalid token" *)
    if (c =? 62) || (c =? 60) then LBad else
    (* no alternative matches here: whitespace is skipped, anything else is an error (fix D3) *)
    if is_space c then LSkip else LBad
    end
    end
  end.

Fixpoint lex (fuel : nat) (s : str) : result (list token) :=
  match fuel with
  | O => match s with [] => Ok [] | _ => OutOfFuel end
  | S f =>
    match s with
    | [] => Ok []
    | _ :: r =>
      match lex_one s with
      | LTok t rest => do ts <- lex f rest; Ok (t :: ts)
      | LSkip => lex f r
      | LBad => Rejected
      end
    end
  end.

Definition lex_text (s : str) : result (list token) := lex (length s) s.

(* ---------- AST and recursive-descent parser ---------- *)

Inductive ufun := FLsb | FByte (idx : option Z).

Inductive expr :=
| ENum (n : Z)
| ELabel (name : str)
| ENeg (e : expr)
| EFun (f : ufun) (e : expr)
| EBin (o : binop) (l r : expr).

(* precedence level of a binary operator: 0 = & | ^ , 1 = << >> , 2 = + - , 3 = * / % *)
Definition level (o : binop) : nat :=
  match o with
  | OAnd | OOr | OXor => 0
  | OShl | OShr => 1
  | OAdd | OSub => 2
  | OMul | ODiv | OMod => 3
  end%nat.

(* parse fuel lvl ts  = _parse_e (lvl 0) .. _parse_e3 (lvl 3), _parse_e4 (lvl >= 4);
   ploop = the `while tokens[0].token_type in [...]` loop of that level *)
Fixpoint parse (fuel : nat) (lvl : nat) (ts : list token) {struct fuel} : result (expr * list token) :=
  match fuel with
  | O => OutOfFuel
  | S f =>
    if (lvl <? 4)%nat then
      match parse f (S lvl) ts with
      | Ok (lhs, r) => ploop f lvl lhs r
      | Rejected => Rejected
      | OutOfFuel => OutOfFuel
      end
    else
      match ts with
      | TNum n :: r => Ok (ENum n, r)
      | TLabel s :: r => Ok (ELabel s, r)
      | TLsb :: r =>
          match parse f 0 r with
          | Ok (e, TRPar :: r2) => Ok (EFun FLsb e, r2)
          | Ok _ => Rejected
          | Rejected => Rejected
          | OutOfFuel => OutOfFuel
          end
      | TByte i :: r =>
          match parse f 0 r with
          | Ok (e, TRPar :: r2) => Ok (EFun (FByte i) e, r2)
          | Ok _ => Rejected
          | Rejected => Rejected
          | OutOfFuel => OutOfFuel
          end
      | TOp OSub :: r =>
          (* fix D1: the operand of a negation is a primary (_parse_e4), not a whole expression *)
          match parse f 4 r with
          | Ok (e, r1) => Ok (ENeg e, r1)
          | Rejected => Rejected
          | OutOfFuel => OutOfFuel
          end
      | TLPar :: r =>
          match parse f 0 r with
          | Ok (e, TRPar :: r2) => Ok (e, r2)
          | Ok _ => Rejected
          | Rejected => Rejected
          | OutOfFuel => OutOfFuel
          end
      | _ => Rejected
      end
  end
with ploop (fuel : nat) (lvl : nat) (lhs : expr) (ts : list token) {struct fuel} : result (expr * list token) :=
  match fuel with
  | O => OutOfFuel
  | S g =>
    match ts with
    | TOp o :: r =>
        if Nat.eqb (level o) lvl then
          match parse g (S lvl) r with
          | Ok (rhs, r1) => ploop g lvl (EBin o lhs rhs) r1
          | Rejected => Rejected
          | OutOfFuel => OutOfFuel
          end
        else Ok (lhs, ts)
    | _ => Ok (lhs, ts)
    end
  end.

Definition parse_fuel (ts : list token) : nat := 6 * length ts + 6.

(* parse_expression: _parse_e then _match(T_END) *)
Definition parse_tokens (ts : list token) : result expr :=
  do er <- parse (parse_fuel ts) 0 ts;
  match snd er with [] => Ok (fst er) | _ => Rejected end.

(* ---------- evaluation ---------- *)

(* BYTEn / LSB:  byte_count = max((abs(x).bit_length()+7)//8, n+1);
                 (x & (2**(8*byte_count)-1)).to_bytes(byte_count,'little')[n] *)
Definition bit_length (a : Z) : Z := if a =? 0 then 0 else Z.log2 a + 1.
Definition byte_n (x n : Z) : Z :=
  let byte_count := Z.max ((bit_length (Z.abs x) + 7) / 8) (n + 1) in
  let masked := Z.land x (2 ^ (8 * byte_count) - 1) in
  (masked / 2 ^ (8 * n)) mod 256.

(* numbers are exact rationals (fix D2: fractions.Fraction instead of float) *)
Definition trunc (q : Q) : Z := Z.quot (Qnum q) (Z.pos (Qden q)).   (* int(): toward zero *)
Definition qz (z : Z) : Q := inject_Z z.
Definition q_is_zero (q : Q) : bool := Qnum q =? 0.
Definition qmod (a b : Q) : Q := a - b * qz (Qfloor (a / b)).     (* Python %, floored *)

Definition env := str -> option Z.

(* x >> n.  Z.shiftr halves n times, which never finishes in practice for a count such as 10^16; a count beyond the size of
   the operand gives the sign fill at once.  [shr_spec] (ExprProofs.v): for n >= 0 this is Z.shiftr. *)
Definition shr (a n : Z) : Z :=
  if Z.log2 (Z.abs a) + 1 <? n then (if a <? 0 then -1 else 0) else Z.shiftr a n.

Fixpoint compute (rho : env) (e : expr) : result Q :=
  match e with
  | ENum n => Ok (qz n)
  | ELabel s => match rho s with Some v => Ok (qz v) | None => Rejected end
  | ENeg a => do x <- compute rho a; Ok (- x)%Q
  | EFun f a =>
      do x <- compute rho a;
      match f with
      | FLsb => Ok (qz (byte_n (trunc x) 0))
      | FByte (Some i) => Ok (qz (byte_n (trunc x) i))
      | FByte None => Rejected
      end
  | EBin o a b =>
      do x <- compute rho a;
      do y <- compute rho b;
      match o with
      | OAdd => Ok (x + y)%Q
      | OSub => Ok (x - y)%Q
      | OMul => Ok (x * y)%Q
      | ODiv => if q_is_zero y then Rejected else Ok (x / y)%Q
      | OMod => if q_is_zero y then Rejected else Ok (qmod x y)
      | OAnd => Ok (qz (Z.land (trunc x) (trunc y)))
      | OOr => Ok (qz (Z.lor (trunc x) (trunc y)))
      | OXor => Ok (qz (Z.lxor (trunc x) (trunc y)))
      | OShl => if trunc y <? 0 then Rejected else Ok (qz (Z.shiftl (trunc x) (trunc y)))
      | OShr => if trunc y <? 0 then Rejected else Ok (qz (shr (trunc x) (trunc y)))
      end
  end.

(* get_value: int(_compute(...)) *)
Definition eval (rho : env) (e : expr) : result Z := do q <- compute rho e; Ok (trunc q).

Definition eval_text (rho : env) (s : str) : result Z :=
  do ts <- lex_text s; do e <- parse_tokens ts; eval rho e.

(* environments for generated cases: association list *)
Fixpoint env_of (l : list (str * Z)) : env :=
  fun s => match l with
           | [] => None
           | (k, v) :: r => if list_eqb Z.eqb k s then Some v else env_of r s
           end.

Definition obs_z := option Z.
Definition obs_z_eqb (a b : obs_z) : bool :=
  match a, b with Some x, Some y => x =? y | None, None => true | _, _ => false end.
Definition obs_of_zresult (r : result Z) : obs_z := match r with Ok z => Some z | _ => None end.

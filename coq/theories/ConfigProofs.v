(* ConfigProofs.v — validation accepts exactly the well-formed definitions; version comparison is numeric. *)
From BA Require Import Base Expr Subst Layout Match Config.
From Coq Require Import ZifyBool.
Local Open Scope Z_scope.

(* ---------- versions ---------- *)
Lemma lex_cmp_refl a : lex_cmp a a = Eq.
Proof. induction a as [|x r IH]; cbn; [reflexivity|]. now rewrite Z.compare_refl. Qed.

Lemma lex_cmp_opp a : forall b, lex_cmp b a = CompOpp (lex_cmp a b).
Proof.
  induction a as [|x r IH]; intros [|y b']; cbn; try reflexivity.
  rewrite (Z.compare_antisym x y). destruct (x ?= y); cbn; [apply IH | reflexivity | reflexivity].
Qed.

Theorem ver_cmp_refl a : ver_cmp a a = Eq.
Proof.
  unfold ver_cmp, cmp_rel. rewrite lex_cmp_refl. unfold cmp_pre.
  destruct (v_pre a) as [[k n]|]; [|reflexivity]. now rewrite !Z.compare_refl.
Qed.

(* comparing the other way round gives the opposite answer: the order is total and antisymmetric *)
Theorem ver_cmp_opp a b : ver_cmp b a = CompOpp (ver_cmp a b).
Proof.
  unfold ver_cmp, cmp_rel. rewrite (Nat.max_comm (length (v_rel b))), lex_cmp_opp.
  destruct (lex_cmp (pad (v_rel a) _) (pad (v_rel b) _)); cbn [CompOpp]; try reflexivity.
  unfold cmp_pre. destruct (v_pre a) as [[k1 n1]|], (v_pre b) as [[k2 n2]|]; cbn; try reflexivity.
  rewrite (Z.compare_antisym (pre_rank k1) (pre_rank k2)).
  destruct (pre_rank k1 ?= pre_rank k2); cbn; try reflexivity. now rewrite (Z.compare_antisym n1 n2).
Qed.

(* numeric, not textual: 0.10.0 is newer than 0.9.0; 0.4.10 newer than 0.4.3; a release is newer than its pre-release;
   missing components count as zero *)
Example version_examples :
  ver_cmp {| v_rel := [0; 10; 0]; v_pre := None |} {| v_rel := [0; 9; 0]; v_pre := None |} = Gt
  /\ ver_cmp {| v_rel := [0; 4; 10]; v_pre := None |} {| v_rel := [0; 4; 3]; v_pre := Some (PB, 1) |} = Gt
  /\ ver_cmp {| v_rel := [0; 4; 3]; v_pre := None |} {| v_rel := [0; 4; 3]; v_pre := Some (PB, 1) |} = Gt
  /\ ver_cmp {| v_rel := [1; 0]; v_pre := None |} {| v_rel := [1; 0; 0]; v_pre := None |} = Eq
  /\ ver_cmp {| v_rel := [0; 4; 3]; v_pre := Some (PA, 2) |} {| v_rel := [0; 4; 3]; v_pre := Some (PB, 1) |} = Lt.
Proof. repeat split. Qed.

(* the gate accepts exactly MIN_SUPPORTED <= required <= RUNNING *)
Theorem gate_iff required :
  gate required = true <-> ver_le MIN_SUPPORTED required = true /\ ver_le required RUNNING = true.
Proof.
  unfold gate, ver_le. rewrite (ver_cmp_opp required MIN_SUPPORTED).
  destruct (ver_cmp required RUNNING); destruct (ver_cmp required MIN_SUPPORTED); cbn; intuition discriminate.
Qed.

(* #require is honoured exactly when the language name matches and the ISA version satisfies the comparison *)
Theorem require_iff name_matches cond isa_version :
  require_ok name_matches cond isa_version = true
  <-> name_matches = true /\ match cond with None => True | Some (op, v) => req_holds op isa_version v = true end.
Proof. unfold require_ok. destruct name_matches, cond as [[op v]|]; cbn; intuition discriminate. Qed.

Theorem req_holds_spec op a b :
  req_holds op a b = match op with
                     | RGe => ver_le b a | RLe => ver_le a b
                     | RGt => negb (ver_le a b) | RLt => negb (ver_le b a)
                     | REq => match ver_cmp a b with Eq => true | _ => false end
                     end.
Proof. unfold req_holds, ver_le. rewrite (ver_cmp_opp a b). destruct op, (ver_cmp a b); reflexivity. Qed.

(* ---------- validation = well-formedness ---------- *)
Definition variant_wf (set_names : list str) (v : vvariant) : Prop :=
  (vv_needs_bytecode v = true -> vv_has_bytecode v = true)
  /\ (vv_has_operands v = true ->
      exists c, vv_count v = Some c
        /\ (forall l, vv_sets v = Some l -> Forall (fun n => mem n set_names = true) l /\ Z.of_nat (length l) = c)
        /\ Forall (fun n => n = c) (vv_specific_lens v)).

Definition not_keyword_ci (kws : list str) (m : str) : Prop := mem (map lower m) (map (map lower) kws) = false.

Record well_formed (c : vcfg) : Prop := {
  wf_sections : vc_general c = true /\ vc_instructions c = true /\ vc_operand_sets c = true;
  wf_mnemonics : Forall (not_keyword_ci (vc_keywords c)) (vc_mnemonics c);
  wf_macros_kw : Forall (not_keyword_ci (vc_keywords c)) (vc_macros c);
  wf_registers : Forall (not_keyword_ci (vc_keywords c)) (vc_registers c);
  wf_macros_distinct : Forall (fun m => mem (map lower m) (map (map lower) (vc_mnemonics c)) = false) (vc_macros c);
  wf_variants : Forall (variant_wf (vc_set_names c)) (vc_variants c);
  wf_reg_operands : Forall (fun r => mem r (vc_registers c) = true) (vc_reg_operands c);
  wf_ranges : Forall (fun r => fst r <= snd r) (vc_ranges c);
  wf_zones : is_ok (init_zones (vc_addr_bits c) (vc_origin c) (vc_zones c)) = true;
  wf_version : match vc_min_version c with None => True | Some None => False | Some (Some v) => gate v = true end
}.

Lemma forallb_Forall {A} (f : A -> bool) (P : A -> Prop) l :
  (forall x, f x = true <-> P x) -> (forallb f l = true <-> Forall P l).
Proof.
  intros H. rewrite forallb_forall, Forall_forall. split; intros G x Hx; apply H; auto.
Qed.

Lemma variant_ok_iff names v : variant_ok names v = true <-> variant_wf names v.
Proof.
  unfold variant_ok, variant_wf. destruct v as [nb hb ho cnt sets lens]; cbn.
  destruct nb, hb, ho; cbn; try (split; [intros _; split; [auto|intros H; discriminate] | intros _; reflexivity]);
    try (split; [discriminate | intros [H _]; specialize (H eq_refl); discriminate]).
  all: destruct cnt as [c|]; [|split; [discriminate | intros [_ H]; destruct (H eq_refl) as [c' [Hc _]]; discriminate]].
  all: split.
  all: try (intros H; apply andb_prop in H as [H1 H2]; split; [auto|]; intros _; exists c; split; [reflexivity|]; split;
            [ intros l Hl; subst sets; apply andb_prop in H1 as [Ha Hb]; split;
              [apply (forallb_Forall (fun n => mem n names) (fun n => mem n names = true)); [tauto | exact Ha] | lia]
            | apply (forallb_Forall (fun n => n =? c) (fun n => n = c)); [intros x; lia | exact H2] ]).
  all: intros [_ H]; destruct (H eq_refl) as [c' [Hc [Hs Hl]]]; injection Hc as <-; apply andb_true_intro; split;
       [ destruct sets as [l|]; [|reflexivity]; destruct (Hs l eq_refl) as [Ha Hb]; apply andb_true_intro; split;
         [apply (forallb_Forall (fun n => mem n names) (fun n => mem n names = true)); [tauto | exact Ha] | lia]
       | apply (forallb_Forall (fun n => n =? c) (fun n => n = c)); [intros x; lia | exact Hl] ].
Qed.

Theorem validate_iff c : validate c = true <-> well_formed c.
Proof.
  unfold validate. split.
  - intros H.
    apply andb_prop in H as [H H9]. apply andb_prop in H as [H H8]. apply andb_prop in H as [H H7].
    apply andb_prop in H as [H H6]. apply andb_prop in H as [H H5]. apply andb_prop in H as [H H4].
    apply andb_prop in H as [H H3]. apply andb_prop in H as [H H2]. apply andb_prop in H as [H H1].
    apply andb_prop in H as [H S3]. apply andb_prop in H as [S1 S2].
    constructor; try tauto.
    + eapply forallb_Forall; [|exact H1]. intros x. unfold not_keyword_ci. now rewrite negb_true_iff.
    + eapply forallb_Forall; [|exact H2]. intros x. unfold not_keyword_ci. now rewrite negb_true_iff.
    + eapply forallb_Forall; [|exact H3]. intros x. now rewrite negb_true_iff.
    + eapply forallb_Forall; [|exact H4]. intros x. now rewrite negb_true_iff.
    + eapply forallb_Forall; [|exact H5]. intros x. apply variant_ok_iff.
    + eapply forallb_Forall; [|exact H6]. intros x. tauto.
    + eapply forallb_Forall; [|exact H7]. intros x. lia.
    + destruct (vc_min_version c) as [[v|]|]; [assumption | discriminate | exact I].
  - intros [[S1 [S2 S3]] W1 W2 W3 W4 W5 W6 W7 W8 W9].
    rewrite S1, S2, S3. cbn [andb].
    repeat (apply andb_true_intro; split); try assumption.
    + eapply forallb_Forall; [|exact W1]. intros x. unfold not_keyword_ci. now rewrite negb_true_iff.
    + eapply forallb_Forall; [|exact W2]. intros x. unfold not_keyword_ci. now rewrite negb_true_iff.
    + eapply forallb_Forall; [|exact W3]. intros x. now rewrite negb_true_iff.
    + eapply forallb_Forall; [|exact W4]. intros x. now rewrite negb_true_iff.
    + eapply forallb_Forall; [|exact W5]. intros x. apply variant_ok_iff.
    + eapply forallb_Forall; [|exact W6]. intros x. tauto.
    + eapply forallb_Forall; [|exact W7]. intros x. lia.
    + destruct (vc_min_version c) as [[v|]|]; [assumption | contradiction | reflexivity].
Qed.

(* ---------- the version order is transitive and numeric ---------- *)
Lemma lex_cmp_eq a : forall b, lex_cmp a b = Eq -> a = b.
Proof.
  induction a as [|x r IH]; intros [|y b'] H; cbn in H; try discriminate; [reflexivity|].
  destruct (Z.compare_spec x y); try discriminate. subst. f_equal. now apply IH.
Qed.

Lemma lex_cmp_trans a : forall b c, lex_cmp a b = Lt -> lex_cmp b c = Lt -> lex_cmp a c = Lt.
Proof.
  induction a as [|x r IH]; intros [|y b'] [|z c'] H1 H2; cbn in *; try discriminate; try reflexivity.
  destruct (Z.compare_spec x y) as [E1|L1|G1]; try discriminate;
    destruct (Z.compare_spec y z) as [E2|L2|G2]; try discriminate;
    destruct (Z.compare_spec x z) as [E3|L3|G3]; try reflexivity; try lia.
  eapply IH; eassumption.
Qed.

Lemma pad_more : forall n a b k, (length a <= n)%nat -> (length b <= n)%nat ->
  lex_cmp (pad a (n + k)) (pad b (n + k)) = lex_cmp (pad a n) (pad b n).
Proof.
  induction n as [|n IH]; intros a b k Ha Hb.
  - destruct a, b; cbn in Ha, Hb; try lia. cbn. apply lex_cmp_refl.
  - destruct a as [|x a'], b as [|y b']; cbn [pad Nat.add lex_cmp];
      (destruct (_ ?= _); try reflexivity; apply IH; cbn in *; lia).
Qed.

Lemma cmp_rel_at a b N : (length a <= N)%nat -> (length b <= N)%nat -> cmp_rel a b = lex_cmp (pad a N) (pad b N).
Proof.
  intros Ha Hb. unfold cmp_rel.
  replace N with (Nat.max (length a) (length b) + (N - Nat.max (length a) (length b)))%nat at 1 2 by lia.
  symmetry. apply pad_more; lia.
Qed.

Lemma cmp_pre_trans a b c : cmp_pre a b = Lt -> cmp_pre b c = Lt -> cmp_pre a c = Lt.
Proof.
  destruct a as [[k1 n1]|], b as [[k2 n2]|], c as [[k3 n3]|]; cbn; try discriminate; try reflexivity.
  destruct (Z.compare_spec (pre_rank k1) (pre_rank k2)) as [E1|L1|G1]; try discriminate;
    destruct (Z.compare_spec (pre_rank k2) (pre_rank k3)) as [E2|L2|G2]; try discriminate;
    destruct (Z.compare_spec (pre_rank k1) (pre_rank k3)) as [E3|L3|G3]; try reflexivity; try lia.
  rewrite !Z.compare_lt_iff. lia.
Qed.

Theorem ver_cmp_trans a b c : ver_cmp a b = Lt -> ver_cmp b c = Lt -> ver_cmp a c = Lt.
Proof.
  unfold ver_cmp.
  set (N := Nat.max (length (v_rel a)) (Nat.max (length (v_rel b)) (length (v_rel c)))).
  rewrite (cmp_rel_at (v_rel a) (v_rel b) N), (cmp_rel_at (v_rel b) (v_rel c) N), (cmp_rel_at (v_rel a) (v_rel c) N) by lia.
  destruct (lex_cmp (pad (v_rel a) N) (pad (v_rel b) N)) eqn:E1; try discriminate;
    destruct (lex_cmp (pad (v_rel b) N) (pad (v_rel c) N)) eqn:E2; try discriminate; intros H1 H2.
  - apply lex_cmp_eq in E1, E2. rewrite E1, E2, lex_cmp_refl. eapply cmp_pre_trans; eassumption.
  - apply lex_cmp_eq in E1. rewrite E1, E2. reflexivity.
  - apply lex_cmp_eq in E2. rewrite <- E2, E1. reflexivity.
  - rewrite (lex_cmp_trans _ _ _ E1 E2). reflexivity.
Qed.

Lemma pad_app pre : forall l n, pad (pre ++ l) (length pre + n) = pre ++ pad l n.
Proof. induction pre as [|p r IH]; intros l n; cbn; [reflexivity|]. now rewrite IH. Qed.

Lemma lex_cmp_app pre a b : lex_cmp (pre ++ a) (pre ++ b) = lex_cmp a b.
Proof. induction pre as [|p r IH]; cbn; [reflexivity|]. now rewrite Z.compare_refl. Qed.

(* the first differing release component decides, compared as a number, whatever follows it *)
Theorem ver_cmp_numeric (pre : list Z) (x y : Z) (ra rb : list Z) pa pb :
  x < y ->
  ver_cmp {| v_rel := pre ++ x :: ra; v_pre := pa |} {| v_rel := pre ++ y :: rb; v_pre := pb |} = Lt.
Proof.
  intros Hxy. unfold ver_cmp. cbn [v_rel v_pre].
  set (m := Nat.max (length ra) (length rb)).
  rewrite (cmp_rel_at _ _ (length pre + S m)) by (rewrite !app_length; cbn; lia).
  rewrite !pad_app, lex_cmp_app. cbn [pad lex_cmp].
  apply Z.compare_lt_iff in Hxy. now rewrite Hxy.
Qed.

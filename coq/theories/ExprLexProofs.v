(* ExprLexProofs.v — the lexer's fuel (one unit per character) always suffices: every token consumes at least one
   character. *)
From BA Require Import Base Expr.
Local Open Scope nat_scope.

Lemma span_len p : forall s a b, span p s = (a, b) -> length s = length a + length b.
Proof.
  induction s as [|c r IH]; intros a b H; cbn in H.
  - inversion H; reflexivity.
  - destruct (p c).
    + destruct (span p r) as [a' b'] eqn:E. pose proof (IH a' b' eq_refl) as Hl. inversion H; subst. cbn. lia.
    + inversion H; subst. reflexivity.
Qed.

Lemma list_eqb_len {A} (eqb : A -> A -> bool) : forall a b, list_eqb eqb a b = true -> length a = length b.
Proof.
  induction a as [|x a IH]; intros [|y b] H; cbn in H; try discriminate; [reflexivity|].
  apply andb_prop in H as [_ H]. cbn. now rewrite (IH b H).
Qed.

Lemma starts_with_len p s : starts_with p s = true -> length p <= length s.
Proof.
  unfold starts_with. intros H. apply list_eqb_len in H. rewrite firstn_length in H. lia.
Qed.

Lemma tl_len {A} (l : list A) : length (tl l) <= length l.
Proof. destruct l; cbn; lia. Qed.

Ltac span_facts :=
  repeat match goal with
         | H : span _ _ = (_, _) |- _ => apply span_len in H
         end.

Lemma lex_one_consumes s t rest : lex_one s = LTok t rest -> length rest < length s.
Proof.
  unfold lex_one. destruct s as [|c r]; [discriminate|].
  destruct (span is_bin r) as [bins r_bin] eqn:E1.
  destruct (span is_hex r) as [hex1 r_hex1] eqn:E2.
  destruct (span is_hex (tl r)) as [hex2 r_hex2] eqn:E3.
  destruct (span is_hex (c :: r)) as [hrun r_hrun] eqn:E4.
  destruct (span is_digit (c :: r)) as [ds r_ds] eqn:E5.
  destruct (span is_word (c :: r)) as [w0 r_w0] eqn:E6.
  destruct (span is_word r) as [w1 r_w1] eqn:E7.
  pose proof (tl_len r) as Htl.
  span_facts. cbn [length] in *.
  assert (Hdone : forall (x : token) (y : str), length y < S (length r) -> LTok x y = LTok t rest -> length rest < S (length r))
    by (intros x y Hy H; inversion H; subst; exact Hy).
  destruct (((c =? 37)%Z || (c =? 98)%Z) && negb (length bins =? 0)) eqn:B1; [apply Hdone; lia|].
  destruct ((c =? 36)%Z && negb (length hex1 =? 0)) eqn:B2; [apply Hdone; lia|].
  match goal with |- context [if ?b then LTok (TNum (num_of 16 hex2)) r_hex2 else _] => destruct b eqn:B3 end; [apply Hdone; lia|].
  match goal with |- context [if ?b then LTok (TNum (num_of 16 hrun)) (tl r_hrun) else _] => destruct b eqn:B4 end.
  { apply andb_prop in B4 as [_ B4]. destruct r_hrun as [|h after]; [discriminate|]. apply Hdone. cbn [tl length] in *. lia. }
  destruct (negb (length ds =? 0)) eqn:B5.
  { apply negb_true_iff, Nat.eqb_neq in B5. apply Hdone. lia. }
  repeat match goal with
         | |- context [if (c =? ?k)%Z then LTok ?x r else _] => destruct (c =? k)%Z; [apply Hdone; lia|]
         end.
  match goal with |- context [if ?b then LTok (TOp OShr) (tl r) else _] => destruct b end; [apply Hdone; lia|].
  match goal with |- context [if ?b then LTok (TOp OShl) (tl r) else _] => destruct b end; [apply Hdone; lia|].
  repeat match goal with
         | |- context [if (c =? ?k)%Z then LTok ?x r else _] => destruct (c =? k)%Z; [apply Hdone; lia|]
         end.
  destruct (starts_with [76; 83; 66; 40]%Z (c :: r)) eqn:B6.
  { apply Hdone. rewrite skipn_length. cbn [length]. lia. }
  match goal with |- context [if ?b then LTok (TByte (Some _)) _ else _] => destruct b end.
  { apply Hdone. rewrite skipn_length. cbn [length]. lia. }
  destruct (negb (length w0 =? 0)) eqn:B7.
  { apply negb_true_iff, Nat.eqb_neq in B7.
    destruct (starts_with _ w0); [apply Hdone; lia|].
    destruct (valid_label w0); [apply Hdone; lia | discriminate]. }
  destruct ((c =? 46)%Z && negb (length w1 =? 0)) eqn:B8.
  { destruct (starts_with _ (c :: w1)); [apply Hdone; lia|].
    destruct (valid_label (c :: w1)); [apply Hdone; lia | discriminate]. }
  destruct r as [|ch [|q2 rest0]]; cbn [length] in *.
  - destruct ((c =? 62)%Z || (c =? 60)%Z); [discriminate|]. destruct (is_space c); discriminate.
  - destruct ((c =? 62)%Z || (c =? 60)%Z); [discriminate|]. destruct (is_space c); discriminate.
  - destruct ((c =? 39)%Z && (q2 =? 39)%Z).
    + destruct (negb (ch =? 10)%Z); [apply Hdone; lia | discriminate].
    + destruct ((c =? 62)%Z || (c =? 60)%Z); [discriminate|]. destruct (is_space c); discriminate.
Qed.

(* every step of the lexer either stops or moves on in the text, so one unit of fuel per character is enough *)
Lemma lex_fuel_ok : forall fuel s, length s <= fuel -> lex fuel s <> OutOfFuel.
Proof.
  induction fuel as [|f IH]; intros s Hs.
  - destruct s; [discriminate | cbn in Hs; lia].
  - cbn [lex]. destruct s as [|c r]; [discriminate|].
    destruct (lex_one (c :: r)) as [t rest| |] eqn:E.
    + pose proof (lex_one_consumes _ _ _ E) as Hl. cbn [length] in *.
      pose proof (IH rest ltac:(lia)) as Hn. destruct (lex f rest); cbn [bind]; [discriminate | discriminate | now elim Hn].
    + apply IH. cbn [length] in Hs. lia.
    + discriminate.
Qed.

Theorem lex_text_never_out_of_fuel s : lex_text s <> OutOfFuel.
Proof. unfold lex_text. apply lex_fuel_ok. lia. Qed.

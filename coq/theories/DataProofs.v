(* DataProofs.v — facts about data directives (Data.v), property C11. *)
From BA Require Import Base Bits Expr Data.
From Coq Require Import ZifyBool.
Ltac Zify.zify_post_hook ::= Z.to_euclidean_division_equations.
Local Open Scope Z_scope.

(* value of a little-endian byte list *)
Fixpoint le_value (l : list Z) : Z := match l with [] => 0 | b :: r => b + 256 * le_value r end.

Lemma to_bytes_le_value n : forall v, le_value (to_bytes_le v n) = v mod 2 ^ (8 * Z.of_nat n).
Proof.
  induction n as [|n IH]; intros v; cbn [to_bytes_le le_value].
  - change (2 ^ (8 * Z.of_nat 0)) with 1. now rewrite Z.mod_1_r.
  - rewrite IH. replace (8 * Z.of_nat (S n)) with (8 + 8 * Z.of_nat n) by lia.
    rewrite Z.pow_add_r by lia. change (2 ^ 8) with 256.
    rewrite Z.rem_mul_r by lia. lia.
Qed.

Lemma to_bytes_le_range n : forall v, Forall (fun b => 0 <= b < 256) (to_bytes_le v n).
Proof.
  induction n as [|n IH]; intros v; cbn [to_bytes_le]; constructor; [apply Z.mod_pos_bound; lia | apply IH].
Qed.

Lemma to_bytes_le_len n : forall v, length (to_bytes_le v n) = n.
Proof. induction n as [|n IH]; intros v; cbn; [reflexivity | now rewrite IH]. Qed.

Lemma from_bytes_big_acc l : forall acc, from_bytes_big (rev l) acc = le_value l + acc * 256 ^ Z.of_nat (length l).
Proof.
  induction l as [|b r IH]; intros acc; cbn [rev le_value length].
  - cbn. lia.
  - assert (H : forall l1 x a, from_bytes_big (l1 ++ [x]) a = from_bytes_big l1 a * 256 + x).
    { induction l1 as [|y l1 IH1]; intros x a; cbn [app from_bytes_big]; [reflexivity | apply IH1]. }
    rewrite H, IH. rewrite Nat2Z.inj_succ, Z.pow_succ_r by lia. lia.
Qed.

(* .byte/.2byte/.4byte/.8byte: each value reduced modulo 2^width, in the configured byte order, width bytes *)
Theorem data_value_bytes_spec w e v :
  from_bytes (data_value_bytes w e v) e = v mod 2 ^ (8 * Z.of_nat w)
  /\ length (data_value_bytes w e v) = w
  /\ Forall (fun b => 0 <= b < 256) (data_value_bytes w e v).
Proof.
  unfold data_value_bytes, from_bytes. set (m := v mod 2 ^ (8 * Z.of_nat w)).
  assert (Hm : le_value (to_bytes_le m w) = m).
  { rewrite to_bytes_le_value. unfold m. apply Z.mod_mod. apply Z.pow_nonzero; lia. }
  destruct e.
  - split; [|split].
    + rewrite from_bytes_big_acc. lia.
    + rewrite rev_length. apply to_bytes_le_len.
    + apply Forall_rev, to_bytes_le_range.
  - split; [|split].
    + rewrite <- (rev_involutive (rev (to_bytes_le m w))) at 1. rewrite rev_involutive, from_bytes_big_acc. lia.
    + apply to_bytes_le_len.
    + apply to_bytes_le_range.
Qed.

(* .fill n, v : n copies of the low byte of v;  .zero n : n zero bytes *)
Theorem fill_bytes_spec n v : 0 <= n ->
  fill_bytes n v = repeat (v mod 256) (Z.to_nat n) /\ Z.of_nat (length (fill_bytes n v)) = n.
Proof. intros H. unfold fill_bytes. split; [reflexivity|]. rewrite repeat_length. lia. Qed.

Theorem zero_bytes_spec n : fill_bytes n 0 = repeat 0 (Z.to_nat n).
Proof. reflexivity. Qed.

(* a string without escapes emits one byte per character *)
Lemma unescape_plain f : forall s, (length s <= f)%nat ->
  forallb (fun c => negb (c =? 92)) s = true -> unescape f s = Ok s.
Proof.
  induction f as [|f IH]; intros s Hl Hp.
  - destruct s; [reflexivity | cbn in Hl; lia].
  - destruct s as [|c r]; [reflexivity|]. cbn [forallb] in Hp. apply andb_prop in Hp as [Hc Hr].
    cbn [unescape]. destruct c as [|p|p]; try (rewrite (IH r) by (cbn in Hl; try lia; exact Hr); reflexivity).
    (* positive codes: 92 must be excluded *)
    assert (Hne : Z.pos p <> 92) by lia.
    destruct p as [p|p|]; try (rewrite (IH r) by (cbn in Hl; try lia; exact Hr); reflexivity);
    repeat (destruct p as [p|p|]; try (rewrite (IH r) by (cbn in Hl; try lia; exact Hr); reflexivity));
    now elim Hne.
Qed.

Theorem string_plain_bytes k t s :
  forallb (fun c => negb (c =? 92)) s = true ->
  data_string_bytes k t s
  = Ok (map (fun v => v mod 256) (match k with KByte => s | KCstr => s ++ [t] end)).
Proof.
  intros H. unfold data_string_bytes, unescape_text. rewrite unescape_plain by (auto; lia). reflexivity.
Qed.

(* .cstr / .asciiz append exactly the configured terminator after the (escape-processed) characters *)
Theorem cstr_appends_terminator t s cs :
  unescape_text s = Ok cs ->
  data_string_bytes KCstr t s = Ok (map (fun v => v mod 256) cs ++ [t mod 256])
  /\ data_string_bytes KByte t s = Ok (map (fun v => v mod 256) cs).
Proof. intros H. unfold data_string_bytes. rewrite H. cbn [bind]. rewrite map_app. split; reflexivity. Qed.

Example escapes_example :
  unescape_text [97; 92; 110; 92; 120; 52; 49; 92; 92; 92; 48; 92; 34] = Ok [97; 10; 65; 92; 0; 34].
Proof. vm_compute. reflexivity. Qed.

(* Formats.v — what every memory-describing output format must decode to: the address-to-byte map of the unmuted
   byte lines (property C16).  Decoding of the formats' text is done by the harness; this file gives the model's map and
   the record-level model of the compact hex ("minhex") printer with its decoder. *)
From BA Require Export Base Layout Program.
Open Scope Z_scope.

Fixpoint bytes_at (a : Z) (bs : list Z) : list (Z * Z) :=
  match bs with [] => [] | b :: r => (a, b) :: bytes_at (a + 1) r end.

(* address -> byte pairs of the unmuted byte lines, in address order (the lines are sorted, and do not overlap) *)
Definition memory_pairs (lines : list pline) : list (Z * Z) :=
  flat_map (fun p => if pl_isbytes p && negb (pl_muted p) then bytes_at (pl_addr p) (pl_bytes p) else []) lines.

Definition obs_formats := option (list Z * list (list (Z * Z))).
Definition pairzz_eqb (a b : Z * Z) : bool := (fst a =? fst b) && (snd a =? snd b).
Definition obs_formats_eqb (a b : obs_formats) : bool :=
  match a, b with
  | Some (i1, m1), Some (i2, m2) => zlist_eqb i1 i2 && list_eqb (list_eqb pairzz_eqb) m1 m2
  | None, None => true
  | _, _ => false
  end.
(* the image (window from 0 to the last emitted byte, fill 0) and, for each of listing / hex / intel_hex / minhex, the map *)
Definition run_formats (c : config * list (list item) * options) : obs_formats :=
  let '(cfg, files, opts) := c in
  match assemble cfg files opts with
  | Ok o => let m := memory_pairs (out_lines o) in Some (out_image o, [m; m; m; m])
  | _ => None
  end.

(* ---------- compact hex: record-level model of MinHexPrettyPrinter and its decoder ---------- *)
Inductive mrec := MAddr (a : Z) | MBytes (bs : list Z).

(* for each unmuted byte line with at least one byte: an address record when the bytes do not continue at the expected
   next address, then the bytes *)
Fixpoint minhex (next : Z) (lines : list pline) : list mrec :=
  match lines with
  | [] => []
  | p :: r =>
      if pl_isbytes p && negb (pl_muted p) && negb (Nat.eqb (length (pl_bytes p)) 0) then
        (if pl_addr p =? next then [] else [MAddr (pl_addr p)])
        ++ MBytes (pl_bytes p) :: minhex (pl_addr p + Z.of_nat (length (pl_bytes p))) r
      else minhex next r
  end.

Fixpoint mdecode (addr : Z) (rs : list mrec) : list (Z * Z) :=
  match rs with
  | [] => []
  | MAddr a :: r => mdecode a r
  | MBytes bs :: r => bytes_at addr bs ++ mdecode (addr + Z.of_nat (length bs)) r
  end.

"""System-level tie: the real Assembler on generated programs vs Program.assemble (image + listing rows)."""
from . import common as C
from .framework import Tie
from . import sysgen
from .sysprog import gen_program, gen_placement, gen_paste_pair
from .framework import Oracle

PROFILES = {
    'general': {},
    'C02': {'w': {'label': 16, 'align': 6, 'org': 4, 'orgrel': 3, 'fill': 6, 'zerountil': 4, 'instr': 25}, 'p_ref': 0.6},
    'C03': {'w': {'org': 6, 'mute': 5, 'other': 5, 'label': 8, 'data': 14}, 'p_window': 0.9, 'p_data': 0.6},
    'C04': {'w': {'org': 10, 'orgrel': 8, 'memzone': 6, 'fill': 8, 'zerountil': 4, 'align': 2, 'cond': 1, 'include': 1}, 'p_zones': 0.8, 'p_data': 0.6},
    'C05': {'w': {'memzone': 10, 'orgrel': 8, 'org': 5, 'createzone': 5, 'fill': 8, 'include': 4}, 'p_zones': 0.9, 'p_global': 0.5},
    'C06': {'w': {'label': 25, 'const': 8, 'include': 5, 'org': 4, 'memzone': 3, 'instr': 25, 'data': 12}, 'p_ref': 0.8, 'p_badref': 0.05},
    'C11': {'w': {'data': 25, 'string': 15, 'fill': 12, 'zerountil': 8, 'instr': 5}},
    'C12': {'w': {'instr': 50, 'label': 12}},
    'C17': {'w': {'label': 15, 'memzone': 4, 'mute': 3}, 'p_include': 1.0, 'p_fault': 0.25, 'p_ref': 0.6},
}


def make_gen(profile, n_quick, n_thorough):
    def gen(rng, tier):
        n = n_quick if tier == 'quick' else n_thorough
        return [gen_program(rng, PROFILES[profile], tier) for _ in range(n)]
    return gen


def nontrivial(case):
    n = sum(len(f['stmts']) for f in case['files'])
    return n >= 4


def classify(case):
    ks = set(st[0] for f in case['files'] for st in f['stmts'])
    tags = []
    for k in ('org', 'memzone', 'align', 'include', 'if', 'mute', 'createzone'):
        if k in ks:
            tags.append(k)
    return '+'.join(tags) or 'plain'


def sys_tie(profile='general', n_quick=250, n_thorough=4000, corpus=None, name=None):
    return Tie(name=name or f'sys_{profile}', imports=['Base', 'Program'], run_def='run_prog', eqb='obs_prog_eqb',
               gen=make_gen(profile, n_quick, n_thorough), impl=sysgen.impl_assemble, case_term=sysgen.case_term,
               obs_term=sysgen.obs_term, nontrivial=nontrivial, classify=classify, corpus=corpus or (lambda: []),
               shard=60, timeout=60)


def scenario_tie(name, fn, n_quick, n_thorough):
    """whole-program correspondence on a targeted scenario generator (harness/scenarios.py)"""
    from .scenarios import scenario_gen
    return Tie(name=name, imports=['Base', 'Program'], run_def='run_prog', eqb='obs_prog_eqb',
               gen=scenario_gen(fn, n_quick, n_thorough), impl=sysgen.impl_assemble, case_term=sysgen.case_term,
               obs_term=sysgen.obs_term, nontrivial=nontrivial, classify=lambda c: c.get('fault') or 'scenario',
               shard=60, timeout=60)


def fault_sweep_tie(kinds=None, per_kind_quick=4, per_kind_thorough=40, name='fault_sweep'):
    """every entry of the program-fault catalogue (or the given ones), several programs each: the proved model decides
    whether the fault makes the program unacceptable, the implementation must agree"""
    from .sysprog import FAULTS, gen_program

    def gen(rng, tier):
        out = []
        n = per_kind_quick if tier == 'quick' else per_kind_thorough
        for k in (kinds or FAULTS):
            needs_inc = 'include' in k or k in ('cross_file', 'dup_label_same_line')
            prof = dict(PROFILES['general'], p_fault=1.0, force_fault=k, p_include=1.0 if needs_inc else 0.3)
            got = 0
            for _ in range(n * 6):
                c = gen_program(rng, prof, tier)
                if c.get('fault') == k:
                    out.append(c)
                    got += 1
                    if got == n:
                        break
        return out
    return Tie(name=name, imports=['Base', 'Program'], run_def='run_prog', eqb='obs_prog_eqb', gen=gen,
               impl=sysgen.impl_assemble, case_term=sysgen.case_term, obs_term=sysgen.obs_term, nontrivial=nontrivial,
               classify=lambda c: c.get('fault') or 'none', shard=60, timeout=60)


def cli_gen(profile, n_quick, n_thorough, relative=False):
    def gen(rng, tier):
        n = n_quick if tier == 'quick' else n_thorough
        out = []
        for _ in range(n):
            c = gen_program(rng, PROFILES[profile], tier)
            if relative and rng.random() < 0.8:
                c['cli_relative'] = rng.choice(['srcdir', 'parent'])
            if rng.random() < 0.5:
                c['preseed_out'] = rng.choice([1, 300, 3000])
            # command-line edge values of the window options
            r = rng.random()
            if r < 0.35:
                c['opts']['end'] = rng.choice([0, 0, 1, 2, c['cfg']['origin'], c['cfg']['origin'] + 1])
            elif r < 0.5:
                c['opts']['start'] = rng.choice([0, 1, c['cfg']['origin']])
                c['explicit_start'] = True
            out.append(c)
        return out
    return gen


def cli_tie(profile='C03', n_quick=80, n_thorough=1200, relative=False):
    """same programs through the real command line; the model side ignores listing rows"""
    return Tie(name=f'cli_{profile}', imports=['Base', 'Program'],
               run_def='fun c => match run_prog c with Some (img, _) => Some (img, ([] : list (Z * list Z))) | None => None end',
               eqb='obs_prog_eqb', gen=cli_gen(profile, n_quick, n_thorough, relative), impl=sysgen.impl_cli,
               case_term=sysgen.case_term, obs_term=sysgen.obs_term_image_only, nontrivial=nontrivial,
               classify=lambda c: 'end=%s' % ('none' if c['opts']['end'] is None else ('0' if c['opts']['end'] == 0 else 'n')),
               shard=60, timeout=90)


def cli_scenario_tie(name, fn, n_quick, n_thorough):
    """a targeted scenario generator through the real command line, with the main file named by a relative path"""
    from .scenarios import scenario_gen
    base = scenario_gen(fn, n_quick, n_thorough)

    def gen(rng, tier):
        out = base(rng, tier)
        for c in out:
            c['cli_relative'] = rng.choice(['srcdir', 'parent', 'parent', None])
        return out
    return Tie(name=name, imports=['Base', 'Program'],
               run_def='fun c => match run_prog c with Some (img, _) => Some (img, ([] : list (Z * list Z))) | None => None end',
               eqb='obs_prog_eqb', gen=gen, impl=sysgen.impl_cli, case_term=sysgen.case_term, obs_term=sysgen.obs_term_image_only,
               nontrivial=nontrivial, classify=lambda c: c.get('fault') or 'scenario', shard=60, timeout=90)


def placement_tie(n_quick=500, n_thorough=10000):
    return Tie(name='placement', imports=['Base', 'Program'], run_def='run_prog', eqb='obs_prog_eqb',
               gen=lambda rng, tier: [gen_placement(rng, tier) for _ in range(n_quick if tier == 'quick' else n_thorough)],
               impl=sysgen.impl_assemble, case_term=sysgen.case_term, obs_term=sysgen.obs_term,
               nontrivial=lambda c: True, classify=lambda c: 'files%d' % len(c['files']), shard=100, timeout=60)


def isa_tie(profile=None, n_quick=300, n_thorough=6000, name='isa'):
    from . import sysisa
    prof = profile or {}
    return Tie(name=name, imports=['Base', 'Program', 'Match', 'ProgramIsa'], run_def='run_prog_isa', eqb='obs_prog_eqb',
               gen=lambda rng, tier: [sysisa.gen_isa_case(rng, prof, tier) for _ in range(n_quick if tier == 'quick' else n_thorough)],
               impl=sysgen.impl_assemble, case_term=sysisa.isa_case_term, obs_term=sysgen.obs_term,
               nontrivial=lambda c: True,
               classify=lambda c: 'macros' if c['isa']['macros'] else 'instrs', shard=40, timeout=60)


def macro_scenario_tie(n_quick=150, n_thorough=3000):
    from . import sysisa
    return Tie(name='macro_scenarios', imports=['Base', 'Program', 'Match', 'ProgramIsa'], run_def='run_prog_isa', eqb='obs_prog_eqb',
               gen=lambda rng, tier: [sysisa.gen_macro_scenario(rng, None, tier) for _ in range(n_quick if tier == 'quick' else n_thorough)],
               impl=sysgen.impl_assemble, case_term=sysisa.isa_case_term, obs_term=sysgen.obs_term,
               nontrivial=lambda c: True, classify=lambda c: 'macro-scenario', shard=40, timeout=60)


def constraint_scenario_tie(n_quick=150, n_thorough=3000):
    from . import sysisa
    return Tie(name='constraint_scenarios', imports=['Base', 'Program', 'Match', 'ProgramIsa'], run_def='run_prog_isa', eqb='obs_prog_eqb',
               gen=lambda rng, tier: [sysisa.gen_constraint_scenario(rng, None, tier) for _ in range(n_quick if tier == 'quick' else n_thorough)],
               impl=sysgen.impl_assemble, case_term=sysisa.isa_case_term, obs_term=sysgen.obs_term,
               nontrivial=lambda c: True, classify=lambda c: 'addr%d' % c['cfg']['addr_bits'], shard=40, timeout=60)


def _paste_check(pair):
    """runs in a forked child: both variants through the real Assembler (each again in its own fork)"""
    a = C.run_forked(sysgen.impl_assemble, pair['split'], 60)
    b = C.run_forked(sysgen.impl_assemble, pair['pasted'], 60)
    if a[0] != b[0]:
        return f'split program: {a[0]} ({str(a[1])[:120]}), pasted program: {b[0]} ({str(b[1])[:120]})'
    if a[0] == 'ok' and a[1]['image'] != b[1]['image']:
        return 'split and pasted programs assemble to different images'
    return None


def paste_oracle(n_quick=120, n_thorough=2500):
    def gen(rng, tier):
        out = []
        for _ in range(n_quick if tier == 'quick' else n_thorough):
            p = gen_paste_pair(rng, tier)
            if p:
                out.append(p)
        return out
    return Oracle(name='paste', gen=gen, check=_paste_check, nontrivial=lambda c: True,
                  classify=lambda c: 'files%d' % len(c['split']['files']), timeout=180)


def layout_gen(profile, n_quick, n_thorough, opts=None, isa=False):
    def gen(rng, tier):
        from . import sysisa
        out = []
        for _ in range(n_quick if tier == 'quick' else n_thorough):
            c = sysisa.gen_isa_case(rng, {'p_macros': 0.3}, tier) if isa else gen_program(rng, PROFILES[profile], tier)
            c['layout'] = rng.randrange(1 << 30)
            if opts:
                c['layout_opts'] = opts
            out.append(c)
        return out
    return gen


def layout_scenario_tie(name, fn, n_quick, n_thorough, opts=None):
    """a targeted scenario generator (harness/scenarios.py) under random layout"""
    def gen(rng, tier):
        out = []
        for _ in range(n_quick if tier == 'quick' else n_thorough):
            c = fn(rng, tier)
            c['layout'] = rng.randrange(1 << 30)
            if opts:
                c['layout_opts'] = opts
            out.append(c)
        return out
    return Tie(name=name, imports=['Base', 'Program'], run_def='run_prog', eqb='obs_prog_eqb', gen=gen,
               impl=sysgen.impl_assemble, case_term=sysgen.case_term, obs_term=sysgen.obs_term, nontrivial=nontrivial,
               classify=lambda c: c.get('fault') or 'scenario', shard=60, timeout=60)


def layout_tie(profile='general', n_quick=250, n_thorough=4000, opts=None, name='layout'):
    """the model knows nothing about layout: the implementation, fed a randomly laid-out text, must still agree with it"""
    return Tie(name=name, imports=['Base', 'Program'], run_def='run_prog', eqb='obs_prog_eqb',
               gen=layout_gen(profile, n_quick, n_thorough, opts), impl=sysgen.impl_assemble, case_term=sysgen.case_term,
               obs_term=sysgen.obs_term, nontrivial=nontrivial, classify=classify, shard=60, timeout=60)


def layout_isa_tie(n_quick=200, n_thorough=3000, opts=None, name='layout_isa'):
    from . import sysisa
    return Tie(name=name, imports=['Base', 'Program', 'Match', 'ProgramIsa'], run_def='run_prog_isa', eqb='obs_prog_eqb',
               gen=layout_gen(None, n_quick, n_thorough, opts, isa=True), impl=sysgen.impl_assemble,
               case_term=sysisa.isa_case_term, obs_term=sysgen.obs_term, nontrivial=lambda c: True,
               classify=lambda c: 'isa', shard=40, timeout=60)


def _layout_check(case):
    """metamorphic: canonical text vs the same program under several random layouts"""
    base = dict(case)
    base.pop('layout', None)
    a = C.run_forked(sysgen.impl_assemble, base, 60)
    for k in range(3):
        v = dict(case, layout=case['layout'] + k)
        b = C.run_forked(sysgen.impl_assemble, v, 60)
        if a[0] != b[0]:
            return f'canonical text: {a[0]} ({str(a[1])[:100]}); layout {v["layout"]}: {b[0]} ({str(b[1])[:100]})'
        if a[0] == 'ok' and a[1]['image'] != b[1]['image']:
            return f'layout {v["layout"]} changes the image'
    return None


def layout_oracle(profile='general', n_quick=100, n_thorough=2000, opts=None):
    return Oracle(name='relayout', gen=layout_gen(profile, n_quick, n_thorough, opts), check=_layout_check,
                  nontrivial=lambda c: True, classify=classify, timeout=240)

"""Shared machinery for the /verif checks.

* running the IMPLEMENTATION from /repo/src (always the working tree, forced by PYTHONPATH)
  in forked children so that process-global state never leaks between cases;
* evaluating the Coq MODEL on generated cases with coqc / vm_compute;
* property-file obligations (Print Assumptions), evidence and verdict plumbing.
"""
from __future__ import annotations

import hashlib
import json
import os
import re
import subprocess
import sys
import tempfile
import time
import traceback
from concurrent.futures import ThreadPoolExecutor
from pathlib import Path

VERIF = Path(__file__).resolve().parent.parent
REPO = Path(os.environ.get('VERIF_REPO', '/repo'))
REPO_SRC = REPO / 'src'
COQ_DIR = VERIF / 'coq'
# VERIF_SCRATCH=<name>: a run against a seeded change keeps its cases, evidence and replays apart from the real ones
_SCRATCH = os.environ.get('VERIF_SCRATCH')
WORK = VERIF / '.work' / _SCRATCH if _SCRATCH else VERIF / '.work'
EVIDENCE_DIR = WORK / 'evidence' if _SCRATCH else VERIF / 'evidence'
REPLAY_DIR = WORK / 'replays' if _SCRATCH else VERIF / 'replays'
PY = '/venv/bin/python'
GUARD = 'BESPOKEASM_VERIF'

NCPU = max(1, min(16, os.cpu_count() or 1))


def impl_env(extra: dict | None = None) -> dict:
    env = {k: v for k, v in os.environ.items() if not k.startswith('BESPOKEASM_')}
    env['PYTHONPATH'] = str(REPO_SRC)
    env['PYTHONHASHSEED'] = '0'
    env[GUARD] = '1'
    env['PYTHONDONTWRITEBYTECODE'] = '1'
    if extra:
        env.update(extra)
    return env


def ensure_impl_on_path():
    """Make `import bespokeasm` in THIS process resolve to /repo/src (working tree)."""
    p = str(REPO_SRC)
    if sys.path[0] != p:
        sys.path.insert(0, p)
    os.environ[GUARD] = '1'
    sys.dont_write_bytecode = True
    import bespokeasm  # noqa
    assert os.path.realpath(bespokeasm.__file__).startswith(os.path.realpath(p)), bespokeasm.__file__


# --------------------------------------------------------------------------------------------
# fork-per-case runner
# --------------------------------------------------------------------------------------------

def run_forked(fn, case, timeout: float = 20.0):
    """Run fn(case) in a forked child; returns ('ok', value) | ('rejected', info) | ('timeout', None).
    'rejected' covers SystemExit with a non-zero / string code and any uncaught exception."""
    r, w = os.pipe()
    pid = os.fork()
    if pid == 0:
        os.close(r)
        out = None
        try:
            devnull = os.open(os.devnull, os.O_WRONLY)
            os.dup2(devnull, 1)
            os.dup2(devnull, 2)
            try:
                val = fn(case)
                out = ('ok', val)
            except SystemExit as e:
                if e.code in (None, 0):
                    out = ('ok', None)
                else:
                    out = ('rejected', 'SystemExit: ' + str(e.code)[:300])
            except BaseException as e:  # noqa
                out = ('rejected', type(e).__name__ + ': ' + str(e)[:300])
            data = json.dumps(out).encode()
            with os.fdopen(w, 'wb') as f:
                f.write(data)
        finally:
            os._exit(0)
    os.close(w)
    import select
    chunks = []
    deadline = time.time() + timeout
    with os.fdopen(r, 'rb') as f:
        fd = f.fileno()
        os.set_blocking(fd, False)
        while True:
            left = deadline - time.time()
            if left <= 0:
                try:
                    os.kill(pid, 9)
                except ProcessLookupError:
                    pass
                os.waitpid(pid, 0)
                return ('timeout', None)
            rl, _, _ = select.select([fd], [], [], min(left, 0.5))
            if rl:
                b = os.read(fd, 1 << 16)
                if not b:
                    break
                chunks.append(b)
    os.waitpid(pid, 0)
    data = b''.join(chunks)
    if not data:
        return ('rejected', 'child died without output')
    st, val = json.loads(data.decode())
    return (st, val)


def _run_one(args):
    fn, case, timeout = args
    return run_forked(fn, case, timeout)


def run_batch_forked(fn, cases, timeout: float = 20.0, workers: int | None = None):
    """Run module-level function fn over many cases in a pool of forked workers; inside a worker
    every case is still executed in its own forked child (pristine module state per case)."""
    import multiprocessing as mp
    workers = workers or NCPU
    if not cases:
        return []
    ctx = mp.get_context('fork')
    with ctx.Pool(min(workers, max(1, len(cases)))) as pool:
        res = pool.map(_run_one, [(fn, c, timeout) for c in cases], chunksize=max(1, len(cases) // (workers * 4) or 1))
    return [tuple(x) for x in res]


# --------------------------------------------------------------------------------------------
# Coq side
# --------------------------------------------------------------------------------------------

def coq_build(targets: list[str] | None = None, timeout: int = 1500) -> tuple[bool, str]:
    """(Re)build the Coq development (full .vo).  Returns (ok, log)."""
    mk = COQ_DIR / 'Makefile'
    if not mk.exists() or mk.stat().st_mtime < (COQ_DIR / '_CoqProject').stat().st_mtime:
        p = subprocess.run(['coq_makefile', '-f', '_CoqProject', '-o', 'Makefile'], cwd=COQ_DIR,
                           capture_output=True, text=True)
        if p.returncode != 0:
            return False, p.stdout + p.stderr
    cmd = ['timeout', str(timeout), 'make', '-j', str(NCPU), '-k'] + (targets or [])
    p = subprocess.run(cmd, cwd=COQ_DIR, capture_output=True, text=True)
    return p.returncode == 0, p.stdout[-6000:] + p.stderr[-6000:]


def vo_exists(name: str) -> bool:
    return (COQ_DIR / 'theories' / (name + '.vo')).exists()


FORBIDDEN = re.compile(r'\b(Admitted|admit|Axiom|Axioms|Parameter|Parameters|Conjecture|Conjectures|Hypothesis|Variable|'
                       r'Unset\s+Guard|bypass_check|type-in-type|impredicative-set|Admit\s+Obligations|'
                       r'Unset\s+Positivity|Unset\s+Universe)\b')


def strip_coq_comments(s: str) -> str:
    out = []
    depth = 0
    i = 0
    while i < len(s):
        if s.startswith('(*', i):
            depth += 1
            i += 2
        elif s.startswith('*)', i) and depth > 0:
            depth -= 1
            i += 2
        else:
            if depth == 0:
                out.append(s[i])
            i += 1
    return ''.join(out)


def scan_forbidden() -> list[str]:
    """Admitted / Axiom / Parameter / switched-off checks anywhere in the development
    (Variable/Hypothesis are allowed only inside a Section; reported if outside)."""
    hits = []
    for f in sorted((COQ_DIR / 'theories').rglob('*.v')):
        txt = strip_coq_comments(f.read_text())
        depth = 0
        for ln, line in enumerate(txt.splitlines(), 1):
            if re.match(r'\s*Section\b', line):
                depth += 1
            if re.match(r'\s*End\b', line) and depth > 0:
                depth -= 1
            for m in FORBIDDEN.finditer(line):
                w = m.group(1)
                if w in ('Variable', 'Hypothesis') and depth > 0:
                    continue
                hits.append(f'{f.relative_to(COQ_DIR)}:{ln}: {w}')
    for f in [COQ_DIR / '_CoqProject']:
        t = f.read_text()
        if 'type-in-type' in t or 'impredicative-set' in t:
            hits.append(f'{f}: forbidden flag')
    return hits


def check_property_file(pid: str) -> dict:
    """Recompile Properties/<pid>.v, capture Print Assumptions output.
    Returns {'theorems': [...], 'obligations': n, 'discharged': n, 'assumptions': {...}, 'ok': bool, 'log': str}."""
    src = COQ_DIR / 'theories' / 'Properties' / f'{pid}.v'
    res = {'theorems': [], 'obligations': 0, 'discharged': 0, 'assumptions': {}, 'ok': False, 'log': ''}
    if not src.exists():
        res['log'] = 'no property file'
        return res
    txt = strip_coq_comments(src.read_text())
    thms = re.findall(r'^\s*(?:Theorem|Lemma|Corollary)\s+(\w+)', txt, flags=re.M)
    printed = re.findall(r'Print\s+Assumptions\s+(\w+)\s*\.', txt)
    res['theorems'] = thms
    res['obligations'] = len(thms)
    p = subprocess.run(['timeout', '600', 'coqc', '-Q', 'theories', 'BA', str(src.relative_to(COQ_DIR))],
                       cwd=COQ_DIR, capture_output=True, text=True)
    out = p.stdout
    res['log'] = (p.stdout + p.stderr)[-4000:]
    if p.returncode != 0:
        return res
    # Print Assumptions blocks appear in order
    blocks = re.split(r'(?m)^(?=Closed under the global context|Axioms:)', out)
    blocks = [b.strip() for b in blocks if b.strip()]
    ok = True
    for i, name in enumerate(printed):
        b = blocks[i] if i < len(blocks) else 'MISSING'
        res['assumptions'][name] = b if not b.startswith('Closed') else 'Closed under the global context'
        if not b.startswith('Closed under the global context'):
            ok = False
    missing = [t for t in thms if t not in printed]
    if missing:
        ok = False
        res['log'] += f'\nTheorems without Print Assumptions: {missing}'
    res['discharged'] = len([t for t in thms if res['assumptions'].get(t, '').startswith('Closed')])
    res['ok'] = ok and res['discharged'] == res['obligations'] and res['obligations'] > 0
    return res


def zlit(n: int) -> str:
    return f'({n})' if n < 0 else str(n)


def zlist(xs) -> str:
    return '[' + '; '.join(zlit(int(x)) for x in xs) + ']'


def coq_bool(b) -> str:
    return 'true' if b else 'false'


def coq_option(x, f=str) -> str:
    return 'None' if x is None else f'(Some {f(x)})'


def coq_string_codes(s: str) -> str:
    """text as list of character codes (Coq string literals have no escapes)."""
    return zlist([ord(c) for c in s])


def coq_str(s: str) -> str:
    """printable-ASCII text as a Coq string literal; falls back to codes via string_of_codes."""
    if all(32 <= ord(c) < 127 for c in s):
        return '"' + s.replace('"', '""') + '"'
    return f'(string_of_codes {coq_string_codes(s)})'


_COQ_HEADER = 'Set Printing Width 1000000.\nSet Printing Depth 1000000.\n'


def coq_eval_files(files: list[Path], timeout: int = 600) -> list[tuple[int, str, str]]:
    """Run coqc on each file in parallel. Returns [(rc, stdout, stderr)]."""
    def one(f):
        p = subprocess.run(['timeout', str(timeout), 'coqc', '-Q', str(COQ_DIR / 'theories'), 'BA', str(f)],
                           cwd=f.parent, capture_output=True, text=True)
        return (p.returncode, p.stdout, p.stderr)
    with ThreadPoolExecutor(max_workers=NCPU) as ex:
        results = list(ex.map(one, files))
    # a shard that was killed (out of memory on a loaded machine: rc -9 / 137) or ran into the time limit (124) says nothing
    # about the model: evaluate it again on its own, with a longer limit, before anything is concluded from it
    for i, (rc, _, _) in enumerate(results):
        if rc in (-9, 137, 124, -15):
            p = subprocess.run(['timeout', str(timeout * 4), 'coqc', '-Q', str(COQ_DIR / 'theories'), 'BA', str(files[i])],
                               cwd=files[i].parent, capture_output=True, text=True)
            results[i] = (p.returncode, p.stdout, p.stderr)
    return results


def parse_eval_list(stdout: str) -> list[list[int]]:
    """Parse every `= [a; b; ...] : list Z` block of coqc output into a list of ints."""
    out = []
    for m in re.finditer(r'=\s*\[(.*?)\]\s*:\s*list', stdout, flags=re.S):
        body = m.group(1).strip()
        if not body:
            out.append([])
        else:
            out.append([int(x.replace('(', '').replace(')', '').replace('%Z', '').strip()) for x in body.split(';')])
    return out


def model_mismatches(pid: str, imports: list[str], run_def: str, eqb: str,
                     case_terms: list[str], obs_terms: list[str], shard: int = 400,
                     show_fn: str | None = None, timeout: int = 600):
    """Evaluate the model on case_terms and compare (inside Coq) with obs_terms.
    `run_def` is a Coq term of type  case -> obs ; `eqb` : obs -> obs -> bool.
    Returns (mismatch_indices, model_show: {idx: text}, errors: [str])."""
    assert len(case_terms) == len(obs_terms)
    d = WORK / f'{pid}_cases'
    if d.exists():
        for f in d.iterdir():
            f.unlink()
    d.mkdir(parents=True, exist_ok=True)
    files = []
    offsets = []
    for k, i in enumerate(range(0, len(case_terms), shard)):
        cs = case_terms[i:i + shard]
        ob = obs_terms[i:i + shard]
        f = d / f'cases_{k}.v'
        imp = '\n'.join(f'From BA Require Import {m}.' for m in imports)
        body = (f'{imp}\n{_COQ_HEADER}Open Scope Z_scope.\n'
                f'Definition model_out := Eval vm_compute in (map ({run_def}) [\n  ' + ';\n  '.join(cs) + '\n]).\n'
                f'Eval vm_compute in (mismatches ({eqb}) model_out [\n  ' + ';\n  '.join(ob) + '\n]).\n')
        f.write_text(body)
        files.append(f)
        offsets.append(i)
    results = coq_eval_files(files, timeout)
    mism = []
    errors = []
    for (rc, so, se), off, f in zip(results, offsets, files):
        if rc != 0:
            errors.append(f'{f.name}: rc={rc}: {(se or so)[-1500:]}')
            continue
        lists = parse_eval_list(so)
        if not lists:
            errors.append(f'{f.name}: could not parse coqc output: {so[-500:]}')
            continue
        for j in lists[-1]:
            if j < 0:
                errors.append(f'{f.name}: length mismatch between cases and observations')
            else:
                mism.append(off + j)
    shown = {}
    if mism and not errors:
        # second pass: print the model's observation for the mismatching cases (at most 20)
        sel = mism[:20]
        f = d / 'show.v'
        imp = '\n'.join(f'From BA Require Import {m}.' for m in imports)
        lines = [imp, _COQ_HEADER, 'Open Scope Z_scope.']
        for n, idx in enumerate(sel):
            lines.append(f'Eval vm_compute in ({run_def}) ({case_terms[idx]}).')
        f.write_text('\n'.join(lines) + '\n')
        rc, so, se = coq_eval_files([f], timeout)[0]
        parts = re.split(r'(?m)^\s*=\s', so)
        parts = [p.strip() for p in parts if p.strip()]
        for n, idx in enumerate(sel):
            shown[idx] = parts[n][:2000] if n < len(parts) else '?'
    return mism, shown, errors


# --------------------------------------------------------------------------------------------
# evidence / verdict
# --------------------------------------------------------------------------------------------

def case_hash(obj) -> str:
    return hashlib.sha1(json.dumps(obj, sort_keys=True, default=str).encode()).hexdigest()[:16]


TRUSTED_BASE_COMMON = [
    'Coq 8.16.1 kernel and coqc (Debian build); vm_compute (used by Eval in generated cases files and in a few '
    'finite-table proofs); no native_compute; no extraction',
    'hand-written Coq model under /verif/coq/theories (modelled, not verified: all of /repo/src/bespokeasm); tie = '
    'differential execution of the model against /repo working tree on generated cases (harness/)',
    'Python harness: generators, renderers (case -> YAML/asm/CLI/Coq term), outcome normaliser',
    'not modelled: Python re engine outside the generated grammar, yaml/json loaders, click, intelhex, packaging, OS',
]


def load_known_findings(pid: str) -> list[dict]:
    f = VERIF / 'known_findings.json'
    if not f.exists():
        return []
    data = json.loads(f.read_text())
    return [x for x in data.get('findings', []) if x.get('property') == pid]


def write_evidence(pid: str, tier: str, seed: int, coverage: dict, wall: float, violations: int,
                   assumptions: list[str] | None = None):
    EVIDENCE_DIR.mkdir(parents=True, exist_ok=True)
    ev = {
        'property_id': pid,
        'tier': tier,
        'seed': seed,
        'level': 'proof',
        'coverage': coverage,
        'assumptions': assumptions or [],
        'wall_s': round(wall, 2),
        'violations': violations,
    }
    (EVIDENCE_DIR / f'{pid}.json').write_text(json.dumps(ev, indent=1, default=str) + '\n')


def write_replay(pid: str, seed: int, k: int, payload: dict) -> Path:
    REPLAY_DIR.mkdir(parents=True, exist_ok=True)
    p = REPLAY_DIR / f'{pid}-{seed}-{k}.json'
    p.write_text(json.dumps(payload, indent=1, default=str) + '\n')
    return p


class Timer:
    def __init__(self):
        self.t0 = time.time()

    def elapsed(self):
        return time.time() - self.t0

"""C18: how a source line is split into statement text and comment (Lines.v) -- through the real reader:
AssemblyFile.load_line_objects on a one-line file `<indent>#define VAL <body>[;comment]<trailing blanks>`; the observation is
the replacement text the symbol got (= the statement part after the name, stripped) and the comment of the line object."""
import os
import shutil
import tempfile

from . import common as C
from .framework import Tie
from .ties_cond import MIN_ISA

WS = [' ', ' ', '\t', '\x0c', '\x1c', '\x1f']
PIECES = ['abc', 'x1', '42', '$ff', '+', '-', '(', ')', ',', ' ', ' ', '\t', ';', ';', '"', "'", '\\', '\\"', "\\'", '\\\\', '"a;b"', "'it;s'", '"q\\"r;"',
          "'\\''", '"it\'s"', "'say \"hi\"'", '#', '.byte', ':', '\x0b', '""', "''", '"\\', "'\\;"]


def gen_line_cases(rng, tier):
    n = 1500 if tier == 'quick' else 20000
    out = []
    for _ in range(n):
        indent = ''.join(rng.choice(WS) for _ in range(rng.choice([0, 0, 1, 2, 4])))
        body = ''.join(rng.choice(PIECES) for _ in range(rng.randint(0, 7)))
        sep = rng.choice([' ', ' ', '\t', '  '])
        r = rng.random()
        tail = ''
        if r < 0.5:
            tail = rng.choice([';', ' ;', '; ', ' ; ']) + ''.join(rng.choice(PIECES + ['note', 'todo']) for _ in range(rng.randint(0, 5)))
        trail = ''.join(rng.choice(WS) for _ in range(rng.choice([0, 0, 1, 3])))
        if not body and rng.random() < 0.5:
            sep = ''
        out.append({'raw': indent + '#define VAL' + sep + body + tail + trail})
    return out


def corpus():
    return [{'raw': x} for x in [
        '#define VAL "a;b" ; it\'s', '#define VAL \';\'', '#define VAL', '#define VAL;c', '  #define VAL x ; y ; z', '#define VAL "unterminated ; c',
        "#define VAL 'x ; it's", '#define VAL "a\\";b" ; real', '#define VAL a\x0bb ; c', '#define VAL "a\x0b" ; c', '#define VAL "a\\\x0b;" ; c',
        '\t#define VAL\t1\t;\tc\t', '#define VAL "\\', '#define VAL \\";x', "#define VAL ''';'"]]


def impl_line(case):
    from bespokeasm.assembler.assembly_file import AssemblyFile
    from bespokeasm.assembler.model import AssemblerModel
    from bespokeasm.assembler.memory_zone.manager import MemoryZoneManager
    from bespokeasm.assembler.preprocessor import Preprocessor
    td = tempfile.mkdtemp(prefix='vf_ln_')
    try:
        isa = os.path.join(td, 'isa.yaml')
        with open(isa, 'w') as f:
            f.write(MIN_ISA)
        src = os.path.join(td, 'main.asm')
        with open(src, 'w', newline='') as f:
            f.write(case['raw'] + '\n')
        model = AssemblerModel(isa, 0)
        mz = MemoryZoneManager(model.address_size, model.default_origin, model.predefined_memory_zones)
        pp = Preprocessor([])
        af = AssemblyFile(src, model.global_label_scope)
        lobjs = af.load_line_objects(model, {td}, mz, pp, 0)
        sym = pp.get_symbol('VAL')
        if sym is None:
            return None
        if len(lobjs) != 1:
            raise SystemExit(f'{len(lobjs)} line objects for one line')
        return [sym.value, lobjs[0].comment]
    finally:
        shutil.rmtree(td, ignore_errors=True)


def line_obs_term(case, st, val):
    if st != 'ok' or val is None:
        return 'None'
    return f'(Some ({C.coq_string_codes(val[0])}, {C.coq_string_codes(val[1])}))'


def line_parts_tie():
    return Tie(name='line_parts', imports=['Base', 'Lines'], run_def='run_line_parts', eqb='obs_line_eqb', gen=gen_line_cases,
               impl=impl_line, case_term=lambda c: C.coq_string_codes(c['raw']), obs_term=line_obs_term,
               nontrivial=lambda c: len(c['raw']) > 12,
               classify=lambda c: ('comment' if ';' in c['raw'] else 'plain') + ('+quotes' if ('"' in c['raw'] or "'" in c['raw']) else ''),
               corpus=corpus, shard=500, timeout=30)

"""Generic check driver: build -> obligations -> correspondence ties -> oracles -> verdict -> evidence."""
from __future__ import annotations

import json
import random
import sys
from collections import Counter
from dataclasses import dataclass, field
from typing import Callable

from . import common as C


@dataclass
class Tie:
    """One correspondence suite: model (Coq) vs implementation (/repo working tree) on the same cases."""
    name: str
    imports: list[str]                   # Coq modules (BA.<x>) the cases file needs
    run_def: str                         # Coq term : case -> obs
    eqb: str                             # Coq term : obs -> obs -> bool
    gen: Callable                        # (rng, tier) -> list[case]   (cases are JSON-able)
    impl: Callable                       # case -> JSON-able observation (runs in a forked child)
    case_term: Callable                  # case -> Coq term text
    obs_term: Callable                   # (case, status, value) -> Coq term text for the implementation's observation
    nontrivial: Callable = lambda c: True
    classify: Callable = lambda c: 'case'            # histogram key
    known: Callable = lambda c, st, val: None        # -> id of an open known finding this case falls under, or None
    corpus: Callable = lambda: []                    # fixed cases run first
    timeout: float = 30.0
    shard: int = 400
    # optional direct oracle on the implementation's observation (relation stated by the property itself);
    # returns None if fine, else a message
    oracle: Callable | None = None


@dataclass
class Oracle:
    """A property relation evaluated directly on implementation runs (supports the tie; never a proof)."""
    name: str
    gen: Callable                        # (rng, tier) -> list[case]
    check: Callable                      # case -> None | message     (runs in forked child)
    nontrivial: Callable = lambda c: True
    classify: Callable = lambda c: 'case'
    known: Callable = lambda c, msg: None
    corpus: Callable = lambda: []
    timeout: float = 120.0


@dataclass
class Spec:
    pid: str
    coq_needs: list[str]                 # .vo files (module names under theories/) the property depends on
    ties: list[Tie] = field(default_factory=list)
    oracles: list[Oracle] = field(default_factory=list)
    trusted_extra: list[str] = field(default_factory=list)
    assumptions: list[str] = field(default_factory=list)
    partial_note: str = ''


def _fmt_case(c, limit=1500):
    s = json.dumps(c, default=str)
    return s if len(s) <= limit else s[:limit] + '...'


def run_check(spec: Spec, tier: str, seed: int, replay: str | None = None) -> int:
    T = C.Timer()
    pid = spec.pid
    print(f'[{pid}] tier={tier} seed={seed} repo={C.REPO}')
    if C.REPLAY_DIR.exists():
        for old in C.REPLAY_DIR.glob(f'{pid}-{seed}-*.json'):
            if replay and str(old.resolve()) == str(__import__('pathlib').Path(replay).resolve()):
                continue
            old.unlink()
    violations = []        # (what, replay payload)
    known_hits = Counter()
    broken = []

    # 1. build
    ok, log = C.coq_build()
    if not ok:
        print(f'[{pid}] coq build reported errors (continuing with what compiled)')
        sys.stdout.write(log[-3000:] + '\n')
    for m in spec.coq_needs:
        if not C.vo_exists(m):
            broken.append({'kind': 'coq-file-does-not-compile', 'file': f'theories/{m}.v'})

    # 2. obligations
    forb = C.scan_forbidden()
    pf = C.check_property_file(pid)
    if forb:
        broken.append({'kind': 'forbidden-construct', 'where': forb})
    if not pf['ok']:
        broken.append({'kind': 'property-theorems-not-discharged', 'file': f'theories/Properties/{pid}.v',
                       'theorems': pf['theorems'], 'assumptions': pf['assumptions'], 'log': pf['log'][-1500:]})
    print(f'[{pid}] obligations={pf["obligations"]} discharged={pf["discharged"]} forbidden={len(forb)}')

    # 3. ties
    C.ensure_impl_on_path()
    total_eval = 0
    distinct_nt = set()
    hist = Counter()
    samples = []
    tie_stats = {}
    for tie in spec.ties:
        rng = random.Random(f'{seed}/{pid}/{tie.name}')
        if replay:
            rp = json.loads(open(replay).read())
            cases = [rp['case']] if rp.get('tie') == tie.name and 'case' in rp else []
        else:
            cases = list(tie.corpus()) + list(tie.gen(rng, tier))
        if not cases:
            continue
        try:
            results = C.run_batch_forked(tie.impl, cases, timeout=tie.timeout)
        except Exception as e:  # harness-level failure of the entry point
            import traceback
            traceback.print_exc()
            broken.append({'kind': 'implementation-entry-point-unusable', 'tie': tie.name, 'error': repr(e)})
            continue
        cterms = [tie.case_term(c) for c in cases]
        oterms = [tie.obs_term(c, st, val) for c, (st, val) in zip(cases, results)]
        mism, shown, errors = C.model_mismatches(pid + '_' + tie.name, tie.imports, tie.run_def, tie.eqb,
                                                 cterms, oterms, shard=tie.shard)
        if errors:
            broken.append({'kind': 'model-evaluation-failed', 'tie': tie.name, 'errors': errors[:3]})
        st_hist = Counter(st for st, _ in results)
        for c, (st, val) in zip(cases, results):
            total_eval += 1
            hist[f'{tie.name}:{tie.classify(c)}:{st}'] += 1
            if tie.nontrivial(c):
                distinct_nt.add(C.case_hash([tie.name, c]))
        for c, (st, val) in list(zip(cases, results))[:2]:
            samples.append({'tie': tie.name, 'case': json.loads(_fmt_case(c)) if len(_fmt_case(c)) < 1500 else _fmt_case(c),
                            'impl': [st, val if len(json.dumps(val, default=str)) < 400 else '...']})
        n_viol = 0
        for idx in mism:
            c = cases[idx]
            st, val = results[idx]
            kf = tie.known(c, st, val)
            if kf:
                known_hits[kf] += 1
                continue
            n_viol += 1
            if len(violations) < 10:
                violations.append({'property': pid, 'tie': tie.name, 'case': c, 'impl': [st, val],
                                   'model': shown.get(idx, '(not printed)'),
                                   'why': 'implementation disagrees with the proved model on this case'})
        # timeouts are violations of termination only where the property says so; here they are disagreements
        if tie.oracle:
            for c, (st, val) in zip(cases, results):
                msg = tie.oracle(c, st, val)
                if msg:
                    kf = tie.known(c, st, val)
                    if kf:
                        known_hits[kf] += 1
                        continue
                    n_viol += 1
                    if len(violations) < 10:
                        violations.append({'property': pid, 'tie': tie.name, 'case': c, 'impl': [st, val], 'why': msg})
        tie_stats[tie.name] = {'cases': len(cases), 'mismatches': len(mism), 'violations': n_viol,
                               'status': dict(st_hist)}
        print(f'[{pid}] tie {tie.name}: cases={len(cases)} status={dict(st_hist)} mismatches={len(mism)} '
              f'violations={n_viol} t={T.elapsed():.1f}s')

    # 4. oracles
    for orc in spec.oracles:
        rng = random.Random(f'{seed}/{pid}/{orc.name}')
        if replay:
            rp = json.loads(open(replay).read())
            cases = [rp['case']] if rp.get('tie') == orc.name and 'case' in rp else []
        else:
            cases = list(orc.corpus()) + list(orc.gen(rng, tier))
        if not cases:
            continue
        results = C.run_batch_forked(orc.check, cases, timeout=orc.timeout)
        n_viol = 0
        for c, (st, val) in zip(cases, results):
            total_eval += 1
            hist[f'{orc.name}:{orc.classify(c)}:{st}'] += 1
            if orc.nontrivial(c):
                distinct_nt.add(C.case_hash([orc.name, c]))
            msg = None
            if st == 'timeout':
                msg = 'oracle timed out'
            elif st == 'rejected':
                msg = f'oracle harness error: {val}'
            elif val:
                msg = val
            if msg:
                kf = orc.known(c, msg)
                if kf:
                    known_hits[kf] += 1
                    continue
                n_viol += 1
                if len(violations) < 10:
                    violations.append({'property': pid, 'tie': orc.name, 'case': c, 'why': msg})
        for c in cases[:1]:
            samples.append({'oracle': orc.name, 'case': _fmt_case(c, 800)})
        tie_stats[orc.name] = {'cases': len(cases), 'violations': n_viol}
        print(f'[{pid}] oracle {orc.name}: cases={len(cases)} violations={n_viol} t={T.elapsed():.1f}s')

    # 5. verdict
    rc = 0
    kfs = C.load_known_findings(pid)
    for kf in kfs:
        if kf.get('status') == 'open':
            n = known_hits.get(kf['id'], 0)
            print(f'KNOWN-FINDING: property={pid} {kf["id"]}: {kf["what"]} (reproduced on {n} cases this run)')
    unlisted = [k for k in known_hits if k not in {x['id'] for x in kfs if x.get('status') == 'open'}]
    for k in unlisted:
        violations.append({'property': pid, 'why': f'cases matched finding id {k} which is not an open entry of known_findings.json'})
    if violations:
        rc = 1
        for k, v in enumerate(violations[:5]):
            p = C.write_replay(pid, seed, k, v)
            print(f'VIOLATION property={pid} replay={p}')
    elif broken:
        rc = 1
        p = C.write_replay(pid, seed, 0, {'property': pid, 'broken': broken,
                                          'note': 'a proof obligation or a correspondence no longer checks; no failing input was found'})
        print(f'VIOLATION property={pid} replay={p} no-failing-input-found')

    coverage = {
        'obligations': pf['obligations'],
        'discharged': pf['discharged'],
        'checker_cmd': f'make -C coq (coqc, full .vo) ; coqc theories/Properties/{pid}.v (Print Assumptions)',
        'trusted_base': C.TRUSTED_BASE_COMMON + spec.trusted_extra,
        'theorems': pf['theorems'],
        'print_assumptions': pf['assumptions'],
        'evaluations': total_eval,
        'distinct_nontrivial': len(distinct_nt),
        'rule': 'cases = corpus + seeded generator output per tie; distinct = sha1 of (tie, case); non-trivial by the '
                'per-tie predicate (see harness/props)',
        'samples': samples[:6],
        'traces_validated_against_impl': total_eval,
        'input_distribution': dict(sorted(hist.items())),
        'ties': tie_stats,
        'known_finding_hits': dict(known_hits),
        'broken': broken,
        'partial': spec.partial_note,
    }
    C.write_evidence(pid, tier, seed, coverage, T.elapsed(), len(violations), spec.assumptions)
    print(f'[{pid}] done rc={rc} evaluations={total_eval} distinct_nontrivial={len(distinct_nt)} wall={T.elapsed():.1f}s')
    return rc

"""Re-validate the seeded changes against the CURRENT /repo tree in a scratch worktree:
patch applies?  tests pass?  demo exits 1 with it and 0 without it."""
import json
import os
import subprocess
import sys
from pathlib import Path

OUT = Path('/tmp/mut/out')
WT = Path(os.environ.get('MUT_WT', '/tmp/mut/wt_validate'))
RESULT = os.environ.get('MUT_RESULT', '/verif/.work/mutant_validation.json')


def sh(cmd, **kw):
    return subprocess.run(cmd, shell=True, capture_output=True, text=True, **kw)


def main():
    sh(f'git -C /repo worktree remove --force {WT}')
    sh(f'git -C /repo worktree add --detach {WT} HEAD')
    res = {}
    only = sys.argv[1:]
    for d in sorted(OUT.glob('C*/[A-P]')):
        name = f'{d.parent.name}/{d.name}'
        if only and not any(name.startswith(o) for o in only):
            continue
        patch = d / 'patch.diff'
        ported = d / 'patch_ported.diff'
        if ported.exists():
            patch = ported
        demo = d / 'demo.py' if (d / 'demo.py').exists() else d / 'demo.sh'
        sh(f'git -C {WT} checkout -- . && git -C {WT} clean -fdq')
        r0 = sh(f'{"/venv/bin/python" if demo.suffix == ".py" else "bash"} {demo} {WT}', timeout=600)
        a = sh(f'git -C {WT} apply {patch}')
        how = 'apply'
        if a.returncode != 0:
            a = sh(f'cd {WT} && patch -p1 --fuzz=3 < {patch}')
            how = 'fuzz'
        if a.returncode != 0:
            res[name] = {'applies': False, 'demo_clean': r0.returncode}
            print(name, res[name])
            continue
        t = sh(f'cd {WT} && PYTHONPATH={WT}/src /venv/bin/python -m pytest -q -p no:cacheprovider 2>&1 | tail -1', timeout=600)
        r1 = sh(f'{"/venv/bin/python" if demo.suffix == ".py" else "bash"} {demo} {WT}', timeout=600)
        res[name] = {'applies': how, 'tests': t.stdout.strip()[-30:], 'demo_clean': r0.returncode, 'demo_patched': r1.returncode}
        print(name, res[name], flush=True)
    sh(f'git -C {WT} checkout -- . && git -C {WT} clean -fdq')
    sh(f'git -C /repo worktree remove --force {WT}')
    old = json.load(open(RESULT)) if os.path.exists(RESULT) else {}
    old.update(res)
    json.dump(old, open(RESULT, 'w'), indent=1)


main()

"""C08 / C09 correspondence.
   C09 unit: Preprocessor.resolve_symbols on generated tables x lines.
   C08 file: AssemblyFile.load_line_objects on generated directive sequences; observable = the marker lines that
   are compilable with their mute flag, and the final symbol table."""
import os
import tempfile

from . import common as C
from .framework import Tie

MIN_ISA = """
description: verif minimal
general:
  address_size: 16
  endian: big
  registers: [a, b]
  identifier: {name: verif-min, version: "1.0.0"}
operand_sets:
  regs:
    operand_values:
      ra: {type: register, register: a, bytecode: {value: 1, size: 8}}
instructions:
  nop:
    bytecode: {value: 0, size: 8}
"""

# (b1, ACH: names that have the shape of a number; a defined symbol is substituted wherever it occurs as a whole word)
# k9 stays the LAST name: the file tie's tables may refer to it ('k9+1') and a #define only ever refers to later names, which
# keeps that tie free of cycles (a cycle is reported by the implementation even for a line of an unselected branch)
NAMES = ['VAL', 'VALUE2', 'AA', 'AB', 'BASE', 'OFFSET', 'LIMIT', 'MODE', 'DEBUG', 'X1', 'X2', 'X3', 'FOO', 'FOO_BAR', '_S1', 'S_', 'b1', 'ACH', 'k9']


# ------------------------------------------------------------------ C09 unit tie
def impl_resolve(case):
    from bespokeasm.assembler.preprocessor import Preprocessor
    from bespokeasm.assembler.line_identifier import LineIdentifier
    p = Preprocessor()
    for n, v in case['table']:
        p.create_symbol(n, v)
    return p.resolve_symbols(LineIdentifier(1, 'unit'), case['line'])


def table_term(t):
    return '[' + '; '.join(f'({C.coq_string_codes(n)}, {C.coq_string_codes(v)})' for n, v in t) + ']'


def resolve_case_term(case):
    return f'({table_term(case["table"])}, {C.coq_string_codes(case["line"])})'


def resolve_obs_term(case, st, val):
    return f'(Some {C.coq_string_codes(val)})' if st == 'ok' else 'None'


def gen_value(rng, names, allow_refs=True):
    r = rng.random()
    if r < 0.35:
        return str(rng.randint(0, 300))
    if r < 0.45:
        return ''
    if r < 0.55:
        return rng.choice(['$10', '0x20', '%101', "'a'", 'some_label', 'r1', '1+2', '(3*4)', 'a', 'x'])
    if allow_refs and names:
        k = rng.randint(1, 3)
        parts = []
        for _ in range(k):
            parts.append(rng.choice(names + [str(rng.randint(0, 9))] * 2))
        return rng.choice(['+', '*', ' ', '-', ' + ', ',']).join(parts)
    return str(rng.randint(0, 9))


def gen_table(rng, cyc_rate=0.15):
    n = rng.randint(0, 7)
    names = rng.sample(NAMES, n)
    table = []
    cyclic = rng.random() < cyc_rate
    for i, nm in enumerate(names):
        refs = names if cyclic else names[i + 1:]      # acyclic: refer only to later names
        table.append([nm, gen_value(rng, refs)])
    rng.shuffle(table)
    return table


def gen_line(rng, names):
    toks = []
    for _ in range(rng.randint(1, 8)):
        r = rng.random()
        if r < 0.45 and names:
            toks.append(rng.choice(names))
        elif r < 0.6 and names:
            n = rng.choice(names)   # identifiers that merely contain a symbol name
            toks.append(rng.choice([n + 'X', 'x' + n, n + '2', '_' + n, n + '_' + n, n.lower(), n[:-1] if len(n) > 2 else n + 'q',
                                    # words that begin with digits and end in the symbol's name (hex literals do): still one word
                                    '$10' + n, '0x1' + n, '2' + n, '9' + n + 'H', n.swapcase(), n.capitalize()]))
        elif r < 0.8:
            toks.append(rng.choice(['.byte', 'ldi', 'a', 'b', '5', '$ff', 'lbl', 'k', 'Z9', '"str"', "'c'"]))
        else:
            toks.append(rng.choice(NAMES))
    seps = [' ', ', ', '+', ' + ', '-', '(', ')', '  ', '\t', '.', ':', '[', ']']
    out = ''
    for t in toks:
        out += t + rng.choice(seps)
    return out.strip()


def gen_resolve_cases(rng, tier):
    n = 1500 if tier == 'quick' else 25000
    cases = []
    for _ in range(n):
        t = gen_table(rng)
        cases.append({'table': t, 'line': gen_line(rng, [x[0] for x in t])})
    return cases


def resolve_corpus():
    return [
        {'table': [['VAL', '5']], 'line': '.byte VAL, VALUE2'},
        {'table': [['VAL', '5'], ['VALUE2', '7']], 'line': '.byte VAL, VALUE2, xVAL, VAL_, _VAL, VAL.VAL'},
        {'table': [['AA', 'AB'], ['AB', 'AA']], 'line': 'AA'},
        {'table': [['AA', 'AA']], 'line': 'AA'},
        {'table': [['AA', 'AB+1'], ['AB', 'X1*2'], ['X1', '3']], 'line': 'ldi AA, AB'},
        {'table': [['AA', 'X1 X1'], ['AB', 'X1'], ['X1', '3']], 'line': 'AA AB AA'},
        {'table': [['AA', '']], 'line': 'x AA y'},
        {'table': [['MSG', '"a\\\\b"']], 'line': '.cstr MSG'},
        {'table': [['HEX', '"A\\x42C"'], ['G1', '\\1 \\g<0>']], 'line': '.cstr HEX G1'},
        {'table': [['BUF', '$20'], ['BUF_SIZE', '4']], 'line': '.byte BUF_SIZE, BUF'},
        {'table': [], 'line': ''},
        {'table': [['AA', '1']], 'line': 'A AA AAA'},
        {'table': [['BE', '1'], ['DEC', '7'], ['ACE', '9']], 'line': '.2byte $10BE, 0x1DEC, 2ACE, BE, 0ACEH'},
        {'table': [['LIMIT', '9']], 'line': '.byte LIMIT, limit, Limit'},
        {'table': [['lo_part', '1'], ['LO_PART', '2']], 'line': '.byte lo_part, LO_PART'},
    ]


def resolve_tie():
    return Tie(name='resolve', imports=['Base', 'Subst'],
               run_def='fun c => match resolve_line (fst c) (snd c) with Ok s => Some s | _ => None end',
               eqb='obs_str_eqb', gen=gen_resolve_cases, impl=impl_resolve, case_term=resolve_case_term,
               obs_term=resolve_obs_term,
               nontrivial=lambda c: any(n in c['line'] for n, _ in c['table']),
               classify=lambda c: 'table%d' % min(len(c['table']), 4), corpus=resolve_corpus, shard=300)


# ------------------------------------------------------------------ C08 file tie
OPS = {'==': 'CEq', '!=': 'CNe', '>': 'CGt', '>=': 'CGe', '<': 'CLt', '<=': 'CLe'}


def render_directive(d):
    k = d[0]
    if k == 'if':
        c = d[1]
        if c[0] == 'ifdef':
            return f'#ifdef {c[1]}'
        if c[0] == 'ifndef':
            return f'#ifndef {c[1]}'
        if c[0] == 'bare':
            return f'#if {c[1]}'
        return f'#if {c[1]} {c[2]} {c[3]}'
    if k == 'elif':
        c = d[1]
        if c[0] == 'bare':
            return f'#elif {c[1]}'
        return f'#elif {c[1]} {c[2]} {c[3]}'
    if k == 'else':
        return '#else'
    if k == 'endif':
        return '#endif'
    if k == 'mute':
        return '#mute'
    if k == 'unmute':
        return d[1] if len(d) > 1 else '#unmute'
    if k == 'define':
        return f'#define {d[1]} {d[2]}'.rstrip()
    if k == 'line':
        return d[1]
    raise ValueError(k)


def impl_file(case):
    from bespokeasm.assembler.assembly_file import AssemblyFile
    from bespokeasm.assembler.model import AssemblerModel
    from bespokeasm.assembler.memory_zone.manager import MemoryZoneManager
    from bespokeasm.assembler.preprocessor import Preprocessor
    from bespokeasm.assembler.line_object.data_line import DataLine
    td = tempfile.mkdtemp(prefix='vf_c08_')
    try:
        isa = os.path.join(td, 'isa.yaml')
        with open(isa, 'w') as f:
            f.write(MIN_ISA)
        src = os.path.join(td, 'main.asm')
        with open(src, 'w') as f:
            f.write('\n'.join(render_directive(d) for d in case['ds']) + '\n')
        model = AssemblerModel(isa, 0)
        mz = MemoryZoneManager(model.address_size, model.default_origin, model.predefined_memory_zones)
        pp = Preprocessor([])
        for n, v in case['table']:
            pp.create_symbol(n, v)
        af = AssemblyFile(src, model.global_label_scope)
        lobjs = af.load_line_objects(model, {td}, mz, pp, 0)
        out = []
        for lo in lobjs:
            if isinstance(lo, DataLine) and lo.compilable:
                out.append([lo.instruction, bool(lo.is_muted)])
        table = [[k, s.value] for k, s in pp._symbols.items()]
        return {'out': out, 'table': table}
    finally:
        import shutil
        shutil.rmtree(td, ignore_errors=True)


def cond_term(c):
    if c[0] == 'ifdef':
        return f'CIfdef {C.coq_string_codes(c[1])}'
    if c[0] == 'ifndef':
        return f'CIfndef {C.coq_string_codes(c[1])}'
    if c[0] == 'bare':
        return f'CCmp {C.coq_string_codes(c[1])} CNe {C.coq_string_codes("0")}'
    rhs = c[3]
    if len(rhs) >= 3 and rhs[0] == rhs[-1] and rhs[0] in '\'"':
        rhs = rhs[1:-1]       # the directive's regex keeps only the text inside the quotes
    return f'CCmp {C.coq_string_codes(c[1])} {OPS[c[2]]} {C.coq_string_codes(rhs)}'


def directive_term(d):
    k = d[0]
    if k == 'if':
        return f'DOpen ({cond_term(d[1])})'
    if k == 'elif':
        return f'DElif ({cond_term(d[1])})'
    if k == 'else':
        return 'DElse'
    if k == 'endif':
        return 'DEndif'
    if k == 'mute':
        return 'DMute'
    if k == 'unmute':
        return 'DUnmute'
    if k == 'define':
        return f'DEffect (PDefine {C.coq_string_codes(d[1])} {C.coq_string_codes(d[2])})'
    return f'DLine {C.coq_string_codes(d[1])}'


def file_case_term(case):
    return f'({table_term(case["table"])}, [' + '; '.join(directive_term(d) for d in case['ds']) + '])'


def file_obs_term(case, st, val):
    if st != 'ok':
        return 'None'
    out = '[' + '; '.join(f'({C.coq_string_codes(i)}, {C.coq_bool(m)})' for i, m in val['out']) + ']'
    return f'(Some ({out}, {table_term(val["table"])}))'


def gen_cond(rng, names, opener=True):
    r = rng.random()
    pool = names + ['UNDEF1', 'UNDEF2']
    if opener and r < 0.3:
        return [rng.choice(['ifdef', 'ifndef']), rng.choice(pool)]
    if r < 0.45:
        # (shift operators in a condition are part of its expression, not comparison operators)
        return ['bare', rng.choice(pool + ['0', '1', '2-2', '3*0+1', '1-3', '-1', '0-2+2', '16>>4', '16 >> 5', '1<<3', '(6>>1)&1', '1 << 0'])]
    lhs = rng.choice(pool + ['5', '10', '9'])
    op = rng.choice(list(OPS))
    rhs = rng.choice(pool + ['0', '1', '5', '9', '10', '100', '$0A', '%1010', '2+3', 'abc', '"abc"', "'abc'", '20>>1', '1<<3'])
    return ['cmp', lhs, op, rhs]


class Gen:
    def __init__(self, rng):
        self.rng = rng
        self.next_id = 1
        self.names = []

    def line(self):
        i = self.next_id
        self.next_id = (self.next_id % 250) + 1
        rng = self.rng
        if rng.random() < 0.4:
            # a line written with symbols (defined earlier, later, or never): substitution follows definition order
            nm = rng.choice(NAMES if rng.random() < 0.5 or not self.names else self.names)
            alt = rng.choice([nm + 'X', 'x' + nm, nm + '2', nm.lower() + '_q'])
            return ['line', f'.byte {i}, {nm}, {alt}, {i}']
        return ['line', f'.byte {i}']

    def blocks(self, depth, n):
        rng = self.rng
        out = []
        for _ in range(n):
            r = rng.random()
            if r < 0.45 or depth <= 0:
                out.append(self.line())
            elif r < 0.55:
                nm = rng.choice(NAMES)
                self.names.append(nm)
                later = NAMES[NAMES.index(nm) + 1:]     # values may only mention later names: no cycles in this tie
                out.append(['define', nm, rng.choice(['', '0', '1', '5', '10', 'abc', '2*3', '-1', '1-3', '2  *  3', '7   - 2', '4 +\t1'] + ([rng.choice(later)] if later else []))])
            elif r < 0.62:
                out.append(['mute'])
            elif r < 0.69:
                out.append(['unmute'] + (['#emit'] if rng.random() < 0.3 else []))
            else:
                out.append(['if', gen_cond(rng, self.names + NAMES[:3])])
                out += self.blocks(depth - 1, rng.randint(0, 3))
                for _ in range(rng.choice([0, 0, 1, 1, 2, 3])):
                    out.append(['elif', gen_cond(rng, self.names + NAMES[:3], opener=False)])
                    out += self.blocks(depth - 1, rng.randint(0, 3))
                if rng.random() < 0.5:
                    out.append(['else'])
                    out += self.blocks(depth - 1, rng.randint(0, 3))
                out.append(['endif'])
        return out


def gen_file_cases(rng, tier):
    n = 700 if tier == 'quick' else 12000
    cases = []
    for _ in range(n):
        g = Gen(rng)
        table = []
        for nm in rng.sample(NAMES, rng.randint(0, 4)):
            table.append([nm, rng.choice(['', '0', '1', '5', '10', '57', 'abc', 's_x'] + (['k9+1'] if nm != 'k9' else []))])
        g.names = [x[0] for x in table]
        ds = g.blocks(rng.choice([1, 2, 3, 4] if tier == 'quick' else [2, 3, 4, 5, 6]), rng.randint(1, 5))
        kind = 'wellnested'
        if rng.random() < 0.15 and ds:
            kind = 'illnested'
            i = rng.randrange(len(ds))
            k = rng.randint(0, 2)
            if k == 0:
                del ds[i]
            elif k == 1:
                ds.insert(i, rng.choice([['else'], ['endif'], ['elif', ['bare', '1']], ['if', ['bare', '1']]]))
            else:
                j = rng.randrange(len(ds))
                ds[i], ds[j] = ds[j], ds[i]
        cases.append({'table': table, 'ds': ds, 'kind': kind})
    return cases


def file_corpus():
    L = lambda i: ['line', f'.byte {i}']
    return [
        {'table': [], 'kind': 'corpus', 'ds': [['if', ['bare', '0']], ['if', ['bare', '1']], L(1), ['endif'], L(2), ['endif'], L(3)]},
        {'table': [], 'kind': 'corpus', 'ds': [['if', ['ifndef', 'GUARD']], ['define', 'GUARD', '1'], L(1), ['endif'], L(2)]},
        {'table': [], 'kind': 'corpus', 'ds': [['if', ['bare', '0']], ['define', 'AA', '1'], ['endif'], ['if', ['ifdef', 'AA']], L(1), ['endif'], L(2)]},
        {'table': [['XX', '1']], 'kind': 'corpus', 'ds': [['if', ['ifdef', 'XX']], L(1), ['elif', ['bare', '1']], L(2), ['else'], L(3), ['endif']]},
        {'table': [['MODE', '1']], 'kind': 'corpus',
         'ds': [['if', ['cmp', 'MODE', '==', '1']], L(1), ['elif', ['cmp', 'MODE', '==', '2']], L(2), ['elif', ['cmp', 'MODE', '==', '3']], L(3),
                ['else'], L(4), ['endif'], L(5)]},
        {'table': [], 'kind': 'corpus', 'ds': [['if', ['cmp', '10', '>', '9']], L(1), ['endif'], ['if', ['cmp', '10', '<', '9']], L(2), ['endif']]},
        {'table': [], 'kind': 'corpus', 'ds': [['else'], L(1)]},
        {'table': [], 'kind': 'corpus', 'ds': [['endif']]},
        {'table': [], 'kind': 'corpus', 'ds': [['elif', ['bare', '1']], L(1), ['endif']]},
        {'table': [], 'kind': 'corpus', 'ds': [['if', ['bare', '1']], L(1), ['else'], L(2), ['else'], L(3), ['endif']]},
        {'table': [], 'kind': 'corpus', 'ds': [['if', ['bare', '1']], L(1), ['else'], L(2), ['elif', ['bare', '1']], L(3), ['endif']]},
        {'table': [], 'kind': 'corpus', 'ds': [['mute'], L(1), ['if', ['bare', '0']], ['unmute'], ['endif'], L(2), ['unmute'], ['unmute'], L(3)]},
        {'table': [['AA', '1']], 'kind': 'corpus', 'ds': [['define', 'AA', '2'], L(1)]},
        {'table': [], 'kind': 'corpus', 'ds': [['if', ['bare', '1']], L(1)]},
        {'table': [['LIMIT', '3']], 'kind': 'corpus',
         'ds': [['line', '.byte 1, LIMIT, BASE, 1'], ['define', 'BASE', 'OFFSET+1'], ['line', '.byte 1, LIMIT, BASE, 1'],
                ['define', 'OFFSET', '9'], ['line', '.byte 1, LIMIT, BASE, 1'], ['line', '.byte 1, LIMIT, BASE, 1']]},
    ]


def file_nontrivial(c):
    return sum(1 for d in c['ds'] if d[0] == 'if') >= 1 and len(c['ds']) > 3


def file_tie():
    return Tie(name='file', imports=['Base', 'Expr', 'Subst', 'Cond', 'CondEval'], run_def='run_cond', eqb='obs_cond_eqb',
               gen=gen_file_cases, impl=impl_file, case_term=file_case_term, obs_term=file_obs_term,
               nontrivial=file_nontrivial, classify=lambda c: c['kind'], corpus=file_corpus, shard=150, timeout=30)

"""Run a set of (mutant -> checks) pairs and print a summary table."""
import subprocess, sys, json
pairs = sys.argv[1:]
res = {}
for pr in pairs:
    m, pids = pr.split(':')
    patch = f'/tmp/mut/out/{m}/patch_ported.diff'
    import os
    if not os.path.exists(patch):
        patch = f'/tmp/mut/out/{m}/patch.diff'
    p = subprocess.run(['/venv/bin/python', '/verif/harness/mutant_run.py', patch] + pids.split(','), capture_output=True, text=True)
    lines = [l for l in p.stdout.splitlines() if l.startswith('== ') or 'DOES NOT APPLY' in l or 'NOT CLEAN' in l]
    print(m, ' | '.join(lines), flush=True)
    res[m] = lines

"""Writes /verif/MANIFEST.json from the table below (single source of truth for what is claimed)."""
import json
from pathlib import Path

VERIF = Path(__file__).resolve().parent.parent

TB = ('Trusted: Coq 8.16.1 kernel + vm_compute (no native_compute, no extraction); axioms: none (every theorem in '
      'coq/theories/Properties/<id>.v prints "Closed under the global context"); the hand-written model and the '
      'differential correspondence harness tying it to /repo/src on every run; Python re/yaml/click/intelhex are '
      'exercised, not modelled.')

CLAIMED = {
    'C01': dict(
        text='Theorems over the Coq model of the bit packer (PackedBits/AssembledInstruction): for every list of fields of any '
             'widths, endianness and alignment and any in-range values, the packed bytes are exactly the specified bit string; '
             'tied to the code by differential execution of the proved model against /repo on a deterministic boundary sweep '
             'plus seeded random part lists.',
        ref='DESIGN.md §6 C01', technique='Coq proof (refinement packer -> bit-string spec) + model/implementation correspondence by vm_compute'),
    'C12': dict(
        text='Theorems: a value outside the signed-or-unsigned range of its field width is rejected, a value inside is assembled '
             '(all widths, all values); min/max, enumeration, zone, same-page and relative-offset constraints are satisfied by every '
             'value a part produces. Tied to the code by the same correspondence as C01 plus whole programs at the boundaries of '
             'generated constraint configurations. An oracle states the property for the operands of macros on the implementation; '
             'what it finds there is the open known finding F1 (known_findings.json), printed as KNOWN-FINDING.',
        ref='DESIGN.md §6 C12', technique='Coq proof (accept iff fits) + model/implementation correspondence by vm_compute'),
    'C07': dict(
        text='Coq model of the expression lexer (re.findall semantics of the token pattern), recursive-descent parser and '
             'evaluator; theorems: every expression tree is read back from its minimally parenthesised token sequence (precedence '
             'and left associativity proved for all trees), byte extraction (all x, all n), truncating exact-rational division, '
             'rejection of unknown labels and division by zero, lexer and parser fuel always sufficient; tied to the code by differential execution on generated well-formed and malformed '
             'expression texts (tokens and values).',
        ref='DESIGN.md §6 C07', technique='Coq proof over expression model + lexer/parser/evaluator correspondence by vm_compute'),
    'C08': dict(
        text='Refinement theorem, for every block-structured program of any nesting depth and every condition evaluator: the flat '
             'line-by-line processor (condition stack, mute counter, directive gating) produces exactly what the block semantics '
             'prescribes; unmatched #else/#elif/#endif rejected; integer comparison theorem. Tied to the code by running '
             'AssemblyFile.load_line_objects on generated well- and ill-nested directive sequences.',
        ref='DESIGN.md §6 C08', technique='Coq refinement proof (flat stack machine -> block semantics) + correspondence by vm_compute'),
    'C09': dict(
        text='Theorems on the substitution model: whole-word replacement touches only word segments equal to the symbol, lines '
             'without defined symbols are unchanged, duplicate definitions and direct self-reference are rejected, repeated '
             'substitution always terminates (fuel |table|+1 proved sufficient); tied to the '
             'code by differential execution of Preprocessor.resolve_symbols on generated tables (chains, diamonds, cycles, '
             'prefix/suffix/infix names) and, for definition order, through the C08 file tie.',
        ref='DESIGN.md §6 C09', technique='Coq proof over substitution model + correspondence by vm_compute'),
    'C02': dict(
        text='Theorems: .align yields the smallest multiple of the page size not below the address (all addresses, all page '
             'sizes); bytes emitted equal bytes reserved for every line kind; lines are placed at their zone cursor, which '
             'advances by exactly the line size and is untouched by lines of other zones; .org absolute vs zone-relative. Tied '
             'to the code by whole-program differential runs of the real Assembler (image + listing rows) on generated programs '
             'with labels, forward references, origins, alignments, zones, muted and conditional lines, plus kernel sweeps.',
        ref='DESIGN.md §6 C02', technique='Coq proofs over pass-1/pass-2 model + whole-program correspondence by vm_compute'),
    'C03': dict(
        text='Theorems: for every line list, window and fill value the image has exactly end-start+1 bytes and at each offset the '
             'byte an unmuted line assembled for that address, else the fill value; default end = highest address with an emitted '
             'byte; every byte of a line counts at its own address, none outside its range, muted lines nowhere. Tied to the code '
             'by whole-program runs with windows starting/ending inside multi-byte lines, beyond the code, sparse maps.',
        ref='DESIGN.md §6 C03', technique='Coq proof (image = pointwise window of address->byte spec) + whole-program correspondence'),
    'C04': dict(
        text='Theorems: the sort is a stable permutation sorted by address; any two byte-producing lines covering a common address, '
             'in any source order, make the overlap check fail; pairwise disjoint non-empty lines are never rejected. Tied to the '
             'code by whole-program runs placing lines via origins, zone-relative origins, nested zones, fills, predefined data.',
        ref='DESIGN.md §6 C04', technique='Coq proof (sorted adjacent check <-> pairwise disjointness) + whole-program correspondence'),
    'C05': dict(
        text='Theorems: zone cursor stays in [start,end+1] through pass 1; bytes of a placed line lie inside its zone or the line is '
             'rejected; other zones never move a zone cursor (stretches concatenate); zone-relative vs absolute origins; created '
             'zones inside GLOBAL, fresh, non-inverted, within address width. Tied to the code by exhaustive small-box sweeps of the '
             'cursor setter and zone creation and by whole-program runs switching zones, with includes.',
        ref='DESIGN.md §6 C05', technique='Coq invariant proofs over zone model + sweeps and whole-program correspondence'),
    'C06': dict(
        text='Theorems: a reference resolves only to a label stored under the referencing line\'s own local region, its own file, or '
             'the global scope (never a register); definitions are stored under the key their prefix prescribes; duplicates, local '
             'labels without region and keywords are rejected. Tied to the code by random LabelScope operation sequences and '
             'multi-file whole-program runs with same-named labels in different regions and files.',
        ref='DESIGN.md §6 C06', technique='Coq proofs over scope model + API-sequence and whole-program correspondence'),
    'C11': dict(
        text='Theorems: data values are emitted modulo 2^(8w) in the configured byte order with exactly w bytes; fill = n copies of '
             'the low byte; zerountil size = max(0, a-addr+1); strings one byte per character, terminator appended for cstr/asciiz. '
             'Tied to the code by differential runs of string directives (escapes, both quotes, all terminators) and whole programs.',
        ref='DESIGN.md §6 C11', technique='Coq proofs over data-directive model + string/whole-program correspondence'),
    'C10': dict(
        text='Theorems: an invocation accepted by a macro variant (and none before it) whose placeholders can all be filled assembles '
             'to exactly what its expanded statements assemble to, one after the other, and is not assembled at all if a placeholder '
             'cannot be filled; the bytes of an instruction sequence are the concatenation of its instructions\' bytes, each '
             'assembled at the address where the previous one ends, and its size is the sum of their sizes. Tied to the code by generated instruction sets with '
             'macros (variants, steps that are not whole bytes, relative operands, all three placeholder kinds) whose invocations '
             'are assembled by the real Assembler and by the matching model.',
        ref='DESIGN.md §6 C10', technique='Coq proofs over macro/sequence model + generated-ISA whole-program correspondence'),
    'C13': dict(
        text='Theorems: the selected variant is the first in definition order that accepts (and nothing is selected if none does); '
             'listed combinations before operand sets; disallowed combinations skipped; alternatives of a set tried in the order of '
             'the documented type priority, stable w.r.t. definition order; a register name (in any letter case) is never accepted as '
             'numeric/address; matching has two outcomes only - no alternative, listed combination or operand set can stop the ones '
             'after it from being tried. '
             'Tied to the code by deliberately ambiguous generated ISA definitions (overlapping variants, asymmetric disallowed '
             'pairs, all operand types) assembled by the real Assembler and by the matching model.',
        ref='DESIGN.md §6 C13', technique='Coq proofs over operand-matching model + generated-ISA whole-program correspondence'),
    'C14': dict(
        text='Partial. Theorems: the whole-program model answers assembled-or-rejected for every input (all functions total; the '
             'fuel of lexer, parser, symbol substitution and include loader proved sufficient); the image has exactly the window '
             'length (the emission cannot spin); success is never reported for an unresolvable label, unknown mnemonic, statement no variant '
             'accepts, or value that does not fit; an image exists only in a successful outcome (by the model\'s result type). '
             'Termination of the real process and file-level fail-closedness are observed: real CLI under a wall-clock limit on '
             'valid, faulty and garbled programs with a pre-seeded output file.',
        ref='DESIGN.md §6 C14', technique='Coq proofs (fuel bound, no false success) + CLI fail-closed oracle with timeout',
        note='Process-level termination (regex backtracking, interpreter) is observed with a timeout, not proved.'),
    'C15': dict(
        text='Partial. Theorems: include-directory lookup, register membership and the address sort are invariant under the '
             'orderings the code leaves to hash order; the model has no hidden input. Observed: fresh CLI processes under different '
             'hash seeds, environments, working directories and include-directory orders produce byte-identical images, listings '
             'and hex outputs (and equal the model), including inputs that are rejected (ambiguous include names, symbols defined '
             'twice through different routes).',
        ref='DESIGN.md §6 C15', technique='Coq permutation-invariance proofs + multi-process determinism oracle',
        note='The interpreter hash function itself is only sampled over seeds.'),
    'C16': dict(
        text='Partial. Theorems: compact-hex record printer/decoder round trip for every line list; listing rows and the '
             'address-to-byte pairs every format must decode to are exactly the bytes of unmuted lines the image theorem uses; '
             'muted lines contribute nothing; each statement listed once. Tied to the code by decoding the real listing, hex dump, '
             'Intel HEX and compact hex outputs and comparing each with the model\'s map and image.',
        ref='DESIGN.md §6 C16', technique='Coq proofs over format model + four-format decode-and-compare correspondence',
        note='Character-level decoding of the output text is done by harness decoders; Intel HEX text comes from the intelhex package.'),
    'C17': dict(
        text='Theorems on the reader: a file included twice, missing or ambiguous is rejected; after an include the includer\'s '
             'region, zone, condition stack and mute counter are unchanged; reading pre ++ include t ++ post equals reading pre, '
             'then t\'s items in place under a fresh file-local state with the global state threaded through, then post; the '
             'loader\'s fuel suffices; the '
             'included file starts in GLOBAL with a fresh file scope; lookups never cross files. Paste equivalence itself is checked '
             'as a relation on two implementation runs (split vs pasted text) for generated programs meeting the side conditions, '
             'plus the whole-program correspondence with nested includes and include faults.',
        ref='DESIGN.md §6 C17', technique='Coq proofs over reader model + whole-program correspondence + split-vs-pasted oracle'),
    'C18': dict(
        text='Partial. Theorems: letter case of mnemonics and of register operands carries no meaning in the matching model; in the '
             'model of the line splitter a statement text whose quotes all close is read the same whatever comment follows it, '
             'indentation and trailing whitespace change nothing, and a semicolon inside a complete string is statement text. '
             'The splitter model is tied to the real reader on generated lines; blank lines, label placement and several '
             'instructions per line are layout applied by the renderer: the implementation fed randomly laid-out text must still '
             'agree with the layout-free model, and a relayout oracle compares canonical vs re-laid-out text on the implementation.',
        ref='DESIGN.md §6 C18', technique='Coq proofs (case-insensitivity, line splitter) + splitter and layout correspondence + relayout oracle',
        note='The patterns that cut a statement text into label / directive / instructions are exercised, not modelled.'),
    'C19': dict(
        text='Partial. Theorems: the validator accepts a definition iff it is well-formed (sections, keyword clashes, macro/instruction '
             'clash ignoring letter case, declared operand sets and registers, operand counts vs both kinds of operand list, '
             'non-inverted ranges, zones inside the address space and GLOBAL, version gate); the gate is exactly the interval '
             '[minimum supported, running] of a version order proved reflexive, antisymmetric, transitive and numeric per '
             'component; #require holds iff the name matches and the stated comparison holds. The facts validation reads are '
             'extracted from the loaded YAML tree by the model itself; tied by compiling with generated well-formed definitions, every fault of a 22-entry '
             'catalogue, and version triples whose numeric and textual orders differ (in process and through the command line).',
        ref='DESIGN.md §6 C19', technique='Coq proofs (validate <-> well_formed, version order) + accept/reject correspondence on generated definitions',
        note='The harness renders the loaded YAML as a tree term; abstraction and version parsing are model code.'),
    'C20': dict(
        text='Partial. Theorem: the alternation pattern the generator substitutes, searched in an identifier, matches iff the '
             'identifier is in the vocabulary (any vocabulary of word-character names, any identifier). Well-formedness of the '
             'generated JSON/plist/YAML/zip files, absence of template placeholders and classification by the emitted patterns '
             '(run with Python re) are checked on generated vocabularies with prefixes, regex metacharacters, underscores and mixed-case '
             'keys; a register written as an operand must be taken by the register rule under first-rule-at-leftmost-position '
             'evaluation of both grammars\' operand contexts.',
        ref='DESIGN.md §6 C20', technique='Coq proof (pattern classifies exactly the vocabulary) + generator correspondence on generated vocabularies',
        note='Editor regex engines (Oniguruma) are stood in for by Python re.'),
}

ALL = [f'C{i:02d}' for i in range(1, 21)]

NOT_YET = 'check not built yet in this session (planned, see DESIGN.md §6/§9); not claimed until its theorems and correspondence exist'


def main():
    checks = []
    for pid in ALL:
        if pid in CLAIMED:
            c = CLAIMED[pid]
            checks.append({
                'property_id': pid,
                'quick_cmd': f'./check {pid} --tier quick',
                'thorough_cmd': f'./check {pid} --tier thorough',
                'evidence_file': f'evidence/{pid}.json',
                'replay_cmd_template': f'./check {pid} --replay {{path}}',
                'engine': 'coq-model+correspondence',
                'level_claimed': {'category': 'proof', 'text': c['text'], 'design_ref': c['ref']},
                'level_note': TB + (' ' + c['note'] if c.get('note') else ''),
                'technique': c['technique'],
            })
    man = {
        'version': 1,
        'setup_cmd': 'cd coq && coq_makefile -f _CoqProject -o Makefile && timeout 3000 make -j16',
        'hooks': {
            'guard': 'BESPOKEASM_VERIF',
            'enable': 'no source hooks are needed: checks set BESPOKEASM_VERIF=1 and PYTHONPATH=/repo/src and drive public entry points',
            'baseline_off_cmd': 'cd /repo && /venv/bin/python -m pytest -ra -q -p no:cacheprovider --timeout=900 --continue-on-collection-errors',
            'source_commits': [],
            'add_only': True,
        },
        'engines': [{
            'name': 'coq-model+correspondence', 'path': 'coq/ harness/ check',
            'serves_properties': sorted(CLAIMED),
            'kind_free_text': 'hand-written Coq 8.16 model with machine-checked theorems; tie to /repo by running the model '
                              '(vm_compute in generated cases files) and the implementation on the same generated cases',
        }],
        'checks': checks,
        'not_applicable': [{'property_id': p, 'reason': NOT_YET} for p in ALL if p not in CLAIMED],
        'notes': 'See DESIGN.md. known_findings.json lists fixed/open genuine defects.',
    }
    (VERIF / 'MANIFEST.json').write_text(json.dumps(man, indent=1) + '\n')


if __name__ == '__main__':
    main()

"""Writes /verif/MANIFEST.json from the table below (single source of truth for what is claimed)."""
import json
from pathlib import Path

VERIF = Path(__file__).resolve().parent.parent

TB = ('Trusted: Coq 8.16.1 kernel + vm_compute (no native_compute, no extraction); axioms: none (every theorem in '
      'coq/theories/Properties/<id>.v prints "Closed under the global context"); the hand-written model and the '
      'differential correspondence harness tying it to /repo/src on every run; Python re/yaml/click/intelhex are '
      'exercised, not modelled.')

CLAIMED = {
    'C01': dict(
        text='Theorems over the Coq model of the bit packer (PackedBits/AssembledInstruction): for every list of fields of any '
             'widths, endianness and alignment and any in-range values, the packed bytes are exactly the specified bit string; '
             'tied to the code by differential execution of the proved model against /repo on a deterministic boundary sweep '
             'plus seeded random part lists.',
        ref='DESIGN.md §6 C01', technique='Coq proof (refinement packer -> bit-string spec) + model/implementation correspondence by vm_compute'),
    'C12': dict(
        text='Theorems: a value outside the signed-or-unsigned range of its field width is rejected, a value inside is assembled '
             '(all widths, all values); tied to the code by the same correspondence as C01.',
        ref='DESIGN.md §6 C12', technique='Coq proof (accept iff fits) + model/implementation correspondence by vm_compute'),
    'C07': dict(
        text='Coq model of the expression lexer (re.findall semantics of the token pattern), recursive-descent parser and '
             'evaluator; theorems on byte extraction (all x, all n), truncating exact-rational division, rejection of unknown '
             'labels and division by zero; tied to the code by differential execution on generated well-formed and malformed '
             'expression texts (tokens and values).',
        ref='DESIGN.md §6 C07', technique='Coq proof over expression model + lexer/parser/evaluator correspondence by vm_compute'),
    'C08': dict(
        text='Refinement theorem, for every block-structured program of any nesting depth and every condition evaluator: the flat '
             'line-by-line processor (condition stack, mute counter, directive gating) produces exactly what the block semantics '
             'prescribes; unmatched #else/#elif/#endif rejected; integer comparison theorem. Tied to the code by running '
             'AssemblyFile.load_line_objects on generated well- and ill-nested directive sequences.',
        ref='DESIGN.md §6 C08', technique='Coq refinement proof (flat stack machine -> block semantics) + correspondence by vm_compute'),
    'C09': dict(
        text='Theorems on the substitution model: whole-word replacement touches only word segments equal to the symbol, lines '
             'without defined symbols are unchanged, duplicate definitions and direct self-reference are rejected; tied to the '
             'code by differential execution of Preprocessor.resolve_symbols on generated tables (chains, diamonds, cycles, '
             'prefix/suffix/infix names) and, for definition order, through the C08 file tie.',
        ref='DESIGN.md §6 C09', technique='Coq proof over substitution model + correspondence by vm_compute'),
}

ALL = [f'C{i:02d}' for i in range(1, 21)]

NOT_YET = 'check not built yet in this session (planned, see DESIGN.md §6/§9); not claimed until its theorems and correspondence exist'


def main():
    checks = []
    for pid in ALL:
        if pid in CLAIMED:
            c = CLAIMED[pid]
            checks.append({
                'property_id': pid,
                'quick_cmd': f'./check {pid} --tier quick',
                'thorough_cmd': f'./check {pid} --tier thorough',
                'evidence_file': f'evidence/{pid}.json',
                'replay_cmd_template': f'./check {pid} --replay {{path}}',
                'engine': 'coq-model+correspondence',
                'level_claimed': {'category': 'proof', 'text': c['text'], 'design_ref': c['ref']},
                'level_note': TB + (' ' + c['note'] if c.get('note') else ''),
                'technique': c['technique'],
            })
    man = {
        'version': 1,
        'setup_cmd': 'cd coq && coq_makefile -f _CoqProject -o Makefile && timeout 3000 make -j16',
        'hooks': {
            'guard': 'BESPOKEASM_VERIF',
            'enable': 'no source hooks are needed: checks set BESPOKEASM_VERIF=1 and PYTHONPATH=/repo/src and drive public entry points',
            'baseline_off_cmd': 'cd /repo && /venv/bin/python -m pytest -ra -q -p no:cacheprovider --timeout=900 --continue-on-collection-errors',
            'source_commits': [],
            'add_only': True,
        },
        'engines': [{
            'name': 'coq-model+correspondence', 'path': 'coq/ harness/ check',
            'serves_properties': sorted(CLAIMED),
            'kind_free_text': 'hand-written Coq 8.16 model with machine-checked theorems; tie to /repo by running the model '
                              '(vm_compute in generated cases files) and the implementation on the same generated cases',
        }],
        'checks': checks,
        'not_applicable': [{'property_id': p, 'reason': NOT_YET} for p in ALL if p not in CLAIMED],
        'notes': 'See DESIGN.md. known_findings.json lists fixed/open genuine defects.',
    }
    (VERIF / 'MANIFEST.json').write_text(json.dumps(man, indent=1) + '\n')


if __name__ == '__main__':
    main()

"""C07 correspondence: text -> tokens (lexer) and text -> value (lexer+parser+evaluator)."""
import re

from . import common as C
from .framework import Tie

# (names that would be numbers if letter case were ignored -- hex digits + h, B + binary digits -- are ordinary labels)
LABELS = ['foo', 'bar', 'MAX_N', '_priv', '.loc', 'zz9', 'count', 'Ptr', 'hello_world', 'x1', 'ah', 'each', 'B1', 'beach']
HOSTILE = ['b10', 'beH', 'face', 'B101', 'abh', 'BYTES', 'BYTE5x', 'LSBx', 'e1', 'deadH', '__bad', 'a']
OPS = {'&': 0, '|': 0, '^': 0, '<<': 1, '>>': 1, '+': 2, '-': 2, '*': 3, '/': 3, '%': 3}


# ---------------------------------------------------------------- implementation side
def _scope(env):
    from bespokeasm.assembler.label_scope import GlobalLabelScope, LabelScope, LabelScopeType
    from bespokeasm.assembler.line_identifier import LineIdentifier
    g = GlobalLabelScope(set())
    f = LabelScope(LabelScopeType.FILE, g, 'f')
    loc = LabelScope(LabelScopeType.LOCAL, f, 'l')
    lid = LineIdentifier(1, 'unit')
    for k, v in env:
        loc.set_label_value(k, v, lid)
    return loc, lid


def impl_lex(case):
    from bespokeasm.expression import _lexical_analysis, TokenType
    from bespokeasm.assembler.line_identifier import LineIdentifier
    toks = _lexical_analysis(LineIdentifier(1, 'unit'), case['text'])
    out = []
    names = {TokenType.T_PLUS: 'OAdd', TokenType.T_MINUS: 'OSub', TokenType.T_MULT: 'OMul', TokenType.T_DIV: 'ODiv',
             TokenType.T_MOD: 'OMod', TokenType.T_AND: 'OAnd', TokenType.T_OR: 'OOr', TokenType.T_XOR: 'OXor',
             TokenType.T_LEFT_SHIFT: 'OShl', TokenType.T_RIGHT_SHIFT: 'OShr'}
    for t in toks:
        tt = t.token_type
        if tt == TokenType.T_END:
            continue
        if tt == TokenType.T_NUM:
            out.append(['N', int(t.value)])
        elif tt == TokenType.T_LABEL:
            out.append(['L', t.value])
        elif tt in names:
            out.append(['O', names[tt]])
        elif tt == TokenType.T_LSB:
            out.append(['LSB'])
        elif tt == TokenType.T_BYTE:
            v = t.value
            out.append(['B', int(v[4]) if len(v) > 4 and v[4] in '0123456789' else None])
        elif tt == TokenType.T_LPAR:
            out.append(['('])
        elif tt == TokenType.T_RPAR:
            out.append([')'])
        else:
            out.append(['?', str(tt)])
    return out


def impl_eval(case):
    from bespokeasm.expression import parse_expression
    scope, lid = _scope(case['env'])
    v = parse_expression(lid, case['text']).get_value(scope, lid)
    if not isinstance(v, int) or isinstance(v, bool):
        raise TypeError('non-int value')
    return v


# ---------------------------------------------------------------- Coq terms
def text_term(s):
    return C.coq_string_codes(s)


def tok_term(t):
    k = t[0]
    if k == 'N':
        return f'TNum {C.zlit(t[1])}'
    if k == 'L':
        return f'TLabel {text_term(t[1])}'
    if k == 'O':
        return f'TOp {t[1]}'
    if k == 'LSB':
        return 'TLsb'
    if k == 'B':
        return 'TByte ' + ('None' if t[1] is None else f'(Some {t[1]})')
    if k == '(':
        return 'TLPar'
    if k == ')':
        return 'TRPar'
    return 'TLPar'


def lex_obs_term(case, st, val):
    if st != 'ok':
        return 'None'
    return '(Some [' + '; '.join(tok_term(t) for t in val) + '])'


def eval_case_term(case):
    env = '[' + '; '.join(f'({text_term(k)}, {C.zlit(v)})' for k, v in case['env']) + ']'
    return f'({env}, {text_term(case["text"])})'


def eval_obs_term(case, st, val):
    return f'(Some {C.zlit(val)})' if st == 'ok' else 'None'


# ---------------------------------------------------------------- generators
def gen_literal(rng, v=None):
    if v is None:
        r = rng.random()
        if r < 0.5:
            v = rng.randint(0, 300)
        elif r < 0.8:
            v = rng.choice([0, 1, 2, 7, 8, 255, 256, 65535, 65536, 2**31, 2**32 - 1, 2**53, 2**53 + 1, 2**64 - 1, 10**20 + 7])
        else:
            v = rng.randint(0, 2**40)
    k = rng.randint(0, 6)
    if k == 0:
        return str(v)
    if k == 1:
        return '$' + format(v, rng.choice(['x', 'X']))
    if k == 2:
        return '0x' + format(v, rng.choice(['x', 'X']))
    if k == 3:
        h = format(v, rng.choice(['x', 'X']))
        return h + 'H'
    if k == 4:
        return '%' + format(v, 'b')
    if k == 5:
        return 'b' + format(v, 'b')
    if 32 <= v < 127 and v != 39:
        return "'" + chr(v) + "'"
    return str(v)


def gen_tree(rng, depth, labels):
    if depth <= 0 or rng.random() < 0.25:
        r = rng.random()
        if r < 0.7 or not labels:
            return ('num', gen_literal(rng))
        return ('lab', rng.choice(labels))
    r = rng.random()
    if r < 0.10:
        return ('neg', gen_tree(rng, depth - 1, labels))
    if r < 0.18:
        return ('fun', rng.choice(['LSB('] + [f'BYTE{i}(' for i in range(10)]), gen_tree(rng, depth - 1, labels))
    op = rng.choice(list(OPS))
    right = gen_tree(rng, depth - 1, labels)
    if op in ('<<', '>>'):
        right = ('num', str(rng.randint(0, 70)))
    return ('bin', op, gen_tree(rng, depth - 1, labels), right)


def prec(t):
    if t[0] == 'bin':
        return OPS[t[1]]
    return 4


def render(rng, t, extra=0.15):
    """minimal parentheses by precedence/left-assoc, plus random redundant ones and whitespace"""
    def sp():
        return rng.choice(['', '', ' ', '  ', '\t'])

    def paren(s):
        return '(' + sp() + s + sp() + ')'

    def go(t):
        k = t[0]
        if k == 'num' or k == 'lab':
            s = t[1]
        elif k == 'neg':
            inner = go(t[1])
            if prec(t[1]) < 4 or t[1][0] == 'neg' and rng.random() < 0.5:
                inner = paren(inner)
            s = '-' + sp() + inner
        elif k == 'fun':
            s = t[1] + sp() + go(t[2]) + sp() + ')'
        else:
            op, l, r = t[1], t[2], t[3]
            ls, rs = go(l), go(r)
            if prec(l) < OPS[op]:
                ls = paren(ls)
            if prec(r) <= OPS[op]:
                rs = paren(rs)
            # '%' directly followed by 0/1 would lex as a binary literal; 'b'... keep a space after % always
            s = ls + sp() + op + (' ' if op == '%' else sp()) + rs
        if rng.random() < extra:
            s = paren(s)
        return s
    return go(t)


def gen_env(rng, hostile=False):
    names = list(LABELS)
    if hostile:
        names += HOSTILE
    env = []
    for n in names:
        if rng.random() < 0.8:
            env.append([n, rng.choice([0, 1, 2, 3, 20, 255, 256, 4096, 65535, -1, -300, 2**33 + 5])])
    return env


def mutate(rng, s):
    if not s:
        return s
    k = rng.randint(0, 5)
    i = rng.randrange(len(s))
    junk = '~!@#?=;:,"\\`[]{}<>'
    if k == 0:
        return s[:i] + s[i + 1:]
    if k == 1:
        return s[:i] + rng.choice('+-*/%&|^()<> ' + junk) + s[i:]
    if k == 2:
        return s[:i] + rng.choice(junk) + s[i + 1:]
    if k == 3:
        j = rng.randrange(len(s))
        a, b = min(i, j), max(i, j)
        return s[:a] + s[b:]
    if k == 4:
        return s[:i] + s[i:i + 3] + s[i:]
    return s[:i] + rng.choice(['H', 'b', '0x', '$', '%', "'", 'BYTE', 'LSB(', 'BYTE3(', '..', '__']) + s[i:]


_SHL_COUNT = re.compile(r'<<\s*(\$[0-9a-fA-F]+|0x[0-9a-fA-F]+|[%b][01]+|[0-9a-fA-F]+H\b|\d+)?')


def _shift_counts_small(text):
    """a left shift by an astronomically large count (a mutation can turn `<< %1011` into `<< 1011...` or put a label there) is
    a resource question - Python raises MemoryError, Coq's Z.shiftl would iterate for ever - not a question of arithmetic:
    such texts are left out.  Every `<<` must be followed directly by a literal of at most 4096."""
    for m in _SHL_COUNT.finditer(text):
        lit = m.group(1)
        if lit is None:
            return False
        try:
            if lit.startswith('$'):
                v = int(lit[1:], 16)
            elif lit.startswith('0x'):
                v = int(lit[2:], 16)
            elif lit[0] in '%b':
                v = int(lit[1:], 2)
            elif lit.endswith('H'):
                v = int(lit[:-1], 16)
            else:
                v = int(lit)
        except ValueError:
            return False
        if v > 4096:
            return False
        rest = text[m.end():]
        if rest[:1].isalnum() or rest[:1] == '_':
            return False                   # the literal runs on into a word
    return True


def gen_eval_cases(rng, tier):
    n = 1500 if tier == 'quick' else 30000
    maxd = 6 if tier == 'quick' else 12
    cases = []
    for i in range(n):
        hostile = (tier == 'thorough' and rng.random() < 0.15)
        env = gen_env(rng, hostile)
        labels = [k for k, _ in env] + (['undefd'] if rng.random() < 0.05 else [])
        t = gen_tree(rng, rng.randint(0, maxd), labels)
        s = render(rng, t)
        kind = 'valid'
        r = rng.random()
        if r < 0.25:
            s = mutate(rng, s)
            kind = 'malformed'
            if rng.random() < 0.3:
                s = mutate(rng, s)
        if not _shift_counts_small(s):
            continue
        cases.append({'text': s, 'env': env, 'kind': kind})
    return cases


def eval_corpus():
    env = [['MAX_N', 20], ['foo', 3], ['_priv', 7], ['.loc', 9]]
    texts = ['-1+2', '-2*MAX_N', '10 + -(5*2)', '5 * ( -6 )', '1/49*49', '7/2*2', '(0-7)/2', '(0-7)%3', '7%(0-3)',
             '1 ~ + 2', '1 ! + 2', '<$2024', '2**3', '1 +', '(1', '1)', '', ' ', 'BYTE1(0-15)', 'BYTE2(1000-2000)',
             'LSB(0-1)', 'BYTE9(1)', 'BYTE0(-15)', 'BYTE1 (5)', 'LSB (5)', '9007199254740993/1', '10**2',
             '(2**64+1)/1', '18446744073709551617/1', '1<<70', '1>>1', '0-1>>1', '6&3|8^1', '1<<2+3', '8-4-2', '64/4/2',
             '2*3%4', "'a'+1", "' '", '%101', 'b101', '$ff', '0xFF', '0FFH', 'ffH', '1FH', '0x', '$', '%', 'b',
             '--5', '- -5', '-(-5)', '-foo', '-foo*2', 'foo--3', '1/0', '1%0', '1<<(0-1)', 'foo bar', '12 34', '.loc+_priv',
             '1.5', 'a.b', '$1g', '0b101', '1_000', 'MAX_N/3', '(MAX_N)', '((1))', '()', '+1', '*', '1 2 +']
    return [{'text': t, 'env': env, 'kind': 'corpus'} for t in texts]


def gen_lex_cases(rng, tier):
    n = 1200 if tier == 'quick' else 20000
    cases = []
    atoms = ['%101', 'b11', '$1f', '0x2A', '0AH', 'ffH', 'beH', '123', '0', "'a'", "'H'", "' '", '+', '-', '*', '/', '&', '|',
             '^', '(', ')', '>>', '<<', '%', 'LSB(', 'BYTE0(', 'BYTE7(', 'foo', '_x', '.y', 'B101', 'abh', 'BYTES', 'BYTE',
             'BYTE5x', 'LSB', 'b', 'b2', 'bb0', '0x', '0X1F', '1F', 'face', 'cafeH', 'ABHx', '>', '<', '__a', '_', '.5', '1abc',
             'H', 'x', '0b1', '%2', '$g', "''", "'ab'", ' ', '\t', '~', '!', '@', '#', ',', ';', '[', ']', '{', '}', '"', '.', '..a']
    for _ in range(n):
        k = rng.randint(1, 7)
        parts = []
        for _ in range(k):
            parts.append(rng.choice(atoms))
            parts.append(rng.choice(['', '', ' ', ' ', '\t']))
        cases.append({'text': ''.join(parts)})
    return cases


def eval_nontrivial(c):
    return any(ch in c['text'] for ch in '+-*/%&|^<>(') and len(c['text']) > 3


def lex_tie():
    return Tie(name='lex', imports=['Base', 'Expr', 'ExprTie'], run_def='run_lex', eqb='obs_tokens_eqb',
               gen=gen_lex_cases, impl=impl_lex, case_term=lambda c: text_term(c['text']), obs_term=lex_obs_term,
               nontrivial=lambda c: len(c['text'].strip()) > 1, classify=lambda c: 'atoms', shard=400)


def eval_tie():
    return Tie(name='eval', imports=['Base', 'Expr', 'ExprTie'], run_def='run_eval', eqb='obs_z_eqb',
               gen=gen_eval_cases, impl=impl_eval, case_term=eval_case_term, obs_term=eval_obs_term,
               nontrivial=eval_nontrivial, classify=lambda c: c['kind'], corpus=eval_corpus, shard=300)

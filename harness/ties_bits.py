"""Unit-level correspondence for the bit packer (C01, C12): random part lists ->
AssembledInstruction(...).get_bytes vs Bits.get_bytes."""
from . import common as C
from .framework import Tie


def impl_parts(case):
    from bespokeasm.assembler.bytecode.assembled import AssembledInstruction
    from bespokeasm.assembler.bytecode.parts import NumericByteCodePart
    from bespokeasm.assembler.line_identifier import LineIdentifier
    lid = LineIdentifier(1, 'unit')
    parts = [NumericByteCodePart(v, s, bool(a), 'little' if e else 'big', lid) for (v, s, a, e) in case['parts']]
    ai = AssembledInstruction(lid, parts)
    b = ai.get_bytes(None, 0, ai.byte_size)
    if b is None:
        raise ValueError('generated length differs from byte_size')
    return {'bytes': list(b), 'size': ai.byte_size}


def part_term(p):
    v, s, a, e = p
    return (f'{{| p_value := {C.zlit(v)}; p_size := {C.zlit(s)}; p_align := {C.coq_bool(a)}; '
            f'p_endian := {"Little" if e else "Big"} |}}')


def case_term(case):
    return '[' + '; '.join(part_term(p) for p in case['parts']) + ']'


def obs_term(case, st, val):
    if st == 'ok':
        return f'(Some {C.zlist(val["bytes"])})'
    return 'None'


def boundary_values(rng, size):
    s = max(size, 0)
    pool = [0, 1, -1, (1 << s) - 1, (1 << s), (1 << s) + 1, -(1 << s >> 1), -(1 << s >> 1) - 1, -(1 << s >> 1) + 1,
            (1 << s >> 1), (1 << s >> 1) - 1]
    nb = (s + 7) // 8
    pool += [(1 << (8 * nb)) - 1, (1 << (8 * nb)), -(1 << (8 * nb) >> 1), -(1 << (8 * nb) >> 1) - 1]
    return pool


def gen_part(rng, overflow_rate=0.12, zero_rate=0.03):
    r = rng.random()
    if r < zero_rate:
        size = 0
    elif r < 0.55:
        size = rng.choice([1, 2, 3, 4, 5, 6, 7, 9, 10, 11, 12, 13, 15, 17, 20, 23, 31, 33, 63])
    elif r < 0.85:
        size = rng.choice([8, 16, 24, 32, 64])
    else:
        size = rng.randint(1, 64)
    r = rng.random()
    if r < overflow_rate:
        v = rng.choice(boundary_values(rng, size))
    elif r < 0.55:
        lo, hi = -(1 << size >> 1), (1 << size) - 1
        v = rng.randint(lo, hi)
    elif r < 0.8:
        v = rng.choice([x for x in boundary_values(rng, size) if -(1 << size >> 1) <= x < (1 << size)] or [0])
    else:
        v = rng.randint(0, max(0, (1 << size) - 1))
    return [v, size, rng.random() < 0.3, rng.random() < 0.4]


def gen_cases(rng, tier):
    n = 2500 if tier == 'quick' else 40000
    cases = []
    for _ in range(n):
        k = rng.choice([1, 1, 2, 2, 3, 3, 4, 5, 6, 8])
        over = rng.choice([0.0, 0.0, 0.1, 0.3])
        cases.append({'parts': [gen_part(rng, overflow_rate=over) for _ in range(k)]})
    return cases


def sweep_cases():
    """deterministic kernel sweep: sizes 1..18 x align x endian x boundary values x preceding offset 0..7"""
    cases = []
    for size in list(range(0, 19)) + [24, 31, 32, 33, 63, 64]:
        for e in (0, 1):
            for a in (0, 1):
                for pre in range(0, 8):
                    vals = sorted(set(boundary_values(None, size)))
                    for v in vals:
                        parts = ([[(1 << pre) - 1, pre, False, 0]] if pre else []) + [[v, size, bool(a), bool(e)]]
                        cases.append({'parts': parts})
    return cases


def nontrivial(case):
    ps = case['parts']
    return any(p[1] % 8 != 0 or p[3] or p[2] for p in ps)


def classify(case):
    ps = case['parts']
    k = 'n%d' % min(len(ps), 4)
    if any(p[1] % 8 for p in ps):
        k += '+oddwidth'
    if any(p[3] for p in ps):
        k += '+little'
    if any(p[2] for p in ps):
        k += '+aligned'
    return k


def parts_tie(sweep=True, thorough_only_sweep=False):
    return Tie(
        name='parts',
        imports=['Base', 'Bits'],
        run_def='fun ps => obs_of_result (get_bytes ps)',
        eqb='obs_bytes_eqb',
        gen=gen_cases,
        impl=impl_parts,
        case_term=case_term,
        obs_term=obs_term,
        nontrivial=nontrivial,
        classify=classify,
        corpus=sweep_cases if sweep else (lambda: []),
        timeout=20.0,
        shard=500,
    )

"""Unit-level ties for the address kernels (C02 align, C05 zones, C06 label scopes, C11 strings / zerountil)."""
from . import common as C
from .framework import Tie
from .sysgen import KEYWORDS, REGISTERS


# ------------------------------------------------------------------ .align
def impl_align(case):
    from bespokeasm.assembler.line_object.directive_line.page_align import PageAlignLine
    from bespokeasm.assembler.memory_zone import MemoryZone
    from bespokeasm.assembler.line_identifier import LineIdentifier
    z = MemoryZone(32, 0, 2 ** 32 - 1, 'GLOBAL')
    lo = PageAlignLine(LineIdentifier(1, 'u'), '.align', '', z, case['page'])
    lo.set_start_address(case['addr'])
    return lo.address


def align_cases():
    return [{'addr': a, 'page': p} for a in list(range(0, 70)) + [255, 256, 257, 4095, 4096, 65535] for p in list(range(-1, 20)) + [24, 64, 255, 256, 257]]


def align_tie():
    return Tie(name='align', imports=['Base', 'LayoutTie'], run_def='run_align', eqb='obs_z_eqb',
               gen=lambda rng, tier: [{'addr': rng.randint(0, 2 ** 20), 'page': rng.randint(-2, 5000)} for _ in range(300 if tier == 'quick' else 5000)],
               impl=impl_align, case_term=lambda c: f'({C.zlit(c["addr"])}, {C.zlit(c["page"])})',
               obs_term=lambda c, st, v: f'(Some {C.zlit(v)})' if st == 'ok' else 'None',
               nontrivial=lambda c: c['page'] > 1, classify=lambda c: 'aligned' if c['page'] > 0 and c['addr'] % c['page'] == 0 else 'unaligned',
               corpus=align_cases, shard=2000)


# ------------------------------------------------------------------ zone cursor setter
def impl_zone_set(case):
    from bespokeasm.assembler.memory_zone import MemoryZone
    z = MemoryZone(case['bits'], case['s'], case['e'], 'z')
    z.current_address = case['v']
    return z.current_address


def zone_set_cases():
    out = []
    for bits in (4, 8):
        for s in range(-1, 13):
            for e in range(-1, 18):
                for v in range(-2, 19):
                    out.append({'bits': bits, 's': s, 'e': e, 'v': v})
    return out[::3]


def zone_set_tie():
    return Tie(name='zone_set', imports=['Base', 'LayoutTie'], run_def='run_zone_set', eqb='obs_z_eqb',
               gen=lambda rng, tier: [], impl=impl_zone_set,
               case_term=lambda c: f'({c["bits"]}, {C.zlit(c["s"])}, {C.zlit(c["e"])}, {C.zlit(c["v"])})',
               obs_term=lambda c, st, v: f'(Some {C.zlit(v)})' if st == 'ok' else 'None',
               corpus=zone_set_cases, shard=3000, classify=lambda c: 'sweep')


# ------------------------------------------------------------------ create_zone
def impl_create_zone(case):
    from bespokeasm.assembler.memory_zone.manager import MemoryZoneManager
    m = MemoryZoneManager(case['bits'], case['origin'], [{'name': n, 'start': s, 'end': e} for n, s, e in case['pre']])
    m.create_zone(case['bits'], case['s'], case['e'], case['name'])
    return len(m._zones)


def create_zone_cases():
    out = []
    pres = [[], [['GLOBAL', 2, 12]], [['ram', 3, 6]], [['GLOBAL', 2, 12], ['ram', 3, 6]], [['ram', 3, 6], ['GLOBAL', 0, 15]],
            [['GLOBAL', 2, 12], ['far', 13, 14]], [['ram', 6, 3]], [['ram', 3, 6], ['ram', 7, 9]], [['GLOBAL', 0, 16]]]
    for pre in pres:
        for origin in (0, 2, 13):
            for s in range(0, 17, 1):
                for e in (s - 1, s, s + 2, 12, 15, 16):
                    for name in ('zz', 'ram', 'GLOBAL'):
                        out.append({'bits': 4, 'origin': origin, 'pre': pre, 's': s, 'e': e, 'name': name})
    return out[::2]


def create_zone_tie():
    def term(c):
        pre = '[' + '; '.join(f'({C.coq_string_codes(n)}, {C.zlit(s)}, {C.zlit(e)})' for n, s, e in c['pre']) + ']'
        return f'({c["bits"]}, {C.zlit(c["origin"])}, {pre}, ({C.zlit(c["s"])}, {C.zlit(c["e"])}, {C.coq_string_codes(c["name"])}))'
    return Tie(name='create_zone', imports=['Base', 'LayoutTie'], run_def='run_create_zone', eqb='obs_z_eqb',
               gen=lambda rng, tier: [], impl=impl_create_zone, case_term=term,
               obs_term=lambda c, st, v: f'(Some {C.zlit(v)})' if st == 'ok' else 'None',
               corpus=create_zone_cases, shard=2000, classify=lambda c: 'sweep')


# ------------------------------------------------------------------ .zerountil size
def impl_zerountil(case):
    from bespokeasm.assembler.line_object.directive_line.fill_data import FillUntilDataLine
    from bespokeasm.assembler.memory_zone import MemoryZone
    from bespokeasm.assembler.line_identifier import LineIdentifier
    z = MemoryZone(16, 0, 65535, 'GLOBAL')
    lo = FillUntilDataLine(LineIdentifier(1, 'u'), '.zerountil', '', str(case['target']), '0', z)
    lo.set_start_address(case['addr'])
    n = lo.byte_size
    lo.generate_bytes()
    if len(lo.get_bytes()) != n or any(b != 0 for b in lo.get_bytes()):
        raise ValueError('emitted bytes differ from reserved size or are not zero')
    return n


def zerountil_tie():
    return Tie(name='zerountil', imports=['Base', 'LayoutTie'], run_def='run_zerountil', eqb='obs_z_eqb',
               gen=lambda rng, tier: [], impl=impl_zerountil,
               case_term=lambda c: f'({C.zlit(c["target"])}, {C.zlit(c["addr"])})',
               obs_term=lambda c, st, v: f'(Some {C.zlit(v)})' if st == 'ok' else 'None',
               corpus=lambda: [{'target': t, 'addr': a} for t in range(0, 24) for a in range(0, 24)], shard=2000,
               classify=lambda c: 'past' if c['target'] < c['addr'] else 'ahead')


# ------------------------------------------------------------------ string directives
def impl_string(case):
    from bespokeasm.assembler.line_object.data_line import DataLine
    from bespokeasm.assembler.line_object.emdedded_string import EmbeddedString
    from bespokeasm.assembler.memory_zone import MemoryZone
    from bespokeasm.assembler.line_identifier import LineIdentifier
    z = MemoryZone(16, 0, 65535, 'GLOBAL')
    lid = LineIdentifier(1, 'u')
    k, t, q, text = case['kind'], case['term'], case['quote'], case['text']
    if k == 2:
        lo = EmbeddedString.factory(lid, '"' + text + '"', '', z, t)
    else:
        lo = DataLine.factory(lid, ('.byte ' if k == 0 else '.cstr ') + q + text + q, '', 'big', z, t)
    if lo is None:
        raise ValueError('not recognised')
    n = lo.byte_size
    lo.generate_bytes()
    bs = list(lo.get_bytes())
    if len(bs) != n:
        raise ValueError('size mismatch')
    return bs


def gen_string_cases(rng, tier):
    n = 600 if tier == 'quick' else 10000
    out = []
    atoms = list('abcXYZ 019!#$%&()*+,-./:<=>?@[]^_{|}~') + ['\\n', '\\t', '\\r', '\\0', '\\\\', '\\x41', '\\x7f', '\\xff', '\\x00',
                                                               '\\a', '\\b', '\\f', '\\v', '\\101', '\\7', '\\77', '\\377', '\\400', '\\777',
                                                               '\\q', '\\e', '\\8', '\\x4', '\\xg1', '\\08', '\\1a']
    for _ in range(n):
        k = rng.choice([0, 0, 1, 1, 2])
        q = '"' if k == 2 else rng.choice(['"', "'"])
        parts = [rng.choice(atoms + ['\\' + q]) for _ in range(rng.randint(0, 9))]
        text = ''.join(parts)
        if k == 2 and '"' in text.replace('\\"', ''):
            continue
        out.append({'kind': k, 'term': rng.choice([0, 3, 10, 127, 128, 255]), 'quote': q, 'text': text})
    return out


def string_tie():
    return Tie(name='strings', imports=['Base', 'LayoutTie'], run_def='run_string', eqb='obs_bytes_eqb',
               gen=gen_string_cases, impl=impl_string,
               case_term=lambda c: f'({c["kind"]}, {c["term"]}, {C.coq_string_codes(c["text"])})',
               obs_term=lambda c, st, v: f'(Some {C.zlist(v)})' if st == 'ok' else 'None',
               nontrivial=lambda c: '\\' in c['text'], classify=lambda c: ['byte', 'cstr', 'embedded'][c['kind']],
               corpus=lambda: [{'kind': k, 'term': 255, 'quote': '"', 'text': t} for k in (0, 1, 2)
                               for t in ['', 'a', '\\n', 'a\\\\b', '\\x41\\x42', 'x\\', '\\x4', '\\777', 'it\\"s', "it's", 'a;b']],
               shard=800)


# ------------------------------------------------------------------ LabelScope API
def impl_labels(case):
    from bespokeasm.assembler.label_scope import GlobalLabelScope, LabelScope, LabelScopeType
    from bespokeasm.assembler.line_identifier import LineIdentifier
    g = GlobalLabelScope(set(REGISTERS))
    files = {}
    locs = {}
    lid = LineIdentifier(1, 'u')

    def scope(sc):
        f, r = sc
        if f not in files:
            files[f] = LabelScope(LabelScopeType.FILE, g, f'f{f}')
        if r is None:
            return files[f]
        if (f, r) not in locs:
            locs[(f, r)] = LabelScope(LabelScopeType.LOCAL, files[f], f'l{r}')
        return locs[(f, r)]
    out = []
    for op in case['ops']:
        if op[0] == 'set':
            try:
                scope(op[1]).set_label_value(op[2], op[3], lid)
            except SystemExit:
                out.append(None)
                return out
            out.append(0)
        else:
            try:
                out.append(scope(op[1]).get_label_value(op[2], lid))
            except SystemExit:
                out.append(None)
    return out


def gen_label_cases(rng, tier):
    n = 500 if tier == 'quick' else 8000
    names = ['foo', 'bar', '_f', '_g', '.l', '.m', 'a', 'sp', 'org', '_fill', '.zero', 'BYTE1', 'x', 'A', 'Sp']
    cases = []
    for _ in range(n):
        ops = []
        for _ in range(rng.randint(1, 14)):
            f = rng.randint(0, 1)
            r = rng.choice([None, 0, 1, 2])
            if r is not None:
                r = r + 10 * f           # regions are per file
            nm = rng.choice(names if rng.random() < 0.9 else names[:8])
            if rng.random() < 0.5:
                prev = [o[3] for o in ops if o[0] == 'set' and o[2] == nm]
                v = prev[-1] if prev and rng.random() < 0.5 else rng.randint(0, 500)    # equal-value redefinitions too
                ops.append(['set', [f, r], nm, v])
            else:
                ops.append(['get', [f, r], nm])
        cases.append({'ops': ops})
    return cases


def labels_tie():
    def sc_term(sc):
        f, r = sc
        return f'(ScFile {f}%nat)' if r is None else f'(ScLocal {f}%nat {r}%nat)'

    def term(c):
        ops = []
        for op in c['ops']:
            if op[0] == 'set':
                ops.append(f'LSet {sc_term(op[1])} {C.coq_string_codes(op[2])} {C.zlit(op[3])}')
            else:
                ops.append(f'LGet {sc_term(op[1])} {C.coq_string_codes(op[2])}')
        kw = '[' + '; '.join(C.coq_string_codes(k) for k in KEYWORDS) + ']'
        regs = '[' + '; '.join(C.coq_string_codes(k) for k in REGISTERS) + ']'
        return f'({kw}, {regs}, [' + '; '.join(ops) + '])'

    def obs(c, st, v):
        if st != 'ok':
            return '[None]'
        return '[' + '; '.join('None' if x is None else f'Some {C.zlit(x)}' for x in v) + ']'
    return Tie(name='labels', imports=['Base', 'LayoutTie'], run_def='run_labels', eqb='optz_list_eqb',
               gen=gen_label_cases, impl=impl_labels, case_term=term, obs_term=obs,
               nontrivial=lambda c: len(c['ops']) > 2, classify=lambda c: 'ops', shard=300)

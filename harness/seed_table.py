"""Prints the DESIGN.md section 9 table (seeded change -> tie/oracle that flags it) from seeded/*/meta.json."""
import json
import re
from pathlib import Path

rows = []
obsolete = []
for d in sorted(Path('/verif/seeded').iterdir()):
    m = json.loads((d / 'meta.json').read_text())
    if m['status'] != 'confirmed':
        obsolete.append((m['id'], m.get('status_note', '')))
        continue
    own = m['checks'].get(m['property'], {}) if isinstance(m.get('checks'), dict) else {}
    flagged = own.get('flagged_by') or []
    names = []
    for f in flagged:
        mm = re.search(r'\] (tie|oracle) (\w+):', f)
        if mm:
            names.append(mm.group(2))
    rows.append((m['id'], m['property'], own.get('exit'), ', '.join(f'`{n}`' for n in names) or '-'))

print('| seeded | exit | flagged by (quick tier of its own property) |')
print('|---|---|---|')
for sid, prop, ex, names in rows:
    print(f'| {sid} | {ex} | {prop} {names} |')
print()
print('missed:', [r[0] for r in rows if r[2] != 1])
print('obsolete:')
for sid, note in obsolete:
    print(f'- {sid}: {note}')

"""C20: run `generate-extension vscode|sublime` on generated vocabularies; check well-formedness, absence of template
placeholders, and that the substituted patterns (executed with Python re) classify probe identifiers as the model does."""
import json
import os
import plistlib
import re
import shutil
import subprocess
import tempfile
import zipfile

from . import common as C
from .framework import Tie

DIRECTIVES = ['org', 'memzone', 'align']
DATATYPES = ['fill', 'zero', 'zerountil', 'byte', '2byte', '4byte', '8byte', 'cstr', 'asciiz']
PLACEHOLDER = re.compile(r'##[A-Z_]+##')
PREPROCESSOR = ['include', 'require', 'create_memzone', 'define', 'if', 'elif', 'else', 'endif', 'ifdef', 'ifndef', 'mute', 'unmute', 'emit']


def isa_yaml(case):
    import yaml
    doc = {'description': case.get('description', 'verif vocab'), 'general': {'address_size': 16, 'endian': 'big', 'registers': list(case['regs']),
                                                       'identifier': {'name': case.get('lang', 'vocab-test'), 'version': '1.2.3'}},
           'operand_sets': {'s0': {'operand_values': {'n': {'type': 'numeric', 'argument': {'size': 8, 'byte_align': True}}}}},
           'instructions': {case.get('keycase', {}).get(m, m): {'bytecode': {'value': i % 256, 'size': 8}} for i, m in enumerate(case['instrs'])}}
    if case['macros']:
        doc['macros'] = {case.get('keycase', {}).get(m, m): [{'instructions': [case['instrs'][0]]}] for m in case['macros']}
    if case['labels']:
        doc['predefined'] = {'constants': [{'name': n, 'value': i} for i, n in enumerate(case['labels'])]}
    return yaml.safe_dump(doc, sort_keys=False)


def _search(pattern, probe):
    return re.search(pattern, probe) is not None


def impl_vocab(case):
    import yaml
    td = tempfile.mkdtemp(prefix='vf_voc_')
    try:
        isa = os.path.join(td, 'isa.yaml')
        open(isa, 'w').write(isa_yaml(case))
        vs = os.path.join(td, 'vs')
        sb = os.path.join(td, 'sb')
        os.makedirs(vs)
        os.makedirs(sb)
        for target, d in (('vscode', vs), ('sublime', sb)):
            p = subprocess.run([C.PY, '-m', 'bespokeasm', 'generate-extension', target, '-c', isa, '-d', d] + ['-v'] * case.get('verbose', 0),
                               capture_output=True, text=True, timeout=120, env=C.impl_env(), cwd=td)
            if p.returncode != 0:
                raise SystemExit(f'{target} generator failed: {p.stderr[-300:]}')
        # ---- VS Code: well-formedness
        ext = os.path.join(vs, 'extensions', case.get('lang', 'vocab-test'))
        texts = {}
        for root, _, files in os.walk(ext):
            for fn in files:
                texts[os.path.relpath(os.path.join(root, fn), ext)] = open(os.path.join(root, fn), encoding='utf-8').read()
        for fn in ('package.json', 'syntaxes/tmGrammar.json', 'snippets.json', 'language-configuration.json'):
            json.loads(texts[fn])
        theme = [k for k in texts if k.endswith('.tmTheme')]
        if len(theme) != 1:
            raise SystemExit('theme file missing')
        plistlib.loads(texts[theme[0]].encode())
        # ---- Sublime: well-formedness
        pkgs = [f for f in os.listdir(sb) if f.endswith('.sublime-package')]
        if len(pkgs) != 1:
            raise SystemExit('sublime package missing')
        stexts = {}
        with zipfile.ZipFile(os.path.join(sb, pkgs[0])) as z:
            if z.testzip() is not None:
                raise SystemExit('corrupt zip member')
            for n in z.namelist():
                stexts[n] = z.read(n).decode('utf-8')
        syntax = [k for k in stexts if k.endswith('.sublime-syntax')]
        if len(syntax) != 1:
            raise SystemExit('sublime syntax missing')
        sdoc = yaml.safe_load(stexts[syntax[0]].split('---', 1)[1])
        for k, t in stexts.items():
            if k.endswith('.sublime-color-scheme') or k.endswith('.sublime-keymap') or k.endswith('.sublime-macro'):
                json.loads(t)
            if k.endswith('.sublime-snippet') or k.endswith('.tmPreferences'):
                import xml.dom.minidom
                xml.dom.minidom.parseString(t)
        # ---- no template placeholder left anywhere
        for k, t in list(texts.items()) + list(stexts.items()):
            m = PLACEHOLDER.search(t)
            if m:
                raise SystemExit(f'unsubstituted placeholder {m.group(0)} in {k}')
        # ---- classification by the substituted patterns
        g = json.loads(texts['syntaxes/tmGrammar.json'])['repository']
        v_instr = g['instructions']['begin']
        v_macro = g['macros']['begin'] if 'macros' in g else None
        v_reg = g['registers']['match'] if 'registers' in g else None
        v_lab = g['compiler_labels']['match'] if 'compiler_labels' in g else None
        ctx = sdoc['contexts']
        s_instr = [d['match'] for d in ctx['instructions'] if d.get('scope') == 'variable.function.instruction'][0]
        s_macro = [d['match'] for d in ctx['instructions'] if d.get('scope') == 'variable.function.macro']
        s_macro = s_macro[0] if s_macro else None
        s_reg = ctx['registers'][0]['match'] if 'registers' in ctx else None
        s_lab = ctx['compiler_labels'][0]['match'] if 'compiler_labels' in ctx else None
        # the look-ahead that ends an instruction: "... or the next operation (instruction or macro)"
        def ops_alternation(pat):
            pre, post = '(?i)(?=(?:\\s*\\;|\\s*$|', '))'
            if not (pat.startswith(pre) and pat.endswith(post)):
                raise SystemExit(f'unexpected end-of-instruction pattern {pat[:60]!r}')
            return '(?i)(?:' + pat[len(pre):-len(post)] + ')'
        v_ops = [ops_alternation(g['instructions']['end'])] + ([ops_alternation(g['macros']['end'])] if 'macros' in g else [])
        s_ops = ops_alternation(ctx['pop_instruction_end'][0]['match'])
        # the vscode grammar must really use the rules it defines
        main_includes = [p.get('include') for p in g['main']['patterns']]

        def reachable(rule):
            seen, todo = set(), ['#main'] if False else list(main_includes)
            while todo:
                r = todo.pop()
                if r is None or r in seen:
                    continue
                seen.add(r)
                body = g.get(r.lstrip('#'), {})
                todo += [m.group(1) for m in re.finditer(r'"include": "(#\w+)"', json.dumps(body))]
            return '#' + rule in seen
        for rule, present in (('instructions', True), ('macros', v_macro is not None), ('registers', v_reg is not None),
                              ('compiler_labels', v_lab is not None)):
            if present and not reachable(rule):
                raise SystemExit(f'grammar rule {rule} is defined but never included')
        # Sublime applies the first rule of a context that matches at the leftmost position: an instruction must be taken by the
        # instruction rule and a macro by the macro rule
        rules = [(d['match'], d.get('scope')) for d in ctx['instructions'] if 'match' in d and str(d.get('scope', '')).startswith('variable.function')]
        for word, want in [(w, 'variable.function.instruction') for w in case['instrs']] + [(w, 'variable.function.macro') for w in case['macros']]:
            for pat, scope in rules:
                m = re.match(pat, word)
                if m:
                    # (the class is what the property speaks of; when 'cmp' and 'cmp.b' are both mnemonics the generated pattern
                    # takes 'cmp.b' as 'cmp' + '.b' -- same class, shorter extent -- which is not held against it here)
                    if scope != want:
                        raise SystemExit(f'sublime: {word!r} is taken by the rule for {scope} (matching {m.group(0)!r}), not by {want}')
                    break
        # a configured register written as the operand of an instruction or macro is classified as a register: both grammars
        # take, at the leftmost position where any rule of the active context matches, the rule listed first
        def s_flat(items, seen=()):
            rules = []
            for it in items:
                if 'include' in it:
                    if it['include'] not in seen:
                        rules += s_flat(ctx.get(it['include'], []), seen + (it['include'],))
                elif 'match' in it:
                    rules.append((it['match'], it.get('scope') or ('pop' if it.get('pop') else 'captures')))
            return rules

        def v_flat(pats, seen=()):
            rules = []
            for it in pats:
                if 'include' in it:
                    nm = it['include'].lstrip('#')
                    if nm not in seen and nm in g:
                        rules += v_flat([g[nm]], seen + (nm,))
                elif 'match' in it:
                    rules.append((it['match'], it.get('name', 'captures')))
                elif 'begin' in it:
                    rules.append((it['begin'], it.get('name', 'begin')))
                elif 'patterns' in it:
                    rules += v_flat(it['patterns'], seen)
            return rules

        def first_rule(rules, text):
            best = None
            for idx, (pat, scope) in enumerate(rules):
                try:
                    m = re.search(pat, text)
                except re.error:
                    continue
                if m and (best is None or m.start() < best[0]):
                    best = (m.start(), idx, scope)
            return best[2] if best else None
        operand_contexts = []
        for d in ctx['instructions']:
            if str(d.get('scope', '')).startswith('variable.function') and 'push' in d:
                pushed = d['push']
                operand_contexts.append(('sublime ' + d['scope'], s_flat(ctx[pushed] if isinstance(pushed, str) else pushed)))
        operand_contexts.append(('vscode instructions', v_flat(g['instructions']['patterns'])))
        if 'macros' in g:
            operand_contexts.append(('vscode macros', v_flat(g['macros']['patterns'])))
        taken = set(x.lower() for x in case['instrs'] + case['macros'])
        for r in case['regs']:
            if r.lower() in taken:
                continue
            for where, rules in operand_contexts:
                got = first_rule(rules, r)
                if got != 'variable.language.register':
                    raise SystemExit(f'{where}: register {r!r} written as an operand is classified as {got}')
        # every preprocessor keyword is classified as a whole (#ifdef is not '#if' + 'def')
        v_pre = [pt['match'] for it in g['directives']['patterns'] if it.get('name') == 'meta.preprocessor'
                 for pt in it.get('patterns', []) if pt.get('name') == 'keyword.control.preprocessor']
        s_pre = [r_['match'] for r_ in ctx['preprocessor_directives'][0]['push'] if r_.get('scope') == 'keyword.control.preprocessor']
        if len(v_pre) != 1 or len(s_pre) != 1:
            raise SystemExit('preprocessor keyword rule missing')
        for kw in PREPROCESSOR:
            for where, pat in (('vscode', v_pre[0]), ('sublime', s_pre[0])):
                m = re.search(pat, '#' + kw + ' x')
                if m is None or m.group(0) != kw:
                    raise SystemExit(f'{where}: #{kw} is classified as {m.group(0) if m else None!r}')
        out = {'vscode': [], 'sublime': []}
        for pr in case['probes']:
            vo = {_search(x, pr) for x in v_ops}
            if len(vo) != 1:
                raise SystemExit('the vscode end-of-instruction look-aheads of instructions and macros disagree')
            out['vscode'].append([_search(v_instr, pr), bool(v_macro) and _search(v_macro, pr), bool(v_reg) and _search(v_reg, pr),
                                  bool(v_lab) and _search(v_lab, pr), vo.pop()])
            out['sublime'].append([_search(s_instr, pr), bool(s_macro) and _search(s_macro, pr), bool(s_reg) and _search(s_reg, pr),
                                   bool(s_lab) and _search(s_lab, pr), _search(s_ops, pr)])
        # directive keywords are classified as directives
        dir_rules = json.dumps(g['directives'])
        for d in DIRECTIVES + DATATYPES:
            if ('\\\\.' + d) not in dir_rules:
                raise SystemExit(f'directive .{d} missing from the vscode grammar')
        if out['vscode'] != out['sublime']:
            raise SystemExit('vscode and sublime patterns classify differently')
        return out['vscode']
    finally:
        shutil.rmtree(td, ignore_errors=True)


BASES = ['ld', 'ldx', 'st', 'mov', 'add', 'jmp', 'nop', 'push', 'pop', 'cmp']


def gen_vocab_cases(rng, tier):
    n = 24 if tier == 'quick' else 300
    out = []
    for _ in range(n):
        stems = rng.sample(BASES, rng.randint(2, 5))
        instrs = set()
        for s in stems:
            instrs.add(s)
            if rng.random() < 0.5:
                instrs.add(s + rng.choice(['x', 'i', '2', '_b']))      # names that are prefixes of one another
            if rng.random() < 0.25:
                instrs.add(s + '.' + rng.choice(['b', 'w']))           # a regex metacharacter in a mnemonic
            if rng.random() < 0.2:
                instrs.add(rng.choice([s + '_', '_' + s]))             # a name that begins or ends with an underscore (a word character)
        instrs = sorted(instrs)
        rng.shuffle(instrs)
        macros = []
        if rng.random() < 0.6:
            macros = [m for m in [rng.choice(['mac', 'dbl', 'pushall', 'ldm']) + rng.choice(['', '2', 'x', '_', '.w']) for _ in range(rng.randint(1, 3))]
                      if m not in instrs]
            macros = sorted(set(macros))
        # a macro named like the stem of a dotted mnemonic (mov / mov.b)
        dotted = [m for m in instrs if '.' in m]
        if dotted and rng.random() < 0.6:
            stem = dotted[0].split('.')[0]
            instrs = [m for m in instrs if m != stem]
            macros = sorted(set(macros + [stem]))
        # (some registers are spelled like a number literal of the language -- b1, AH -- or begin / end with an underscore)
        regs = rng.sample(['a', 'b', 'hl', 'sp', 'ix', 'r10', 'r1', 'b1', 'b0', 'AH', 'ch', 'r_', '_t'], rng.randint(0, 5))
        labels = rng.sample(['VEC', 'RAMTOP', 'io_base', 'Kmax'], rng.randint(0, 3))
        names = instrs + macros + regs + labels
        probes = set(names)
        for nm in names:
            probes.update([nm + 'x', 'x' + nm, nm.upper(), nm[:-1] if len(nm) > 1 else nm + 'q', nm.replace('.', 'z'), nm + '_', nm.capitalize(),
                           nm + 'mask', 'my' + nm])
        probes.update(['zz', 'org', 'byte', 'define', 'LSB', 'l', 'ldxx'])
        probes = sorted(p for p in probes if p)
        # the ISA file may spell mnemonics and macro names in any letter case; the vocabulary is their lower-case form
        keycase = {}
        for nm in instrs + macros:
            if rng.random() < 0.3:
                keycase[nm] = rng.choice([nm.upper(), nm.capitalize()])
        out.append({'instrs': instrs, 'macros': macros, 'regs': regs, 'labels': labels, 'probes': probes, 'keycase': keycase,
                    # the language name names the generated files: also names that begin with a dot or contain one
                    'lang': rng.choice(['vocab-test', 'vocab-test', '.tiny8', 'cpu.v2', 'my_lang', 'R&D-cpu', 'a<b', '[proto]tiny8', '*star8', "'88micro", 'name:']),
                    'verbose': rng.choice([0, 0, 1, 3]),
                    'description': rng.choice(['verif vocab', 'Tiny 8-bit CPU <R&D build>, "rev. B"', "it's <b>bold</b> & more", 'plain'])})
    return out


def vocab_tie():
    def sl(xs):
        return '[' + '; '.join(C.coq_string_codes(x) for x in xs) + ']'

    def term(c):
        return f'({sl(c["instrs"])}, {sl(c["macros"])}, {sl(c["regs"])}, {sl(c["labels"])}, {sl(c["probes"])})'

    def obs(c, st, v):
        if st != 'ok':
            return 'None'
        return '(Some [' + '; '.join('[' + '; '.join(C.coq_bool(b) for b in row) + ']' for row in v) + '])'
    return Tie(name='vocab', imports=['Base', 'Vocab'], run_def='fun c => Some (run_vocab c)', eqb='obs_vocab_eqb',
               gen=gen_vocab_cases, impl=impl_vocab, case_term=term, obs_term=obs,
               nontrivial=lambda c: len(c['instrs']) > 1,
               classify=lambda c: ('macros' if c['macros'] else 'nomacros') + ('+regs' if c['regs'] else '') + ('+labels' if c['labels'] else '')
               + ('+dot' if any('.' in m for m in c['instrs']) else ''),
               shard=30, timeout=180)

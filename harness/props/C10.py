from ..framework import Spec
from ..ties_sys import isa_tie, macro_scenario_tie

SPEC = Spec(pid='C10', coq_needs=['Base', 'Match', 'MatchProofs', 'ProgramIsa', 'Properties/C10'],
            ties=[isa_tie({'p_macros': 1.0}, n_quick=350, name='isa_macros'), macro_scenario_tie()])

from ..framework import Spec
from ..ties_bits import parts_tie

SPEC = Spec(
    pid='C01',
    coq_needs=['Base', 'Bits', 'BitsSpec', 'BitsProofs', 'Properties/C01'],
    ties=[parts_tie()],
)

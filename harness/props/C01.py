from ..framework import Spec
from ..ties_bits import parts_tie
from ..ties_sys import isa_tie, sys_tie, macro_scenario_tie, constraint_scenario_tie

SPEC = Spec(
    pid='C01',
    coq_needs=['Base', 'Bits', 'BitsSpec', 'BitsProofs', 'Match', 'MatchProofs', 'ProgramIsa', 'Properties/C01'],
    ties=[parts_tie(), isa_tie({'p_macros': 0.15}, n_quick=350), sys_tie('C12', n_quick=120, name='sys_instr'), macro_scenario_tie(),
          # sliced addresses next to page boundaries, narrow slices, fields that are not byte multiples
          constraint_scenario_tie(100, 2000)],
)

from ..framework import Spec
from ..ties_sys import sys_tie
from ..ties_layout import string_tie, zerountil_tie

SPEC = Spec(pid='C11', coq_needs=['Base', 'Data', 'DataProofs', 'Program', 'LayoutTie', 'Properties/C11'],
            ties=[string_tie(), zerountil_tie(), sys_tie('C11')])

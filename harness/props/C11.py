from ..framework import Spec
from ..ties_sys import sys_tie, scenario_tie
from ..scenarios import gen_label_scenario, gen_layout_expr_scenario
from ..ties_layout import string_tie, zerountil_tie

SPEC = Spec(pid='C11', coq_needs=['Base', 'Data', 'DataProofs', 'Program', 'LayoutTie', 'Properties/C11'],
            ties=[string_tie(), zerountil_tie(), sys_tie('C11'),
                  # the same data expression text under different label scopes
                  scenario_tie('label_regions', gen_label_scenario, 100, 2000),
                  # fill counts and .zerountil targets computed from address labels
                  scenario_tie('layout_exprs', gen_layout_expr_scenario, 100, 2000)])

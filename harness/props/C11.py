from ..framework import Spec
from ..ties_sys import sys_tie, scenario_tie, layout_scenario_tie
from ..scenarios import gen_label_scenario, gen_layout_expr_scenario, gen_embedded_label_scenario
from ..ties_layout import string_tie, zerountil_tie

SPEC = Spec(pid='C11', coq_needs=['Base', 'Data', 'DataProofs', 'Program', 'LayoutTie', 'Properties/C11'],
            ties=[string_tie(), zerountil_tie(), sys_tie('C11'),
                  # the same data expression text under different label scopes
                  scenario_tie('label_regions', gen_label_scenario, 100, 2000),
                  # fill counts and .zerountil targets computed from address labels
                  scenario_tie('layout_exprs', gen_layout_expr_scenario, 100, 2000),
                  # labels on the line of the string they label; strings that repeat the label's text
                  layout_scenario_tie('labelled_strings', gen_embedded_label_scenario, 80, 1000)])

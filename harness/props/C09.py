from ..framework import Spec
from ..ties_cond import resolve_tie, file_tie
from ..ties_sys import scenario_tie, fault_sweep_tie
from ..scenarios import gen_cond_scenario

# definition order (a line is substituted against exactly the symbols defined before it) is observed at file level
SPEC = Spec(pid='C09', coq_needs=['Base', 'Subst', 'SubstProofs', 'Cond', 'CondEval', 'Program', 'Properties/C09'],
            ties=[resolve_tie(), file_tie(),
                  # symbols from all three sources (ISA file incl. null values, command line, #define) used by whole programs
                  scenario_tie('cond_programs', gen_cond_scenario, 150, 3000),
                  # the same symbol defined twice: by two #define lines, or listed twice in the instruction set file
                  fault_sweep_tie(['dup_define', 'dup_isa_symbol'], per_kind_quick=6, per_kind_thorough=40, name='dup_symbols')])

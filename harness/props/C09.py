from ..framework import Spec
from ..ties_cond import resolve_tie

SPEC = Spec(pid='C09', coq_needs=['Base', 'Subst', 'Properties/C09'], ties=[resolve_tie()])

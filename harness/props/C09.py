from ..framework import Spec
from ..ties_cond import resolve_tie, file_tie

# definition order (a line is substituted against exactly the symbols defined before it) is observed at file level
SPEC = Spec(pid='C09', coq_needs=['Base', 'Subst', 'SubstProofs', 'Cond', 'CondEval', 'Properties/C09'],
            ties=[resolve_tie(), file_tie()])

from ..framework import Spec
from ..ties_cond import resolve_tie, file_tie
from ..ties_sys import scenario_tie
from ..scenarios import gen_cond_scenario

# definition order (a line is substituted against exactly the symbols defined before it) is observed at file level
SPEC = Spec(pid='C09', coq_needs=['Base', 'Subst', 'SubstProofs', 'Cond', 'CondEval', 'Program', 'Properties/C09'],
            ties=[resolve_tie(), file_tie(),
                  # symbols from all three sources (ISA file incl. null values, command line, #define) used by whole programs
                  scenario_tie('cond_programs', gen_cond_scenario, 150, 3000)])

from ..framework import Spec
from ..ties_sys import sys_tie, scenario_tie
from ..scenarios import gen_zone_top_scenario
from ..ties_layout import zone_set_tie, create_zone_tie

SPEC = Spec(pid='C05', coq_needs=['Base', 'Layout', 'LayoutProofs', 'Program', 'ProgramProofs', 'LayoutTie', 'Properties/C05'],
            ties=[zone_set_tie(), create_zone_tie(), sys_tie('C05'),
                  # a zone ending where GLOBAL ends, filled to its last address and followed by lines that emit nothing;
                  # a memory map selected by a conditional chain (same zone name declared in both branches)
                  scenario_tie('zone_top', gen_zone_top_scenario, 150, 2500)])

from ..framework import Spec
from ..ties_sys import sys_tie
from ..ties_layout import zone_set_tie, create_zone_tie

SPEC = Spec(pid='C05', coq_needs=['Base', 'Layout', 'LayoutProofs', 'Program', 'ProgramProofs', 'LayoutTie', 'Properties/C05'],
            ties=[zone_set_tie(), create_zone_tie(), sys_tie('C05')])

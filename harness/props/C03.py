from ..framework import Spec
from ..ties_sys import sys_tie, cli_tie, scenario_tie
from ..scenarios import gen_cond_scenario, gen_small_space_window_scenario

SPEC = Spec(pid='C03', coq_needs=['Base', 'Layout', 'LayoutProofs', 'Program', 'Properties/C03'],
            ties=[sys_tie('C03'), cli_tie('C03'),
                  # muting decided inside nested conditionals: muted bytes read as fill
                  scenario_tie('cond_programs', gen_cond_scenario, 150, 3000),
                  # explicit windows that end at / above the top of a small address space
                  scenario_tie('small_space_windows', gen_small_space_window_scenario, 100, 1500)])

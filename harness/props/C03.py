from ..framework import Spec
from ..ties_sys import sys_tie, cli_tie

SPEC = Spec(pid='C03', coq_needs=['Base', 'Layout', 'LayoutProofs', 'Program', 'Properties/C03'],
            ties=[sys_tie('C03'), cli_tie('C03')])

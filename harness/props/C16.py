from ..framework import Spec
from ..ties_out import formats_tie, formats_scenario_tie
from ..scenarios import gen_small_space_scenario, gen_wide_space_scenario

SPEC = Spec(pid='C16', coq_needs=['Base', 'Program', 'Formats', 'Properties/C16'], ties=[formats_tie(), formats_scenario_tie('small_spaces', gen_small_space_scenario, 80, 1500),
                                                                            # lines across multiples of $10000 in 20 / 24 bit address spaces
                                                                            formats_scenario_tie('wide_spaces', gen_wide_space_scenario, 40, 600)])

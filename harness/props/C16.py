from ..framework import Spec
from ..ties_out import formats_tie

SPEC = Spec(pid='C16', coq_needs=['Base', 'Program', 'Formats', 'Properties/C16'], ties=[formats_tie()])

from ..framework import Spec
from ..ties_sys import sys_tie
from ..ties_layout import align_tie, zerountil_tie

SPEC = Spec(pid='C02', coq_needs=['Base', 'Layout', 'LayoutProofs', 'Program', 'ProgramProofs', 'LayoutTie', 'Properties/C02'],
            ties=[align_tie(), zerountil_tie(), sys_tie('C02')])

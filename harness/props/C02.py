from ..framework import Spec
from ..ties_sys import sys_tie, scenario_tie
from ..scenarios import gen_layout_expr_scenario
from ..ties_layout import align_tie, zerountil_tie

SPEC = Spec(pid='C02', coq_needs=['Base', 'Layout', 'LayoutProofs', 'Program', 'ProgramProofs', 'LayoutTie', 'Properties/C02'],
            ties=[align_tie(), zerountil_tie(), sys_tie('C02'),
                  # layout directives computed from address labels; .org N "GLOBAL" in a GLOBAL that does not start at 0
                  scenario_tie('layout_exprs', gen_layout_expr_scenario, 150, 2500)])

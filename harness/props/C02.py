from ..framework import Spec
from ..ties_sys import sys_tie, scenario_tie, isa_tie
from ..scenarios import gen_layout_expr_scenario
from ..ties_layout import align_tie, zerountil_tie

SPEC = Spec(pid='C02', coq_needs=['Base', 'Layout', 'LayoutProofs', 'Program', 'ProgramProofs', 'LayoutTie', 'Match', 'ProgramIsa', 'Properties/C02'],
            ties=[align_tie(), zerountil_tie(), sys_tie('C02'),
                  # layout directives computed from address labels; .org N "GLOBAL" in a GLOBAL that does not start at 0
                  scenario_tie('layout_exprs', gen_layout_expr_scenario, 150, 2500),
                  # instructions of generated ISAs (fields of 1..16 bits, aligned arguments behind 5..7 leftover bits) followed by
                  # labels: the space reserved for a statement is the number of bytes it emits
                  isa_tie({'p_macros': 0.2}, n_quick=200, name='isa_sizes')])

from ..framework import Spec
from ..ties_config import validate_tie, gate_tie, require_tie

SPEC = Spec(pid='C19', coq_needs=['Base', 'Layout', 'LayoutProofs', 'Config', 'ConfigProofs', 'ConfigTree', 'Properties/C19'],
            ties=[validate_tie(), gate_tie(), require_tie()],
            trusted_extra=['harness/ties_config.py tree_term(): the YAML document as loaded, rendered as a Coq tree (ConfigTree.yv); which '
                           'keys exist, which variants and operand configurations are built and what they refer to is decided by the model '
                           '(ConfigTree.abstract_doc)',
                           'version text is read by the model itself (Config.parse_version) for the subset N(.N)*((a|b|rc)N)? of '
                           'PEP 440; epochs, post/dev/local parts and alternative spellings are outside the modelled subset'],
            partial_note='validation is modelled on the facts ConfigTree.abstract_doc extracts from the loaded YAML tree')

from ..framework import Spec
from ..ties_config import validate_tie, gate_tie, require_tie

SPEC = Spec(pid='C19', coq_needs=['Base', 'Layout', 'Config', 'ConfigProofs', 'Properties/C19'],
            ties=[validate_tie(), gate_tie(), require_tie()],
            trusted_extra=['harness/ties_config.py abstract(): the abstraction of a YAML definition to Config.vcfg '
                           '(which sections/keys exist, names, counts, list lengths, register references, ranges, zones)',
                           'version text is read by the model itself (Config.parse_version) for the subset N(.N)*((a|b|rc)N)? of '
                           'PEP 440; epochs, post/dev/local parts and alternative spellings are outside the modelled subset'],
            partial_note='validation is modelled on an abstraction of the YAML document (harness code extracts it)')

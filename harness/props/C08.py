from ..framework import Spec
from ..ties_cond import file_tie

SPEC = Spec(pid='C08', coq_needs=['Base', 'Cond', 'CondSpec', 'CondProofs', 'Subst', 'CondEval', 'Properties/C08'],
            ties=[file_tie()])

from ..framework import Spec
from ..ties_cond import file_tie
from ..ties_sys import scenario_tie
from ..scenarios import gen_cond_scenario

SPEC = Spec(pid='C08', coq_needs=['Base', 'Cond', 'CondSpec', 'CondProofs', 'Subst', 'CondEval', 'Program', 'Properties/C08'],
            ties=[file_tie(), scenario_tie('cond_programs', gen_cond_scenario, 250, 4000)])

from ..framework import Spec
from ..ties_out import failclosed_oracle
from ..ties_sys import cli_tie

SPEC = Spec(pid='C14', coq_needs=['Base', 'Program', 'Properties/C14'],
            ties=[cli_tie('general', n_quick=60, n_thorough=1000)], oracles=[failclosed_oracle()])

from ..framework import Spec
from ..ties_out import failclosed_oracle, slow_operand_oracle, output_modes_oracle
from ..ties_sys import PROFILES
from ..sysprog import gen_program
from ..ties_sys import cli_tie, fault_sweep_tie, macro_scenario_tie, constraint_scenario_tie

SPEC = Spec(pid='C14', coq_needs=['Base', 'Program', 'Match', 'ProgramIsa', 'NoFuel', 'Properties/C14'],
            ties=[cli_tie('general', n_quick=60, n_thorough=1000), fault_sweep_tie(per_kind_quick=2, per_kind_thorough=25),
                  # values a field or a configured range cannot hold, statements no variant accepts (generated-ISA scenarios)
                  macro_scenario_tie(100, 2000),
                  # values on the wrong side of a page / zone / offset bound must not be assembled
                  constraint_scenario_tie(100, 2000)], oracles=[failclosed_oracle(), slow_operand_oracle(),
                     output_modes_oracle(lambda rng, tier: gen_program(rng, dict(PROFILES['general'], p_fault=0.5), tier), 40, 600)])

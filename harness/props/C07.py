from ..framework import Spec
from ..ties_expr import lex_tie, eval_tie
from ..ties_sys import isa_tie, macro_scenario_tie, scenario_tie
from ..scenarios import gen_const_chain_scenario

SPEC = Spec(
    pid='C07',
    coq_needs=['Base', 'Expr', 'ExprTie', 'ExprProofs', 'ExprParseProofs', 'Program', 'Match', 'ProgramIsa', 'Properties/C07'],
    ties=[lex_tie(), eval_tie(),
          # expressions the operand parsers put together themselves ([reg - offset] is 0 - offset) and expressions in operands
          isa_tie({'kinds': ['indirect_register', 'indirect_register', 'numeric', 'indirect_numeric', 'register']}, n_quick=150, n_thorough=2500, name='isa_operand_exprs'), macro_scenario_tie(100, 2000),
          # constants defined by quotients and used in later arithmetic
          scenario_tie('const_chains', gen_const_chain_scenario, 80, 1000)],
)

from ..framework import Spec
from ..ties_expr import lex_tie, eval_tie

SPEC = Spec(
    pid='C07',
    coq_needs=['Base', 'Expr', 'ExprTie', 'ExprProofs', 'ExprParseProofs', 'Properties/C07'],
    ties=[lex_tie(), eval_tie()],
)

from ..framework import Spec
from ..ties_sys import sys_tie, placement_tie

SPEC = Spec(pid='C04', coq_needs=['Base', 'Layout', 'LayoutProofs', 'Program', 'Properties/C04'],
            ties=[placement_tie(), sys_tie('C04')])

from ..framework import Spec
from ..ties_out import output_modes_oracle
from ..sysprog import gen_placement
from ..ties_sys import sys_tie, placement_tie, isa_tie, scenario_tie
from ..scenarios import gen_cond_scenario

SPEC = Spec(pid='C04', coq_needs=['Base', 'Layout', 'LayoutProofs', 'Program', 'Match', 'ProgramIsa', 'Properties/C04'],
            ties=[placement_tie(), sys_tie('C04'),
                  # a macro's reserved size decides where the next line goes
                  isa_tie({'p_macros': 1.0}, n_quick=200, name='isa_macros'),
                  # zone and origin directives inside unselected branches place nothing and select nothing
                  scenario_tie('cond_programs', gen_cond_scenario, 150, 3000)],
            # an overlap is reported whichever outputs are requested (binary, --no-binary, pretty print formats)
            oracles=[output_modes_oracle(gen_placement)])

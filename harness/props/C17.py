from ..framework import Spec
from ..ties_sys import sys_tie, paste_oracle

SPEC = Spec(pid='C17', coq_needs=['Base', 'Program', 'ProgramProofs', 'ReaderProofs', 'Properties/C17'],
            ties=[sys_tie('C17', n_quick=350)], oracles=[paste_oracle()])

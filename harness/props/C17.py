from ..framework import Spec
from ..ties_sys import sys_tie, paste_oracle, scenario_tie, fault_sweep_tie, cli_tie, layout_tie, cli_scenario_tie
from ..scenarios import gen_include_scenario, gen_cond_scenario

SPEC = Spec(pid='C17', coq_needs=['Base', 'Program', 'ProgramProofs', 'ReaderProofs', 'Properties/C17'],
            ties=[sys_tie('C17', n_quick=350), scenario_tie('include_trees', gen_include_scenario, 200, 3000),
                  # includes inside conditional branches (selected or not, resolvable or not)
                  scenario_tie('cond_programs', gen_cond_scenario, 150, 3000),
                  fault_sweep_tie(['diamond_include', 'nested_dup_include', 'dup_include', 'missing_include', 'ambiguous_include',
                                   'includer_file_label', 'cross_file', 'dup_label_same_line']),
                  # the real command line, called the way a build script does (from the source directory, bare file name, -I .)
                  cli_tie('C17', n_quick=60, n_thorough=800, relative=True),
                  # include lines (and everything else) under random layout: any whitespace after the keyword, indentation
                  layout_tie('C17', n_quick=100, n_thorough=1500, name='layout_C17'),
                  # include trees (repeats, cycles back to the main file) with the main file named by a relative path
                  cli_scenario_tie('include_trees_cli', gen_include_scenario, 80, 1000)],
            oracles=[paste_oracle()])

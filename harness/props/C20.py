from ..framework import Spec
from ..ties_vocab import vocab_tie

SPEC = Spec(pid='C20', coq_needs=['Base', 'Vocab', 'VocabProofs', 'Properties/C20'], ties=[vocab_tie()])

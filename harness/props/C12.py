from ..framework import Spec
from ..ties_bits import parts_tie
from ..ties_sys import sys_tie, isa_tie, macro_scenario_tie, constraint_scenario_tie
from ..ties_macroops import macro_operand_oracle

SPEC = Spec(
    pid='C12',
    coq_needs=['Base', 'Bits', 'BitsSpec', 'BitsProofs', 'Program', 'Match', 'ProgramIsa', 'Properties/C12'],
    ties=[parts_tie(), sys_tie('C12', n_quick=300),
          # constraints on operands of instructions inside macros (relative offsets from each step's own address)
          isa_tie({'p_macros': 1.0}, n_quick=200, name='isa_macros'), macro_scenario_tie(),
          # sliced addresses narrower than half the address width; relative offsets with a single configured bound
          constraint_scenario_tie()],
    # constraints configured for a macro's own operands (open finding F1: not enforced)
    oracles=[macro_operand_oracle()],
)

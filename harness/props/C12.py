from ..framework import Spec
from ..ties_bits import parts_tie

SPEC = Spec(
    pid='C12',
    coq_needs=['Base', 'Bits', 'BitsSpec', 'BitsProofs', 'Properties/C12'],
    ties=[parts_tie()],
)

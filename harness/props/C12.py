from ..framework import Spec
from ..ties_bits import parts_tie
from ..ties_sys import sys_tie

SPEC = Spec(
    pid='C12',
    coq_needs=['Base', 'Bits', 'BitsSpec', 'BitsProofs', 'Program', 'Properties/C12'],
    ties=[parts_tie(), sys_tie('C12', n_quick=300)],
)

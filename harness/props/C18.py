from ..framework import Spec
from ..ties_sys import layout_tie, layout_isa_tie, layout_oracle, layout_scenario_tie
from ..scenarios import gen_label_scenario

SPEC = Spec(pid='C18', coq_needs=['Base', 'Program', 'Match', 'ProgramIsa', 'Properties/C18'],
            ties=[layout_tie(), layout_isa_tie(),
                  # a label in front of the statement it labels vs on its own line: which region the statement belongs to
                  layout_scenario_tie('label_lines', gen_label_scenario, 150, 2500)],
            oracles=[layout_oracle()])

from ..framework import Spec
from ..ties_sys import layout_tie, layout_isa_tie, layout_oracle

SPEC = Spec(pid='C18', coq_needs=['Base', 'Program', 'Match', 'ProgramIsa', 'Properties/C18'],
            ties=[layout_tie(), layout_isa_tie()], oracles=[layout_oracle()])

from ..framework import Spec
from ..ties_sys import layout_tie, layout_isa_tie, layout_oracle, layout_scenario_tie
from ..scenarios import gen_label_scenario, gen_embedded_label_scenario, gen_zone_top_scenario
from ..ties_lines import line_parts_tie

SPEC = Spec(pid='C18', coq_needs=['Base', 'Program', 'Match', 'ProgramIsa', 'Lines', 'LinesProofs', 'Properties/C18'],
            ties=[layout_tie(), layout_isa_tie(),
                  # the line splitter (statement text / comment) of Lines.v against the real reader
                  line_parts_tie(),
                  # a label in front of the statement it labels vs on its own line: which region the statement belongs to
                  layout_scenario_tie('label_lines', gen_label_scenario, 150, 2500),
                  # labels in front of embedded strings; comment lines behind the last byte of a full zone
                  layout_scenario_tie('embedded_labels', gen_embedded_label_scenario, 60, 800),
                  layout_scenario_tie('zone_top_layout', gen_zone_top_scenario, 120, 1500)],
            oracles=[layout_oracle()])

from ..framework import Spec
from ..ties_sys import sys_tie, fault_sweep_tie, scenario_tie, layout_scenario_tie
from ..scenarios import gen_cond_scenario, gen_label_scenario
from ..ties_layout import labels_tie

SPEC = Spec(pid='C06', coq_needs=['Base', 'Program', 'ProgramProofs', 'LayoutTie', 'Properties/C06'],
            ties=[labels_tie(), sys_tie('C06'),
                  # label regions and conditional assembly: only a selected non-local label opens a region
                  scenario_tie('cond_programs', gen_cond_scenario, 150, 3000),
                  scenario_tie('label_regions', gen_label_scenario, 100, 2000),
                  layout_scenario_tie('label_lines', gen_label_scenario, 100, 2000),
                  fault_sweep_tie(['undef_ref', 'register_ref', 'local_no_region', 'dup_label', 'keyword_label', 'cross_region', 'cross_file',
                                   'includer_file_label', 'const_fwd', 'register_label_other_case'], per_kind_quick=6)])

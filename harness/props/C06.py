from ..framework import Spec
from ..ties_sys import sys_tie
from ..ties_layout import labels_tie

SPEC = Spec(pid='C06', coq_needs=['Base', 'Program', 'ProgramProofs', 'LayoutTie', 'Properties/C06'],
            ties=[labels_tie(), sys_tie('C06')])

from ..framework import Spec
from ..ties_sys import isa_tie, macro_scenario_tie

SPEC = Spec(pid='C13', coq_needs=['Base', 'Match', 'ProgramIsa', 'Properties/C13'], ties=[isa_tie(), macro_scenario_tie()])

from ..framework import Spec
from ..ties_out import determinism_oracle, isa_determinism_oracle
from ..ties_sys import cli_tie

SPEC = Spec(pid='C15', coq_needs=['Base', 'Program', 'Properties/C15'],
            ties=[cli_tie('general', n_quick=40, n_thorough=600)], oracles=[determinism_oracle(), isa_determinism_oracle()])

"""System-level cases: abstract program -> (ISA yaml, asm files, options) for the implementation and a Coq term
for Program.assemble.  The ISA is a fixed hand-written family ("SYS") whose encodings are tabulated here; the
generated-ISA family (operand matching by the Coq model) lives in sysgen_isa.py."""
from __future__ import annotations

import os
import re
import shutil
import tempfile

from . import common as C
from .ties_expr import OPS as EOPS, gen_literal

KEYWORDS = ['org', 'memzone', 'align', 'fill', 'zero', 'zerountil', 'byte', '2byte', '4byte', '8byte', 'cstr', 'asciiz',
            'include', 'require', 'create_memzone', 'define', 'if', 'elif', 'else', 'endif', 'ifdef', 'ifndef',
            'mute', 'unmute', 'emit', 'LSB'] + [f'BYTE{i}' for i in range(10)]
REGISTERS = ['a', 'b', 'sp']


# ------------------------------------------------------------------------------------------------
# expressions
# ------------------------------------------------------------------------------------------------
def lit_value(text: str) -> int:
    if text.startswith('$'):
        return int(text[1:], 16)
    if text.startswith('0x'):
        return int(text[2:], 16)
    if text.endswith('H'):
        return int(text[:-1], 16)
    if text.startswith('%') or text.startswith('b'):
        return int(text[1:], 2)
    if text.startswith("'"):
        return ord(text[1])
    return int(text)


BINOP = {'&': 'OAnd', '|': 'OOr', '^': 'OXor', '<<': 'OShl', '>>': 'OShr', '+': 'OAdd', '-': 'OSub', '*': 'OMul', '/': 'ODiv', '%': 'OMod'}


def expr_term(t) -> str:
    k = t[0]
    if k == 'num':
        return f'(ENum {C.zlit(lit_value(t[1]))})'
    if k == 'lab':
        return f'(ELabel {C.coq_string_codes(t[1])})'
    if k == 'neg':
        return f'(ENeg {expr_term(t[1])})'
    if k == 'fun':
        f = 'FLsb' if t[1].startswith('LSB') else f'(FByte (Some {int(t[1][4])}))'
        return f'(EFun {f} {expr_term(t[2])})'
    return f'(EBin {BINOP[t[1]]} {expr_term(t[2])} {expr_term(t[3])})'


def prec(t):
    return EOPS[t[1]] if t[0] == 'bin' else 4


def expr_text(t) -> str:
    k = t[0]
    if k in ('num', 'lab'):
        return t[1]
    if k == 'neg':
        inner = expr_text(t[1])
        if prec(t[1]) < 4:
            inner = '(' + inner + ')'
        return '-' + inner
    if k == 'fun':
        return t[1] + expr_text(t[2]) + ')'
    op, l, r = t[1], t[2], t[3]
    ls, rs = expr_text(l), expr_text(r)
    if prec(l) < EOPS[op]:
        ls = '(' + ls + ')'
    if prec(r) <= EOPS[op]:
        rs = '(' + rs + ')'
    return f'{ls} {op} {rs}'


def num(v: int):
    return ('num', str(v)) if v >= 0 else ('neg', ('num', str(-v)))


# ------------------------------------------------------------------------------------------------
# the SYS instruction set
# ------------------------------------------------------------------------------------------------
def sys_isa_yaml(cfg) -> str:
    y = _sys_isa_yaml(cfg)
    if cfg.get('upper_regs'):
        # the registers are declared in upper case (source text keeps writing them in lower case: registers are matched
        # without regard to letter case); operand configurations must name them as declared
        y = re.sub(r'register: (a|b|sp)\b', lambda m: 'register: ' + m.group(1).upper(), y)
    return y


def _sys_isa_yaml(cfg) -> str:
    zones = ''
    if cfg['zones']:
        zones = '  memory_zones:\n' + ''.join(f'    - name: "{n}"\n      start: {s}\n      end: {e}\n' for n, s, e in cfg['zones'])
    consts = ''
    if cfg['consts']:
        consts = '  constants:\n' + ''.join(f'    - name: "{n}"\n      value: {v}\n' for n, v in cfg['consts'])
    data = ''
    if cfg['data']:
        data = '  data:\n' + ''.join(f'    - name: "{n}"\n      address: {a}\n      value: {v}\n      size: {s}\n' for n, a, v, s in cfg['data'])
    syms = ''
    if cfg['syms']:
        # a value of None is an explicit null in the file ("value:"): a symbol that is defined and stands for no text
        # a decimal value is written without quotes for some names (YAML then loads a number, which stands for its text)
        def sym_val(n, v):
            if v is None:
                return ''
            if v.isdigit() and str(int(v)) == v and (v in ('0', '5') or len(n) % 2 == 0):
                return f' {v}'
            return f' "{v}"'
        syms = '  symbols:\n' + ''.join(f'    - name: "{n}"\n      value:' + sym_val(n, v) + '\n' for n, v in cfg['syms'])
    pre = ''
    if zones or consts or data or syms:
        pre = 'predefined:\n' + zones + consts + data + syms
    return f"""description: verif SYS
general:
  address_size: {cfg['addr_bits']}
  endian: {cfg['endian']}
  origin: {cfg['origin']}
  page_size: {cfg['page']}
  cstr_terminator: {cfg['terminator']}
  allow_embedded_strings: {'true' if cfg['embedded'] else 'false'}
  registers: {'[A, B, SP]' if cfg.get('upper_regs') else '[a, b, sp]'}
  identifier: {{name: verif-sys, version: "1.0.0"}}
{pre}operand_sets:
  reg:
    operand_values:
      ra: {{type: register, register: a, bytecode: {{value: 1, size: 4}}}}
      rb: {{type: register, register: b, bytecode: {{value: 2, size: 4}}}}
  imm8:
    operand_values:
      i8: {{type: numeric, argument: {{size: 8, byte_align: true}}}}
  imm16:
    operand_values:
      i16: {{type: numeric, argument: {{size: 16, byte_align: true}}}}
  imm16be:
    operand_values:
      i16b: {{type: numeric, argument: {{size: 16, byte_align: true, endian: big}}}}
  imm16le:
    operand_values:
      i16l: {{type: numeric, argument: {{size: 16, byte_align: true, endian: little}}}}
  nib:
    operand_values:
      n4: {{type: numeric_bytecode, bytecode: {{size: 4, min: 0, max: 15}}}}
  bit3:
    operand_values:
      n3: {{type: numeric_bytecode, bytecode: {{size: 3, min: 0, max: 7}}}}
  abs12:
    operand_values:
      a12: {{type: numeric, argument: {{size: 12, byte_align: false}}}}
  rel8:
    operand_values:
      r8: {{type: relative_address, argument: {{size: 8, byte_align: true, min: -128, max: 127}}}}
  rel8e:
    operand_values:
      r8e: {{type: relative_address, offset_from_instruction_end: true, argument: {{size: 8, byte_align: true, min: -20, max: 20}}}}
  addr16:
    operand_values:
      ad16: {{type: address, argument: {{size: 16, byte_align: true}}}}
  addr8s:
    operand_values:
      ad8: {{type: address, argument: {{size: 8, byte_align: true, slice_lsb: true, match_address_msb: true}}}}
  addr12s:
    operand_values:
      ad12: {{type: address, argument: {{size: 12, byte_align: false, slice_lsb: true, match_address_msb: true}}}}
  valid16:
    operand_values:
      v16: {{type: numeric, argument: {{size: 16, byte_align: true, valid_address: true}}}}
  sel:
    operand_values:
      en: {{type: numeric_enumeration, argument: {{size: 8, byte_align: true, value_dict: {{1: 17, 2: 34, 5: 85, 12: 204}}}}}}
instructions:
  nop:
    bytecode: {{value: 0, size: 8}}
  hlt:
    bytecode: {{value: 255, size: 8}}
  ldi:
    bytecode: {{value: 1, size: 4}}
    operands: {{count: 2, operand_sets: {{list: [reg, imm8]}}}}
  jmp:
    bytecode: {{value: 32, size: 8}}
    operands: {{count: 1, operand_sets: {{list: [imm16]}}}}
  jbe:
    bytecode: {{value: 33, size: 8}}
    operands: {{count: 1, operand_sets: {{list: [imm16be]}}}}
  jle:
    bytecode: {{value: 34, size: 8}}
    operands: {{count: 1, operand_sets: {{list: [imm16le]}}}}
  jr:
    bytecode: {{value: 48, size: 8}}
    operands: {{count: 1, operand_sets: {{list: [rel8]}}}}
  jre:
    bytecode: {{value: 49, size: 8}}
    operands: {{count: 1, operand_sets: {{list: [rel8e]}}}}
  call:
    bytecode: {{value: 64, size: 8}}
    operands: {{count: 1, operand_sets: {{list: [addr16]}}}}
  jz:
    bytecode: {{value: 96, size: 8}}
    operands: {{count: 1, operand_sets: {{list: [addr8s]}}}}
  jl12:
    bytecode: {{value: 13, size: 4}}
    operands: {{count: 1, operand_sets: {{list: [addr12s]}}}}
  lea:
    bytecode: {{value: 97, size: 8}}
    operands: {{count: 1, operand_sets: {{list: [valid16]}}}}
  setn:
    bytecode: {{value: 10, size: 4}}
    operands: {{count: 1, operand_sets: {{list: [nib]}}}}
  bset:
    bytecode: {{value: 11, size: 5}}
    operands: {{count: 1, operand_sets: {{list: [bit3]}}}}
  lda:
    bytecode: {{value: 12, size: 4}}
    operands: {{count: 1, operand_sets: {{list: [abs12]}}}}
  pick:
    bytecode: {{value: 80, size: 8}}
    operands: {{count: 1, operand_sets: {{list: [sel]}}}}
"""


def ip(val, size, align, endian):
    return f'{{| ip_val := {val}; ip_size := {size}; ip_align := {C.coq_bool(align)}; ip_endian := {endian} |}}'


def instr_parts(cfg, mn, ops):
    """harness-side encoding table of SYS: list of Coq ipart terms (order: opcode, operand codes, arguments)."""
    E = 'Little' if cfg['endian'] == 'little' else 'Big'
    gl = None
    for n, s, e in cfg['zones']:
        if n == 'GLOBAL':
            gl = (s, e)
    if gl is None:
        gl = (0, 2 ** cfg['addr_bits'] - 1)
    gb = f'(Some ({C.zlit(gl[0])}, {C.zlit(gl[1])}))'

    def opc(v, size):
        return ip(f'VNum {v}', size, False, E)
    if mn == 'nop':
        return [opc(0, 8)]
    if mn == 'hlt':
        return [opc(255, 8)]
    if mn == 'ldi':
        code = {'a': 1, 'b': 2}[ops[0]]
        return [opc(1, 4), ip(f'VNum {code}', 4, False, 'Big'), ip(f'VExpr {expr_term(ops[1])}', 8, True, E)]
    if mn == 'jmp':
        return [opc(32, 8), ip(f'VExpr {expr_term(ops[0])}', 16, True, E)]
    if mn == 'jbe':
        return [opc(33, 8), ip(f'VExpr {expr_term(ops[0])}', 16, True, 'Big')]
    if mn == 'jle':
        return [opc(34, 8), ip(f'VExpr {expr_term(ops[0])}', 16, True, 'Little')]
    if mn == 'jr':
        return [opc(48, 8), ip(f'VRel {expr_term(ops[0])} (Some (-128)) (Some 127) false {gb}', 8, True, E)]
    if mn == 'jre':
        return [opc(49, 8), ip(f'VRel {expr_term(ops[0])} (Some (-20)) (Some 20) true {gb}', 8, True, E)]
    if mn == 'call':
        return [opc(64, 8), ip(f'VAddr {expr_term(ops[0])} {gb} false false', 16, True, E)]
    if mn == 'jz':
        return [opc(96, 8), ip(f'VAddr {expr_term(ops[0])} {gb} true true', 8, True, E)]
    if mn == 'jl12':
        return [opc(13, 4), ip(f'VAddr {expr_term(ops[0])} {gb} true true', 12, False, E)]
    if mn == 'lea':
        return [opc(97, 8), ip(f'VZone {expr_term(ops[0])} {gb}', 16, True, E)]
    if mn == 'setn':
        return [opc(10, 4), ip(f'VValid {expr_term(ops[0])} (Some 15) (Some 0)', 4, False, 'Big')]
    if mn == 'bset':
        return [opc(11, 5), ip(f'VValid {expr_term(ops[0])} (Some 7) (Some 0)', 3, False, 'Big')]
    if mn == 'lda':
        return [opc(12, 4), ip(f'VExpr {expr_term(ops[0])}', 12, False, E)]
    if mn == 'pick':
        return [opc(80, 8), ip(f'VEnum {expr_term(ops[0])} [(1, 17); (2, 34); (5, 85); (12, 204)]', 8, True, E)]
    raise ValueError(mn)


INSTR_SIZES = {'jl12': 2, 'nop': 1, 'hlt': 1, 'ldi': 2, 'jmp': 3, 'jbe': 3, 'jle': 3, 'jr': 2, 'jre': 2, 'call': 3, 'jz': 2, 'lea': 3,
               'setn': 1, 'bset': 1, 'lda': 2, 'pick': 2}


def instr_text(mn, ops):
    parts = []
    for o in ops:
        parts.append(o if isinstance(o, str) else expr_text(o))
    return mn + (' ' + ', '.join(parts) if parts else '')


# ------------------------------------------------------------------------------------------------
# rendering statements
# ------------------------------------------------------------------------------------------------
CMP = {'==': 'CEq', '!=': 'CNe', '>': 'CGt', '>=': 'CGe', '<': 'CLt', '<=': 'CLe'}


def cond_text(c):
    if c[0] in ('ifdef', 'ifndef'):
        return f'#{c[0]} {c[1]}'
    if c[0] == 'bare':
        return f'#if {c[1]}'
    return f'#if {c[1]} {c[2]} {c[3]}'


def cond_term(c):
    if c[0] == 'ifdef':
        return f'CIfdef {C.coq_string_codes(c[1])}'
    if c[0] == 'ifndef':
        return f'CIfndef {C.coq_string_codes(c[1])}'
    if c[0] == 'bare':
        return f'CCmp {C.coq_string_codes(c[1])} CNe {C.coq_string_codes("0")}'
    return f'CCmp {C.coq_string_codes(c[1])} {CMP[c[2]]} {C.coq_string_codes(c[3])}'


def str_quote(text, q):
    return q + text + q


def string_bytes_term(cfg, st):
    """a string directive's bytes are computed by the Coq string model (Data.v) from the text as written"""
    _, kind, q, text = st
    if kind == 'embedded':
        return f'embedded_string_bytes {cfg["terminator"] & 0xFF} {C.coq_string_codes(text)}'
    k = 'KByte' if kind == 'byte' else 'KCstr'
    return f'data_string_bytes {k} {cfg["terminator"] & 0xFF} {C.coq_string_codes(text)}'


def stmt_text(st) -> str:
    k = st[0]
    if k == 'label':
        return st[1] + ':'
    if k == 'const':
        return f'{st[1]} = {expr_text(st[2])}'
    if k == 'instr':
        return '    ' + instr_text(st[1], st[2])
    if k == 'data':
        d = {1: '.byte', 2: '.2byte', 4: '.4byte', 8: '.8byte'}[st[1]]
        if len(st) > 3 and st[3].get('as_string') is not None:
            return f'    {d} ' + st[3]['quote'] + st[3]['as_string'] + st[3]['quote']
        return f'    {d} ' + ', '.join(expr_text(e) for e in st[2])
    if k == 'str':
        _, kind, q, text = st
        if kind == 'embedded':
            return '    "' + text + '"'
        return f'    .{kind} ' + str_quote(text, q)
    if k == 'fill':
        return f'    .fill {expr_text(st[1])}, {expr_text(st[2])}'
    if k == 'zero':
        return f'    .zero {expr_text(st[1])}'
    if k == 'zerountil':
        return f'    .zerountil {expr_text(st[1])}'
    if k == 'org':
        return f'.org {expr_text(st[1])}' + (f' "{st[2]}"' if st[2] else '')
    if k == 'memzone':
        return f'.memzone {st[1]}'
    if k == 'align':
        return '.align' + (f' {expr_text(st[1])}' if st[1] is not None else '')
    if k == 'createzone':
        return f'#create_memzone {st[1]} ${st[2]:x} ${st[3]:x}'
    if k == 'if':
        return cond_text(st[1])
    if k == 'elif':
        return cond_text(st[1]).replace('#if ', '#elif ', 1)
    if k in ('else', 'endif', 'mute', 'unmute'):
        return '#' + k
    if k == 'define':
        return f'#define {st[1]} {st[2]}'.rstrip()
    if k == 'include':
        return f'#include "{st[2]}"'
    if k == 'other':
        return '; just a comment'
    if k == 'asm':
        return '    ' + st[1] + (' ' + ', '.join(o[0] for o in st[2]) if st[2] else '')
    if k == 'other_text':
        return '    ' + st[1]
    raise ValueError(k)


def stmt_item_term(cfg, st) -> str:
    k = st[0]
    E = 'Little' if cfg['endian'] == 'little' else 'Big'
    if k == 'label':
        return f'IStmt (SLabel {C.coq_string_codes(st[1])})'
    if k == 'const':
        return f'IStmt (SConst {C.coq_string_codes(st[1])} {expr_term(st[2])})'
    if k == 'instr':
        return 'IStmt (SInstr [' + '; '.join(instr_parts(cfg, st[1], st[2])) + '])'
    if k == 'data':
        return f'IStmt (SData {st[1]}%nat {E} [' + '; '.join(expr_term(e) for e in st[2]) + '])'
    if k == 'str':
        return f'IStmt (match {string_bytes_term(cfg, st)} with Ok bs => SBytes bs | _ => SInstr [] end)'
    if k == 'fill':
        return f'IStmt (SFill {expr_term(st[1])} {expr_term(st[2])})'
    if k == 'zero':
        return f'IStmt (SFill {expr_term(st[1])} (ENum 0))'
    if k == 'zerountil':
        return f'IStmt (SZeroUntil {expr_term(st[1])})'
    if k == 'org':
        z = f'(Some {C.coq_string_codes(st[2])})' if st[2] else 'None'
        return f'IStmt (SOrg {expr_term(st[1])} {z})'
    if k == 'memzone':
        return f'IStmt (SMemzone {C.coq_string_codes(st[1])})'
    if k == 'align':
        return 'IStmt (SAlign ' + (f'(Some {expr_term(st[1])})' if st[1] is not None else 'None') + ')'
    if k == 'createzone':
        return f'ICreateZone {C.coq_string_codes(st[1])} {st[2]} {st[3]}'
    if k == 'if':
        return f'ICond (DOpen ({cond_term(st[1])}))'
    if k == 'elif':
        return f'ICond (DElif ({cond_term(st[1])}))'
    if k == 'else':
        return 'ICond DElse'
    if k == 'endif':
        return 'ICond DEndif'
    if k == 'mute':
        return 'ICond DMute'
    if k == 'unmute':
        return 'ICond DUnmute'
    if k == 'define':
        return f'ICond (DEffect (PDefine {C.coq_string_codes(st[1])} {C.coq_string_codes(st[2])}))'
    if k == 'include':
        return 'IInclude ' + ('None' if st[1] is None else f'(Some {st[1]}%nat)')
    if k == 'other':
        return 'IStmt SOther'
    raise ValueError(k)


def str_list(xs):
    return '[' + '; '.join(C.coq_string_codes(x) for x in xs) + ']'


def config_term(cfg) -> str:
    zones = '[' + '; '.join(f'({C.coq_string_codes(n)}, {C.zlit(s)}, {C.zlit(e)})' for n, s, e in cfg['zones']) + ']'
    consts = '[' + '; '.join(f'({C.coq_string_codes(n)}, {C.zlit(v)})' for n, v in cfg['consts']) + ']'
    data = '[' + '; '.join(f'({C.coq_string_codes(n)}, {C.zlit(a)}, {C.zlit(v)}, {C.zlit(s)})' for n, a, v, s in cfg['data']) + ']'
    syms = '[' + '; '.join(f'({C.coq_string_codes(n)}, {C.coq_string_codes(v or "")})' for n, v in cfg['syms']) + ']'
    cli = '[' + '; '.join(f'({C.coq_string_codes(n)}, {C.coq_string_codes(v)})' for n, v in cfg['cli']) + ']'
    return (f'{{| c_addr_bits := {cfg["addr_bits"]}; c_origin := {C.zlit(cfg["origin"])}; c_page := {C.zlit(cfg["page"])}; '
            f'c_registers := {str_list([r.upper() for r in REGISTERS] if cfg.get("upper_regs") else REGISTERS)}; c_keywords := {str_list(KEYWORDS)}; c_pre_zones := {zones}; '
            f'c_pre_consts := {consts}; c_pre_data := {data}; c_pre_syms := {syms}; c_cli_syms := {cli} |}}')


def case_term(case) -> str:
    cfg = case['cfg']
    files = '[' + ';\n    '.join('[' + '; '.join(stmt_item_term(cfg, st) for st in f['stmts']) + ']' for f in case['files']) + ']'
    o = case['opts']
    end = 'None' if o['end'] is None else f'(Some {C.zlit(o["end"])})'
    return f'({config_term(cfg)},\n    {files},\n    {{| o_start := {C.zlit(o["start"])}; o_end := {end}; o_fill := {C.zlit(o["fill"])} |}})'


# ------------------------------------------------------------------------------------------------
# running the implementation
# ------------------------------------------------------------------------------------------------
def write_case(case, td):
    cfg = case['cfg']
    isa = os.path.join(td, 'isa.yaml')
    with open(isa, 'w') as f:
        f.write(case.get('isa_yaml') or sys_isa_yaml(cfg))
    paths = []
    for i, fl in enumerate(case['files']):
        d = os.path.join(td, fl.get('dir', 'src'))
        os.makedirs(d, exist_ok=True)
        p = os.path.join(d, fl['name'])
        with open(p, 'w') as f:
            if case.get('layout') is not None:
                f.write(render_layout(fl['stmts'], case['layout'], i, case.get('layout_opts')))
            else:
                f.write('\n'.join(stmt_text(st) for st in fl['stmts']) + '\n')
        paths.append(p)
    for extra in case.get('extra_files', []):
        d = os.path.join(td, extra['dir'])
        os.makedirs(d, exist_ok=True)
        with open(os.path.join(d, extra['name']), 'w') as f:
            f.write(extra.get('text', '; dup\n'))
    for ln in case.get('symlinks', []):
        d = os.path.join(td, ln['dir'])
        os.makedirs(d, exist_ok=True)
        os.symlink(os.path.join(td, ln['target']), os.path.join(d, ln['name']))
    incdirs = [os.path.join(td, d) for d in case.get('include_dirs', [])]
    return isa, paths, incdirs


LIST_ROW = re.compile(r'^\s*(\d*)\s*\|\s*([0-9a-fA-F]*)\s*\|((?:\s*[0-9a-f]{2})*)\s*\|')


def parse_listing(text):
    rows = []
    cur = None
    for line in text.splitlines():
        m = LIST_ROW.match(line)
        if not m:
            continue
        num_s, addr_s, bytes_s = m.group(1), m.group(2), m.group(3)
        bs = [int(x, 16) for x in bytes_s.split()]
        if num_s != '':
            cur = None
            if addr_s != '' and bs:
                cur = [int(addr_s, 16), bs]
                rows.append(cur)
        elif cur is not None and bs:
            cur[1].extend(bs)
    rows.sort(key=lambda r: r[0])
    return rows


def impl_assemble(case):
    """runs in a forked child: the real Assembler on the rendered case; returns image + listing rows"""
    from bespokeasm.assembler.engine import Assembler
    td = tempfile.mkdtemp(prefix='vf_sys_')
    try:
        isa, paths, incdirs = write_case(case, td)
        o = case['opts']
        out = os.path.join(td, 'out.bin')
        lst = os.path.join(td, 'out.lst')
        cli = [f'{n}={v}' if v != '' else n for n, v in case['cfg']['cli']]
        asm = Assembler(paths[0], isa, True, out, o['start'], o['end'], o['fill'], True, 'listing', lst, 0, incdirs, cli)
        asm.assemble_bytecode()
        with open(out, 'rb') as f:
            image = list(f.read())
        with open(lst) as f:
            rows = parse_listing(f.read())
        return {'image': image, 'rows': rows}
    finally:
        shutil.rmtree(td, ignore_errors=True)


def obs_term(case, st, val):
    if st != 'ok':
        return 'None'
    rows = '[' + '; '.join(f'({C.zlit(a)}, {C.zlist(b)})' for a, b in val['rows']) + ']'
    return f'(Some ({C.zlist(val["image"])}, {rows}))'


def cli_args(case, isa, paths, incdirs, out, extra=None):
    o = case['opts']
    args = [C.PY, '-m', 'bespokeasm', 'compile', paths[0], '-c', isa, '-o', out]
    if o['start'] != 0 or case.get('explicit_start'):
        args += ['-s', str(o['start'])]
    if o['end'] is not None:
        args += ['-e', str(o['end'])]
    if o['fill'] != 0:
        args += ['-f', str(o['fill'])]
    for d in incdirs:
        args += ['-I', d]
    for n, v in case['cfg']['cli']:
        args += ['-D', f'{n}={v}' if v != '' else n]
    return args + (extra or [])


def impl_cli(case):
    """the real command line (python -m bespokeasm compile ...) as a subprocess; returns the image only"""
    import subprocess
    td = tempfile.mkdtemp(prefix='vf_cli_')
    try:
        isa, paths, incdirs = write_case(case, td)
        out = os.path.join(td, 'out.bin')
        if case.get('preseed_out'):
            with open(out, 'wb') as f:
                f.write(b'\xa5' * case['preseed_out'])          # a stale, longer image from an earlier build
        args, cwd = cli_args(case, isa, paths, incdirs, out), td
        if case.get('cli_relative'):
            # the way a build script calls it: from the source directory, the main file by its bare name, the source
            # directory itself also named with -I, the other include directories relative to it
            if case['cli_relative'] == 'parent':
                # ... or from the project directory: source and include directories relative to it
                args = cli_args(case, isa, [os.path.relpath(paths[0], td)], [os.path.relpath(d, td) for d in incdirs], out)
            else:
                cwd = os.path.dirname(paths[0])
                args = cli_args(case, isa, [os.path.basename(paths[0])], ['.'] + [os.path.relpath(d, cwd) for d in incdirs], out)
        p = subprocess.run(args, capture_output=True, text=True, timeout=60, env=C.impl_env(), cwd=cwd)
        if p.returncode != 0:
            raise SystemExit(f'exit status {p.returncode}: {p.stderr[-200:]}')
        if not os.path.exists(out):
            raise SystemExit('success reported but no image written')
        with open(out, 'rb') as f:
            return {'image': list(f.read()), 'rows': []}
    finally:
        shutil.rmtree(td, ignore_errors=True)


def obs_term_image_only(case, st, val):
    if st != 'ok':
        return 'None'
    return f'(Some ({C.zlist(val["image"])}, ([] : list (Z * list Z))))'


# ------------------------------------------------------------------------------------------------
# surface layout (C18): meaning-preserving decorations applied when a case carries a 'layout' seed
# ------------------------------------------------------------------------------------------------
LAYOUT_DEFAULT = {'case': True, 'ws': True, 'tabs': True, 'comments': True, 'blank': True, 'label_same_line': True, 'compound': True}


def _ws(rng, opts, minimum=1):
    chars = ' \t' if opts.get('tabs') else ' '
    n = rng.choice([minimum, minimum, 1, 2, 3]) if opts.get('ws') else minimum
    n = max(n, minimum)
    return ''.join(rng.choice(chars) for _ in range(n))


def _recase(rng, word):
    k = rng.randint(0, 2)
    return word.upper() if k == 0 else (word.lower() if k == 1 else ''.join(c.upper() if rng.random() < 0.5 else c.lower() for c in word))


def layout_stmt(rng, opts, st):
    """text of one statement under a random layout; None if the statement kind gets no decoration"""
    k = st[0]
    if k == 'include' and opts.get('ws'):
        return '#include' + _ws(rng, opts, 1) + f'"{st[2]}"'
    if k in ('instr', 'asm'):
        mn = st[1]
        ops = []
        for o in st[2]:
            t = o if isinstance(o, str) else (o[0] if isinstance(o, list) else expr_text(o))
            if not isinstance(o, (str, list)) and opts.get('tabs') and ' ' in t and rng.random() < 0.4:
                t = t.replace(' ', rng.choice(['\t', '  ', ' \t']))           # between the tokens of an expression
            if isinstance(o, str) and opts.get('case') and rng.random() < 0.5:
                t = _recase(rng, t)                   # a plain register operand
            ops.append(t)
        if opts.get('case') and rng.random() < 0.6:
            mn = _recase(rng, mn)
        sep = lambda: (_ws(rng, opts, 0) + ',' + _ws(rng, opts, 0)) if opts.get('ws') else ', '
        text = mn
        if ops:
            text += _ws(rng, opts, 1)
            for i, o in enumerate(ops):
                text += (sep() if i else '') + o
        return text
    if k == 'const' and opts.get('ws') and rng.random() < 0.4:
        # the EQU spelling of a constant definition, any horizontal whitespace around the keyword
        eq = rng.choice(['EQU', 'equ', 'Equ']) if opts.get('case') else 'EQU'
        return st[1] + _ws(rng, opts, 1) + eq + _ws(rng, opts, 1) + expr_text(st[2])
    return stmt_text(st).strip()


def render_layout(stmts, seed, file_index, opts=None):
    import random as _random
    rng = _random.Random(f'{seed}/{file_index}')
    opts = dict(LAYOUT_DEFAULT, **(opts or {}))
    lines = []
    i = 0
    n = len(stmts)
    while i < n:
        st = stmts[i]
        k = st[0]
        if opts.get('blank') and rng.random() < 0.15:
            lines.append(rng.choice(['', '   ', '\t']))
        if opts.get('comments') and rng.random() < 0.12:
            lines.append(_ws(rng, opts, 0) + '; ' + rng.choice(['note', 'ldi a, 5', 'x: .byte 1', '#define Q 1', 'comment; again', 'the 3.5" floppy', "it's", '"open', "'c"]))
        text = layout_stmt(rng, opts, st)
        indent = _ws(rng, opts, 0) if opts.get('ws') else ('    ' if k not in ('label', 'org', 'memzone', 'align') and not text.startswith('#') else '')
        # several labels on one line, a label in front of the statement it labels
        while k == 'label' and opts.get('label_same_line') and i + 1 < n and rng.random() < 0.5 \
                and stmts[i + 1][0] in ('label', 'instr', 'asm', 'data', 'fill', 'zero', 'zerountil', 'str', 'org', 'memzone', 'align'):
            nxt = layout_stmt(rng, opts, stmts[i + 1])
            text = text + _ws(rng, opts, 1 if not opts.get('ws') else rng.choice([0, 1, 2])) + nxt
            i += 1
            k = stmts[i][0]
        # a statement behind a zone directive (or an origin that names its zone) on the same line is assembled where the
        # directive says (the expression of an origin without zone name would swallow whatever follows it)
        if opts.get('compound') and k in ('org', 'memzone') and i + 1 < n and rng.random() < 0.3:
            nk = stmts[i + 1][0]
            named = k == 'memzone' or (len(st) > 2 and st[2])
            if named and nk in ('instr', 'asm', 'data', 'fill', 'zero', 'zerountil', 'str'):
                text = text + _ws(rng, opts, 1) + layout_stmt(rng, opts, stmts[i + 1])
                i += 1
                k = stmts[i][0]
        # consecutive instructions on one line
        while opts.get('compound') and k in ('instr', 'asm') and i + 1 < n and stmts[i + 1][0] in ('instr', 'asm') and rng.random() < 0.3:
            text = text + _ws(rng, opts, 1) + layout_stmt(rng, opts, stmts[i + 1])
            i += 1
        if text.startswith('#') and opts.get('ws') and ' ' in text and rng.random() < 0.5:
            # any horizontal whitespace between a directive keyword and what follows it
            kw_, rest_ = text.split(' ', 1)
            text = kw_ + _ws(rng, opts, 1) + rest_
        if text.startswith('#'):
            # directives may be indented like everything else
            indent = _ws(rng, opts, 0) if opts.get('ws') and opts.get('indent_directives', True) and rng.random() < 0.4 else ''
        line = indent + text
        if opts.get('ws') and rng.random() < 0.3:
            line += _ws(rng, opts, 1)
        if opts.get('comments') and rng.random() < 0.25:
            line += _ws(rng, opts, 0) + ';' + rng.choice([' c', 'x', ' nop', ' "q"', '', ' 3.5" disk', " isn't", ' say "hi', " 'x"])
        lines.append(line)
        i += 1
    return '\n'.join(lines) + '\n'

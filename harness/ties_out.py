"""Output-level checks: C16 (formats describe the same memory), C15 (determinism), C14 (terminates, fails closed)."""
import hashlib
import os
import re
import shutil
import subprocess
import tempfile

from . import common as C
from .framework import Tie, Oracle
from . import sysgen
from .sysprog import gen_program
from .ties_sys import PROFILES, nontrivial, classify


# ------------------------------------------------------------------------------------------------ decoders (harness)
def decode_intel_hex(text):
    m = {}
    upper = 0
    for line in text.splitlines():
        line = line.strip()
        if not line:
            continue
        if not line.startswith(':'):
            raise ValueError('bad Intel HEX line: ' + line[:30])
        raw = bytes.fromhex(line[1:])
        n, addr, typ = raw[0], (raw[1] << 8) | raw[2], raw[3]
        data = raw[4:4 + n]
        if (sum(raw) & 0xff) != 0 or len(raw) != n + 5:
            raise ValueError('bad checksum/length: ' + line[:30])
        if typ == 0:
            for i, b in enumerate(data):
                m[upper + addr + i] = b
        elif typ == 1:
            break
        elif typ == 4:
            upper = ((data[0] << 8) | data[1]) << 16
        elif typ == 2:
            upper = ((data[0] << 8) | data[1]) << 4
        elif typ in (3, 5):
            pass
        else:
            raise ValueError('record type %d' % typ)
    return m


def decode_hex_dump(text):
    m = {}
    for line in text.splitlines():
        mt = re.match(r'^([0-9A-Fa-f]+)\s\s((?:(?:[0-9A-Fa-f]{2}|--)\s)+)', line)
        if not mt:
            continue
        base = int(mt.group(1), 16)
        for i, tok in enumerate(mt.group(2).split()):
            if tok != '--':
                m[base + i] = int(tok, 16)
    return m


def decode_minhex(text):
    m = {}
    addr = 0
    for line in text.splitlines():
        line = line.strip()
        if not line:
            continue
        if line.startswith(':'):
            for tok in line[1:].split():
                m[addr] = int(tok, 16)
                addr += 1
        else:
            addr = int(line, 16)
    return m


def decode_listing(text):
    m = {}
    for a, bs in sysgen.parse_listing(text):
        for i, b in enumerate(bs):
            if a + i in m:
                raise ValueError('address listed twice: %x' % (a + i))
            m[a + i] = b
    return m


DECODERS = {'listing': decode_listing, 'hex': decode_hex_dump, 'intel_hex': decode_intel_hex, 'minhex': decode_minhex}
FORMATS = ['listing', 'hex', 'intel_hex', 'minhex']


def _one_format(args):
    case, fmt = args
    from bespokeasm.assembler.engine import Assembler
    td = tempfile.mkdtemp(prefix='vf_fmt_')
    try:
        isa, paths, incdirs = sysgen.write_case(case, td)
        out = os.path.join(td, 'out.bin')
        pp = os.path.join(td, 'out.txt')
        cli = [f'{n}={v}' if v != '' else n for n, v in case['cfg']['cli']]
        o = case['opts']
        asm = Assembler(paths[0], isa, True, out, o['start'], o['end'], o['fill'], True, fmt, pp, 0, incdirs, cli)
        asm.assemble_bytecode()
        with open(pp) as f:
            text = f.read()
        with open(out, 'rb') as f:
            image = list(f.read())
        return {'map': sorted(DECODERS[fmt](text).items()), 'image': image}
    finally:
        shutil.rmtree(td, ignore_errors=True)


def impl_formats(case):
    res = {}
    for fmt in FORMATS:
        st, val = C.run_forked(_one_format, (case, fmt), 60)
        if st != 'ok':
            raise SystemExit(f'{fmt}: {st}: {str(val)[:200]}')
        res[fmt] = [list(x) for x in val['map']]
        # the binary image written by the same run: it must not depend on which format was printed beside it
        if 'image' in res and res['image'] != val['image']:
            raise SystemExit(f'binary image written with -t {fmt} differs from the one written with -t {FORMATS[0]}')
        res['image'] = val['image']
    return res


def formats_obs_term(case, st, val):
    if st != 'ok':
        return 'None'
    maps = '[' + '; '.join('[' + '; '.join(f'({a}, {b})' for a, b in val[fmt]) + ']' for fmt in FORMATS) + ']'
    return f'(Some ({C.zlist(val["image"])}, {maps}))'


def formats_tie(n_quick=150, n_thorough=2500):
    prof = dict(PROFILES['C03'], p_window=0.0, p_include=0.6, p_org_before_include=0.6, p_bigfill=0.25)
    prof['w'] = dict(prof['w'], fill=8, mute=6, align=4, org=5, memzone=4)

    def gen(rng, tier):
        out = []
        for _ in range(n_quick if tier == 'quick' else n_thorough):
            c = gen_program(rng, prof, tier)
            # the formats describe all of memory, the image the window the options ask for: a fill value other than 0 (an
            # assembled zero byte is not a gap), now and then an explicit end a few bytes into the program (often the first byte
            # of a line)
            c['opts'] = {'start': 0, 'end': None, 'fill': rng.choice([0, 0, 0xEE, 0xFF])}
            if rng.random() < 0.3:
                c['opts']['end'] = c['cfg']['origin'] + rng.randint(0, 12)
            if rng.random() < 0.25:
                c['opts']['start'] = c['cfg']['origin'] + rng.randint(1, 9)         # often inside a multi-byte line
                if c['opts']['end'] is not None and c['opts']['end'] < c['opts']['start']:
                    c['opts']['end'] = c['opts']['start'] + 5
            out.append(c)
        return out
    return Tie(name='formats', imports=['Base', 'Program', 'Formats'], run_def='run_formats', eqb='obs_formats_eqb',
               gen=gen, impl=impl_formats, case_term=sysgen.case_term, obs_term=formats_obs_term, nontrivial=nontrivial,
               classify=classify, shard=50, timeout=300)


def formats_scenario_tie(name, fn, n_quick, n_thorough):
    from .scenarios import scenario_gen
    return Tie(name=name, imports=['Base', 'Program', 'Formats'], run_def='run_formats', eqb='obs_formats_eqb',
               gen=scenario_gen(fn, n_quick, n_thorough), impl=impl_formats, case_term=sysgen.case_term, obs_term=formats_obs_term,
               nontrivial=lambda c: True, classify=lambda c: c.get('fault') or 'scenario', shard=50, timeout=300)


# ------------------------------------------------------------------------------------------------ C15 determinism
def _digest_outputs(td, names):
    h = {}
    for n in names:
        p = os.path.join(td, n)
        h[n] = hashlib.sha256(open(p, 'rb').read()).hexdigest() if os.path.exists(p) else None
    return h


def run_cli_variant(case, hashseed, cwd_kind, env_extra, incdir_order, fmt):
    td = tempfile.mkdtemp(prefix='vf_det_')
    try:
        isa, paths, incdirs = sysgen.write_case(case, td)
        if incdir_order == 'rev':
            incdirs = list(reversed(incdirs))
        elif incdir_order == 'dup':
            incdirs = incdirs + incdirs
        out = os.path.join(td, 'out.bin')
        pp = os.path.join(td, 'out.txt')
        args = sysgen.cli_args(case, isa, paths, incdirs, out, ['-p', '-t', fmt, '--pretty-print-output', pp])
        env = C.impl_env({'PYTHONHASHSEED': str(hashseed)})
        env.update(env_extra)
        cwd = td if cwd_kind == 'td' else os.path.join(td, 'src')
        p = subprocess.run(args, capture_output=True, text=True, timeout=120, env=env, cwd=cwd)
        d = _digest_outputs(td, ['out.bin', 'out.txt'])
        # the listing prints absolute file names: normalise the temp dir away
        if os.path.exists(pp):
            d['out.txt'] = hashlib.sha256(open(pp).read().replace(td, '<T>').encode()).hexdigest()
        return {'rc': p.returncode, 'files': d}
    finally:
        shutil.rmtree(td, ignore_errors=True)


def _determinism_check(case):
    import random
    rng = random.Random(case['det_seed'])
    n = case.get('det_runs', 4)
    fmt = case.get('det_fmt') or rng.choice(FORMATS)
    ref = None
    for k in range(n):
        seed = 0 if k == 0 else rng.randrange(1, 2 ** 32 - 1)
        env_extra = {}
        if k % 2 == 1:
            env_extra = {'ZZ_VERIF_NOISE': 'x' * rng.randint(1, 30), 'LC_NUMERIC': 'C', 'TERM': 'dumb', 'COLUMNS': str(rng.randint(20, 200))}
        if case.get('det_env'):
            env_extra = dict(env_extra, **case['det_env'][k % len(case['det_env'])])
        r = run_cli_variant(case, seed, 'td' if k % 2 == 0 else 'src', env_extra, ['asis', 'rev', 'dup'][k % 3], fmt)
        if ref is None:
            ref = r
            if case.get('expect_ok') and r['rc'] != 0:
                return f'a case that is meant to assemble was rejected (exit status {r["rc"]}): the case does not test what it is meant to'
        elif r != ref:
            return f'run {k} (hash seed {seed}, format {fmt}) differs from run 0: {r} vs {ref}'
    return None


def determinism_oracle(n_quick=40, n_thorough=600, runs_quick=4, runs_thorough=12):
    prof = dict(PROFILES['general'], p_include=0.6)

    def gen(rng, tier):
        out = []
        for _ in range(n_quick if tier == 'quick' else n_thorough):
            c = gen_program(rng, prof, tier)
            c['det_seed'] = rng.randrange(1 << 30)
            c['det_runs'] = runs_quick if tier == 'quick' else runs_thorough
            out.append(c)
        return out
    return Oracle(name='determinism', gen=gen, check=_determinism_check, nontrivial=nontrivial, classify=classify, timeout=600)


def _isa_determinism_check(case):
    return _determinism_check(case)


DOTTED_ISA = '''
description: verif dotted enumeration keys
general:
  address_size: 16
  endian: big
  registers: [a, b]
  identifier: {name: verif-dot, version: "1.0.0"}
operand_sets:
  ports:
    operand_values:
      port:
        type: enumeration
        bytecode: {size: 4, value_dict: {KEYS_BC}}
        argument: {size: 8, byte_align: true, value_dict: {KEYS_ARG}}
  regs:
    operand_values:
      ra: {type: register, register: a, bytecode: {value: 1, size: 4}}
      rb: {type: register, register: b, bytecode: {value: 2, size: 4}}
instructions:
  out:
    bytecode: {value: 14, size: 4}
    operands: {count: 1, operand_sets: {list: [ports]}}
  mov:
    bytecode: {value: 3, size: 4}
    operands: {count: 2, operand_sets: {list: [regs, regs]}}
'''


def dotted_cases(rng, n):
    out = []
    for _ in range(n):
        base = rng.choice(['uart', 'pio', 'tmr'])
        keys = [base + '.tx', base + '.rx', base, base + '.tx.hi']
        rng.shuffle(keys)
        bc = ', '.join(f'"{k}": {i}' for i, k in enumerate(keys))
        ar = ', '.join(f'"{k}": {0x40 + i}' for i, k in enumerate(keys))
        stmts = [['other_text', f'out {rng.choice(keys)}'] for _ in range(rng.randint(1, 4))] + [['other_text', 'mov a, b']]
        out.append({'cfg': {'addr_bits': 16, 'cli': []}, 'isa_yaml': DOTTED_ISA.replace('KEYS_BC', bc).replace('KEYS_ARG', ar),
                    'files': [{'name': 'main.asm', 'dir': 'src', 'stmts': stmts}], 'include_dirs': [], 'extra_files': [],
                    'opts': {'start': 0, 'end': None, 'fill': 0}, 'det_seed': rng.randrange(1 << 30), 'det_runs': 8, 'isa': {'macros': {}}})
    return out


MNEMONIC_ISA = '''
description: verif mnemonic families
general:
  address_size: 16
  endian: big
  registers: [a]
  identifier: {name: verif-mn, version: "1.0.0"}
operand_sets:
  imm:
    operand_values:
      n: {type: numeric, argument: {size: 8, byte_align: true}}
instructions:
INSTRS
'''


def mnemonic_family_cases(rng, n):
    """mnemonics that are prefixes, dotted extensions and dotted suffixes of one another, in any order in the ISA file:
    which one a statement names must not depend on the order in which a set happens to be iterated"""
    out = []
    for _ in range(n):
        stem = rng.choice(['ld', 'st', 'mv'])
        suf = rng.choice(['b', 'w', 'x'])
        names = [stem, f'{stem}.{suf}', suf, stem + suf, f'{stem}.{suf}{suf}', stem + 'i']
        names = rng.sample(names, rng.randint(3, len(names)))
        if f'{stem}.{suf}' not in names:
            names.append(f'{stem}.{suf}')
        rng.shuffle(names)
        instrs = '\n'.join(f'  "{m}":\n    bytecode: {{value: {i + 1}, size: 8}}\n    operands: {{count: 1, operand_sets: {{list: [imm]}}}}'
                           for i, m in enumerate(names))
        stmts = [['other_text', f'{rng.choice(names)} ${rng.randrange(256):02x}'] for _ in range(rng.randint(2, 5))]
        stmts.append(['other_text', f'{stem}.{suf} $56'])
        out.append({'cfg': {'addr_bits': 16, 'cli': []}, 'isa_yaml': MNEMONIC_ISA.replace('INSTRS', instrs),
                    'files': [{'name': 'main.asm', 'dir': 'src', 'stmts': stmts}], 'include_dirs': [], 'extra_files': [],
                    'opts': {'start': 0, 'end': None, 'fill': 0}, 'det_seed': rng.randrange(1 << 30), 'det_runs': 8, 'isa': {'macros': {}}})
    return out


def symlink_include_cases(rng, n):
    """one file reachable through two include directories (a symbolic link): whatever the assembler makes of it, it must make
    the same of it on every run"""
    from .sysgen import num
    out = []
    for _ in range(n):
        dirs = rng.sample(['lib_core', 'lib_vendor', 'inc', 'zlib', 'a_inc'], 2)
        common = [['data', 1, [num(rng.randrange(256))]], ['data', 1, [num(7)]]]
        main = [['data', 1, [num(1)]], ['include', 1, 'common.asm'], ['data', 1, [num(2)]]]
        c = {'cfg': dict(addr_bits=16, endian='big', origin=0, page=1, terminator=0, embedded=False, zones=[], consts=[], data=[],
                         syms=[], cli=[]),
             'files': [{'name': 'main.asm', 'dir': 'src', 'stmts': main}, {'name': 'common.asm', 'dir': dirs[0], 'stmts': common}],
             'symlinks': [{'dir': dirs[1], 'name': 'common.asm', 'target': f'{dirs[0]}/common.asm'}],
             'include_dirs': list(dirs), 'extra_files': [], 'opts': {'start': 0, 'end': None, 'fill': 0},
             'det_seed': rng.randrange(1 << 30), 'det_runs': 10, 'det_fmt': 'listing', 'isa': {'macros': {}}}
        out.append(c)
    return out


def multi_dir_cases(rng, n):
    """files included from several different directories (the listing groups lines by file), and an include directory that
    is supplied twice, once through a symbolic link: same outputs for every hash seed and every order of the -I options"""
    from .sysgen import num
    out = []
    for k in range(n):
        dirs = rng.sample(['lib_core', 'lib_vendor', 'inc', 'zlib', 'a_inc', 'drivers'], 3)
        base = dict(addr_bits=16, endian='big', origin=0, page=1, terminator=0, embedded=False, zones=[], consts=[], data=[], syms=[], cli=[])
        files = [{'name': 'main.asm', 'dir': 'src', 'stmts': [['data', 1, [num(1)]], ['include', 1, 'near.asm'], ['include', 2, 'f2.asm'],
                                                                 ['include', 3, 'f3.asm'], ['include', 4, 'f4.asm'], ['data', 1, [num(2)]]]},
                 {'name': 'near.asm', 'dir': 'src', 'stmts': [['data', 1, [num(0x10)]]]}]
        for j, d in enumerate(dirs):
            files.append({'name': f'f{j + 2}.asm', 'dir': d, 'stmts': [['data', 1, [num(0x20 + j)]], ['instr', 'nop', []]]})
        c = {'cfg': base, 'files': files, 'include_dirs': list(dirs), 'extra_files': [], 'opts': {'start': 0, 'end': None, 'fill': 0},
             'det_seed': rng.randrange(1 << 30), 'det_runs': 10, 'det_fmt': 'listing', 'isa': {'macros': {}}}
        if k % 2 == 1:
            # the first library directory is also reachable as <it>_cur (a symbolic link), and both spellings are passed
            c['symlinks'] = [{'dir': '.', 'name': dirs[0] + '_cur', 'target': dirs[0]}]
            c['include_dirs'] = [dirs[0], dirs[0] + '_cur'] + dirs[1:]
        out.append(c)
    return out


def ambiguous_name_cases(rng, n):
    """an include name that exists in two of the searched directories, one of them the main file's own directory which is also
    passed with -I: whatever the assembler makes of it (it rejects it), it must not depend on the order of the -I options"""
    from .sysgen import num
    out = []
    for k in range(n):
        lib = rng.choice(['lib_core', 'vendor', 'a_inc', 'zlib'])
        base = dict(addr_bits=16, endian='big', origin=0, page=1, terminator=0, embedded=False, zones=[], consts=[], data=[], syms=[], cli=[])
        files = [{'name': 'main.asm', 'dir': 'src', 'stmts': [['data', 1, [num(1)]], ['include', 1, 'board.asm'], ['data', 1, [num(2)]]]},
                 {'name': 'board.asm', 'dir': 'src', 'stmts': [['data', 1, [num(0x10 + k)]]]}]
        dirs = [['src', lib], [lib, 'src'], [lib], ['src', lib, 'src']][k % 4]
        c = {'cfg': base, 'files': files, 'include_dirs': dirs,
             'extra_files': [{'dir': lib, 'name': 'board.asm', 'text': f'    .byte {0x80 + k}, {0x81 + k}\n'}],
             'opts': {'start': 0, 'end': None, 'fill': 0}, 'det_seed': rng.randrange(1 << 30), 'det_runs': 6, 'isa': {'macros': {}}}
        out.append(c)
    return out


def redefined_symbol_cases(rng, n):
    """a preprocessor symbol defined twice, with different values, through two of the three routes (instruction set file, -D,
    #define) and used in emitted code: the outcome (a rejection) is the same under every hash seed"""
    out = []
    for k in range(n):
        routes = [['isa', 'cli'], ['isa', 'define'], ['cli', 'define'], ['define', 'define']][k % 4]
        name = rng.choice(['IO_BASE', 'PORT_A', 'LIMIT'])
        vals = rng.sample(['16', '32', '64', '128', '7', '200'], 2)
        cfg = dict(addr_bits=16, endian='big', origin=0, page=1, terminator=0, embedded=False, zones=[], consts=[], data=[], syms=[], cli=[])
        stmts = [['data', 1, [('num', '1')]]]
        for r, v in zip(routes, vals):
            if r == 'isa':
                cfg['syms'].append([name, v])
            elif r == 'cli':
                cfg['cli'].append([name, v])
            else:
                stmts.append(['define', name, v])
        stmts += [['other_text', f'.byte {name}, {name}+1'], ['other_text', f'ldi a, {name}']]
        out.append({'cfg': cfg, 'files': [{'name': 'main.asm', 'dir': 'src', 'stmts': stmts}], 'include_dirs': [], 'extra_files': [],
                    'opts': {'start': 0, 'end': None, 'fill': 0}, 'det_seed': rng.randrange(1 << 30), 'det_runs': 8, 'isa': {'macros': {}}})
    return out


ORDER_ISA = '''
description: verif operand order
general:
  address_size: 16
  endian: big
  registers: [a, sp]
  identifier: {name: verif-order, version: "1.0.0"}
operand_sets:
  vals:
    operand_values:
      ID1: {type: numeric, bytecode: {value: 1, size: 4}, argument: {size: 8, byte_align: true}}
      ID2: {type: numeric, bytecode: {value: 2, size: 4}, argument: {size: 16, byte_align: true}}
      ID3: {type: numeric, bytecode: {value: 3, size: 4}, argument: {size: 8, byte_align: true}}
  ptrs:
    operand_values:
      ID4: {type: indirect_register, register: sp, bytecode: {value: 4, size: 4}, offset: {max: 127, min: -128, size: 8, byte_align: true}}
      ID5: {type: indirect_register, register: sp, bytecode: {value: 5, size: 4}}
instructions:
  ldv:
    bytecode: {value: 10, size: 4}
    operands: {count: 1, operand_sets: {list: [vals]}}
  ldp:
    bytecode: {value: 11, size: 4}
    operands: {count: 1, operand_sets: {list: [ptrs]}}
'''


def operand_order_cases(rng, n):
    """several operands of the same type in one operand set that accept the same text: which one is used is decided by their
    order in the instruction set file, under every hash seed (operand names of many shapes, so that their hashes scatter)"""
    out = []
    for _ in range(n):
        ids = rng.sample(['imm8', 'imm16', 'byte_value', 'word', 'n', 'k', 'value_a', 'value_b', 'short', 'long', 'sp_off', 'sp_plain', 'x1', 'x2',
                          'first', 'second', 'zz', 'a1'], 5)
        y = ORDER_ISA
        for i, nm in enumerate(ids):
            y = y.replace(f'ID{i + 1}:', nm + ':')
        stmts = [['other_text', 'ldv 5'], ['other_text', 'ldp [sp]'], ['other_text', 'ldv 200'], ['other_text', 'ldp [sp+2]']]
        stmts = stmts[:rng.randint(2, 4)]
        out.append({'cfg': {'addr_bits': 16, 'cli': []}, 'isa_yaml': y, 'files': [{'name': 'main.asm', 'dir': 'src', 'stmts': stmts}],
                    'include_dirs': [], 'extra_files': [], 'opts': {'start': 0, 'end': None, 'fill': 0},
                    'det_seed': rng.randrange(1 << 30), 'det_runs': 8, 'isa': {'macros': {}}, 'expect_ok': True})
    return out


def working_directory_cases(rng, n):
    """no -I at all, an include that sits next to the main file, and a file of the same name in one of the directories the
    assembler is started from: the working directory is not a place where included files are looked for"""
    from .sysgen import num
    out = []
    for k in range(n):
        base = dict(addr_bits=16, endian='big', origin=0, page=1, terminator=0, embedded=False, zones=[], consts=[], data=[], syms=[], cli=[])
        files = [{'name': 'main.asm', 'dir': 'src', 'stmts': [['data', 1, [num(1)]], ['include', 1, 'defs.asm'], ['data', 1, [num(2)]]]},
                 {'name': 'defs.asm', 'dir': 'src', 'stmts': [['data', 1, [num(0x30 + k)]]]}]
        c = {'cfg': base, 'files': files, 'include_dirs': [],
             'extra_files': [{'dir': '.', 'name': 'defs.asm', 'text': f'    .byte {0x90 + k}\n'}],
             'opts': {'start': 0, 'end': None, 'fill': 0}, 'det_seed': rng.randrange(1 << 30), 'det_runs': 4, 'isa': {'macros': {}}}
        if k % 2 == 1:
            # the include is found nowhere the assembler may look; the working directory has a file of that name
            c['files'] = [files[0]]
        out.append(c)
    return out


EMPTY_ORDER_ISA = '''
description: verif implied operands
general:
  address_size: 16
  endian: big
  registers: [a]
  identifier: {name: verif-implied, version: "1.0.0"}
operand_sets:
  unused:
    operand_values:
      n: {type: numeric, argument: {size: 8, byte_align: true}}
instructions:
  inp:
    bytecode: {value: 13, size: 4}
    operands:
      count: 2
      specific_operands:
        NAME1:
          list:
            acc: {type: empty, bytecode: {value: 0, size: 4}}
            port: {type: enumeration, bytecode: {size: 4, value_dict: {timer: 2, uart: 3}}, argument: {size: 8, byte_align: true, value_dict: {timer: 32, uart: 33}}}
        NAME2:
          list:
            acc: {type: empty, bytecode: {value: 4, size: 4}}
            num: {type: numeric, argument: {size: 8, byte_align: true}}
        NAME3:
          list:
            acc: {type: empty, bytecode: {value: 8, size: 4}}
            adr: {type: address, argument: {size: 16, byte_align: true}}
  nop:
    bytecode: {value: 0, size: 8}
'''


def implied_operand_order_cases(rng, n):
    """several listed operand combinations that contain an implied (`empty`) operand and accept the same text: the one listed
    first in the instruction set file is used, under every hash seed (combination names of many shapes)"""
    out = []
    for _ in range(n):
        names = rng.sample(['acc_port', 'acc_imm', 'acc_addr', 'a', 'zz', 'port_form', 'n1', 'by_number', 'x_long_name_here', 'k', 'imm8', 'q7'], 3)
        y = EMPTY_ORDER_ISA
        for i, nm in enumerate(names):
            y = y.replace(f'NAME{i + 1}:', nm + ':')
        stmts = [['other_text', 'timer = 7'], ['other_text', 'inp timer'], ['other_text', 'nop'], ['other_text', 'inp 9']]
        out.append({'cfg': {'addr_bits': 16, 'cli': []}, 'isa_yaml': y, 'files': [{'name': 'main.asm', 'dir': 'src', 'stmts': stmts}],
                    'include_dirs': [], 'extra_files': [], 'opts': {'start': 0, 'end': None, 'fill': 0},
                    'det_seed': rng.randrange(1 << 30), 'det_runs': 8, 'isa': {'macros': {}}, 'expect_ok': True})
    return out


def interpreter_option_cases(rng, n):
    """a value that does not fit a field which is not a whole number of bytes wide: rejected whatever options the interpreter
    itself is run with (python -O / PYTHONOPTIMIZE strips assert statements)"""
    from .sysgen import num
    out = []
    for k in range(n):
        base = dict(addr_bits=16, endian='big', origin=0, page=1, terminator=0, embedded=False, zones=[], consts=[], data=[], syms=[], cli=[])
        bad = [['instr', 'lda', [num(rng.choice([0x1000, 0x1234, -2049]))]], ['instr', 'bset', [num(rng.choice([8, 9, -1]))]]][k % 2]
        stmts = [['data', 1, [num(1)]], ['instr', 'lda', [num(0x123)]], bad, ['data', 1, [num(2)]]]
        out.append({'cfg': base, 'files': [{'name': 'main.asm', 'dir': 'src', 'stmts': stmts}], 'include_dirs': [], 'extra_files': [],
                    'opts': {'start': 0, 'end': None, 'fill': 0}, 'det_seed': rng.randrange(1 << 30), 'det_runs': 4, 'isa': {'macros': {}},
                    'det_env': [{}, {'PYTHONOPTIMIZE': '1'}, {'PYTHONOPTIMIZE': '2'}, {'PYTHONDONTWRITEBYTECODE': '1'}]})
    return out


def zone_order_cases(rng, n):
    """several memory zones, and layout directives in one zone computed from address labels of another: whatever order the
    assembler lays the zones out in, it is the same in every run"""
    from .sysgen import num
    out = []
    for k in range(n):
        names = rng.sample(['ram', 'rom', 'vec', 'io', 'stack', 'zz_a', 'b2', 'hi_mem'], 3)
        zones = [[nm, 0x200 + 0x100 * i, 0x2ff + 0x100 * i] for i, nm in enumerate(names)]
        base = dict(addr_bits=16, endian='big', origin=0, page=1, terminator=0, embedded=False, zones=zones, consts=[], data=[], syms=[], cli=[])
        lab = lambda x: ('lab', x)
        st = [['label', 'start'], ['data', 1, [num(1), num(2), num(3)]], ['label', 'code_end'],
              ['memzone', names[0]], ['fill', ('bin', '-', lab('code_end'), lab('start')), num(0xEE)], ['label', 'z0_end'],
              ['memzone', names[1]], ['zerountil', ('bin', '+', lab('z0_end'), num(0x105))], ['label', 'z1_end'],
              ['memzone', names[2]], ['fill', ('bin', '-', lab('z1_end'), num(0x305)), num(7)],
              ['memzone', 'GLOBAL'], ['data', 2, [lab('z0_end'), lab('z1_end')]]]
        out.append({'cfg': base, 'files': [{'name': 'main.asm', 'dir': 'src', 'stmts': st}], 'include_dirs': [], 'extra_files': [],
                    'opts': {'start': 0, 'end': None, 'fill': 0}, 'det_seed': rng.randrange(1 << 30), 'det_runs': 8, 'isa': {'macros': {}},
                    'expect_ok': True})
    return out


def isa_determinism_oracle(n_quick=25, n_thorough=400):
    def gen(rng, tier):
        from . import sysisa
        out = []
        for _ in range(n_quick if tier == 'quick' else n_thorough):
            c = sysisa.gen_isa_case(rng, {'p_macros': 0.3}, tier)
            c['det_seed'] = rng.randrange(1 << 30)
            c['det_runs'] = 4 if tier == 'quick' else 10
            out.append(c)
        q = tier == 'quick'
        return (out + dotted_cases(rng, 12 if q else 150) + mnemonic_family_cases(rng, 12 if q else 150)
                + symlink_include_cases(rng, 4 if q else 40) + multi_dir_cases(rng, 6 if q else 60)
                + ambiguous_name_cases(rng, 8 if q else 60) + redefined_symbol_cases(rng, 8 if q else 80)
                + operand_order_cases(rng, 10 if q else 100) + working_directory_cases(rng, 4 if q else 30)
                + implied_operand_order_cases(rng, 8 if q else 80) + interpreter_option_cases(rng, 4 if q else 20)
                + zone_order_cases(rng, 8 if q else 60))
    return Oracle(name='determinism_isa', gen=gen, check=_isa_determinism_check, nontrivial=lambda c: True,
                  classify=lambda c: 'isa', timeout=600)


# ------------------------------------------------------------------------------------------------ C14 fail closed
SENTINEL = b'SENTINEL-do-not-touch'


def _failclosed_check(case):
    """the real command line with a pre-seeded output file and a wall-clock limit"""
    td = tempfile.mkdtemp(prefix='vf_fc_')
    try:
        isa, paths, incdirs = sysgen.write_case(case, td)
        if case.get('garble') is not None:
            import random
            rng = random.Random(case['garble'])
            txt = open(paths[0]).read()
            for _ in range(rng.randint(1, 3)):
                k = rng.randint(0, 4)
                lines = txt.split('\n')
                i = rng.randrange(max(1, len(lines)))
                if k == 0 and lines:
                    del lines[i]
                elif k == 1 and lines:
                    lines.insert(i, lines[i])
                elif k == 2 and lines and lines[i]:
                    j = rng.randrange(len(lines[i]))
                    lines[i] = lines[i][:j] + rng.choice('~!@#?=;:,"\'[]{}<>()') + lines[i][j + 1:]
                elif k == 3 and lines and lines[i]:
                    toks = lines[i].split()
                    if toks:
                        del toks[rng.randrange(len(toks))]
                    lines[i] = ' '.join(toks)
                else:
                    lines.insert(i, rng.choice(['.fill 0, 0', '.zero 0', '.zerountil 0', '.byte', 'bogus 1, 2', '.org', '#if', '#endif',
                                                '.cstr "', 'x y z', '.align 0', '.fill 1']))
                txt = '\n'.join(lines)
            open(paths[0], 'w').write(txt)
        out = os.path.join(td, 'out.bin')
        pre = case.get('preseed', True)
        if pre:
            open(out, 'wb').write(SENTINEL)
        extra = []
        if case.get('pp'):
            extra = ['-p', '-t', case['pp'], '--pretty-print-output', os.path.join(td, case.get('pp_out', 'out.txt'))]
        args = sysgen.cli_args(case, isa, paths, incdirs, out, extra)
        try:
            p = subprocess.run(args, capture_output=True, text=True, timeout=case.get('limit', 45), env=C.impl_env(), cwd=td)
        except subprocess.TimeoutExpired:
            return 'assembly did not terminate within the time limit'
        exists = os.path.exists(out)
        content = open(out, 'rb').read() if exists else None
        if p.returncode != 0:
            if pre and content != SENTINEL:
                return f'assembly failed (exit {p.returncode}) but the image file was altered'
            if not pre and exists:
                return f'assembly failed (exit {p.returncode}) but an image file was created'
        else:
            if not exists or (pre and content == SENTINEL):
                return 'success reported but no image was written'
            if case.get('must_fail'):
                return f'success reported for a program that must be rejected ({case["must_fail"]})'
        return None
    finally:
        shutil.rmtree(td, ignore_errors=True)


def failclosed_oracle(n_quick=120, n_thorough=2500):
    prof = dict(PROFILES['general'], p_fault=0.0)

    def gen(rng, tier):
        out = []
        for _ in range(n_quick if tier == 'quick' else n_thorough):
            c = gen_program(rng, prof, tier)
            r = rng.random()
            main = c['files'][0]['stmts']
            if r < 0.25:
                # one of the four things for which success must never be reported
                from .sysgen import num
                kind = rng.choice(['unresolvable label', 'unknown instruction', 'no variant accepts', 'value does not fit'])
                lab = ('lab', rng.choice(['nowhere_defined', '.nolocal', '_nofile']))
                st = {'unresolvable label': rng.choice([
                          ['data', 2, [lab]], ['data', 1, [num(1), lab]], ['fill', num(0), lab], ['fill', num(2), lab],
                          ['fill', lab, num(0)], ['zero', lab], ['zerountil', lab], ['instr', 'jmp', [lab]],
                          ['instr', 'ldi', ['a', ('bin', '-', lab, lab)]], ['org', lab, None], ['align', lab],
                          ['const', 'KUNRES', lab]]),
                      'unknown instruction': rng.choice([['other_text', 'frobnicate a, 5'], ['other_text', 'ldii a, 5'], ['other_text', 'nopp'],
                                                         ['other_text', '.bite 1']]),
                      'no variant accepts': rng.choice([['instr', 'ldi', ['a', 'b']], ['instr', 'nop', [num(1)]], ['instr', 'ldi', ['a']],
                                                        ['instr', 'ldi', ['a', num(1), num(2)]], ['instr', 'jmp', ['a']]]),
                      'value does not fit': rng.choice([['instr', 'ldi', ['a', num(rng.choice([256, 1000, -129]))]],
                                                        ['instr', 'jmp', [num(rng.choice([65536, -32769]))]],
                                                        ['instr', 'lda', [num(rng.choice([0x1000, -2049]))]]])}[kind]
                depth = 0
                tops = [0]
                for i, s in enumerate(main):
                    depth += 1 if s[0] == 'if' else (-1 if s[0] == 'endif' else 0)
                    if depth == 0:
                        tops.append(i + 1)
                main.insert(rng.choice(tops), st)
                c['must_fail'] = kind
            elif r < 0.7:
                c['garble'] = rng.randrange(1 << 30)
            c['preseed'] = rng.random() < 0.7
            if rng.random() < 0.4:
                c['pp'] = rng.choice(['listing', 'hex', 'intel_hex', 'minhex'])
                if rng.random() < 0.15:
                    c['pp_out'] = 'no_such_dir/out.txt'      # the pretty print cannot be written
            out.append(c)
        return out
    def corpus():
        # every must-fail form, as the first, a middle and the last statement of a fixed valid program
        import random
        from .sysgen import num
        out = []
        forms = []
        for lab in (('lab', 'nowhere_defined'), ('lab', '.nolocal')):
            forms += [('unresolvable label', st) for st in (
                ['data', 2, [lab]], ['data', 1, [num(1), lab]], ['fill', num(0), lab], ['fill', num(2), lab], ['fill', lab, num(0)],
                ['zero', lab], ['zerountil', lab], ['instr', 'jmp', [lab]], ['instr', 'ldi', ['a', ('bin', '-', lab, lab)]],
                ['org', lab, None], ['align', lab], ['const', 'KUNRES', lab])]
        forms += [('unknown instruction', ['other_text', t]) for t in ('frobnicate a, 5', 'ldii a, 5', 'nopp', '.bite 1')]
        # something that merely starts like a directive; text that is no statement behind a directive or a constant definition
        forms += [('unknown instruction', ['other_text', t]) for t in ('.alignfoo !!! garbage', '.align4', 'KFC1 = 5 , ldi a, 300',
                                                                       'KFC2 = 5 ! garbage', '.memzone GLOBAL junk')]
        forms += [('no variant accepts', st) for st in (['instr', 'ldi', ['a', 'b']], ['instr', 'nop', [num(1)]], ['instr', 'ldi', ['a']],
                                                        ['instr', 'ldi', ['a', num(1), num(2)]], ['instr', 'jmp', ['a']])]
        # text left over behind a well-formed operand, made of characters that belong to no token of the expression language
        forms += [('unrecognised text after an operand', ['other_text', t]) for t in (
            'ldi a, 5!', 'ldi a, 5 @', 'ldi a, 7 ~', 'jmp $0100?', 'ldi a, (1+2)*2`', 'lda 3 \\', 'ldi a, 5 !', 'jmp 5#')]
        forms += [('unknown instruction', ['other_text', t]) for t in ('jmp($0100)', 'lda$10', "lda'a'", 'jmp-5')]
        # a vertical tab is white space, not a way to make a line disappear
        forms += [('unknown instruction', ['other_text', t]) for t in ('bogus\x0bstuff', 'jmp\x0bnowhere_at_all')]
        # a language requirement that cannot be read cannot be known to be met
        forms += [('malformed requirement', ['other_text', t]) for t in ('#require "other-lang >= 9.9', '#require "my lang"', '#require "verif ~= 1.0"',
                                                                         "#require 'verif'")]
        # two strings in one data directive are not one string that contains quotes and a comma
        forms += [('malformed data operands', ['other_text', t]) for t in ('.byte "a", "b"', '.cstr "a" "b"', ".byte 'ab', 'c'")]
        # a value beyond a configured bound of exactly 0 (a bound of 0 is a bound) that still fits the field
        forms += [('range violated', st) for st in (['instr', 'bset', [num(-1)]], ['instr', 'bset', [num(-4)]])]
        # a condition the directive patterns cannot read as a whole (it used to be read from its front part, opening a block)
        forms += [('malformed condition', ['other_text', t]) for t in ('#if 1==1', '#if 2 == 2 junk(', '#if 1 !=0')]
        forms += [('value does not fit', st) for st in (['instr', 'ldi', ['a', num(256)]], ['instr', 'ldi', ['a', num(-129)]],
                                                        ['instr', 'jmp', [num(65536)]], ['instr', 'lda', [num(0x1000)]])]
        # (data directives reduce their values modulo 2^width by C11: '.byte 256' is not a value its field cannot hold)
        for k, (kind, st) in enumerate(forms):
            for where in ('first', 'middle', 'last'):
                base = gen_program(random.Random(f'failclosed-corpus-{k % 3}'), dict(prof, w={'label': 6, 'instr': 20, 'data': 10}), 'quick')
                main = base['files'][0]['stmts']
                depth, tops = 0, [0]
                for i, s_ in enumerate(main):
                    depth += 1 if s_[0] == 'if' else (-1 if s_[0] == 'endif' else 0)
                    if depth == 0:
                        tops.append(i + 1)
                pos = {'first': 0, 'middle': tops[len(tops) // 2], 'last': len(main)}[where]
                main.insert(pos, list(st))
                base['must_fail'] = kind
                base['preseed'] = (k % 2 == 0)
                out.append(base)
        # lines whose numbers, words and blank runs can be split in very many ways: matching them (or failing to) must not
        # take time exponential in their length
        ones, digits, blanks = '1' * 30, '1234567890' * 3, ' ' * 40
        slow = [[f'#if %{ones}', '.byte 1', '#endif'], [f'#if {digits} == 1', '.byte 1', '#else', '.byte 2', '#endif'],
                [f'#if b{ones}', '.byte 1', '#elif {0}'.format(digits), '.byte 2', '#endif'],
                [f'.fill %{ones}'], [f'.fill {digits} 5'], [f'.fill 1{blanks}2'], [f'.fill 2,{blanks}%{ones} & 1'],
                [f'.org {digits}{blanks}'], [f'.zero %{ones} - %{ones}'], [f'.zerountil longword_{digits}'],
                [f'.byte {digits} {digits}'], [f'.2byte %{ones}, b{ones},{blanks}$ffffffffffffffffffffffffff'],
                [f'KLONG = {digits} +{blanks}%{ones}'], [f'.align {digits}x'], [f'ldi a, %{ones} {digits}'],
                [f'lbl_{digits}:{blanks}nop']]
        chain = ['#if LEVEL == 100'] + [x for k in range(40) for x in (f'#elif LEVEL == {101 + k}', f'.byte {k}')] + ['#else', '.byte 255', '#endif']
        chain.insert(1, '.byte 254')
        slow.append(chain)
        for k, lines in enumerate(slow):
            base = gen_program(random.Random(f'failclosed-slow-{k % 2}'), dict(prof, w={'label': 6, 'instr': 20, 'data': 10}), 'quick')
            main = base['files'][0]['stmts']
            for j, ln in enumerate(lines):
                main.insert(j, ['other_text', ln])
            base['preseed'] = (k % 2 == 0)
            base['limit'] = 30
            out.append(base)
        return out
    return Oracle(name='failclosed', gen=gen, check=_failclosed_check, nontrivial=nontrivial, corpus=corpus,
                  classify=lambda c: 'must_fail' if c.get('must_fail') else ('garbled' if c.get('garble') is not None else 'valid'),
                  timeout=300)


# ------------------------------------------------------------------------------------------------ C14 slow operands
def slow_operand_oracle(n_quick=120, n_thorough=1500):
    """operand texts aimed at every operand kind of generated ISAs, with their numbers replaced by very long literals and
    left-over text appended: whatever the assembler makes of them, it must answer within the time limit and fail closed"""
    import re as _re
    from . import sysisa

    LONG = ['%' + '1' * 30, '1234567890' * 3, '$' + 'f' * 28, 'b' + '10' * 16, 'lbl_' + 'x' * 40]

    def gen(rng, tier):
        out = []
        for _ in range(n_quick if tier == 'quick' else n_thorough):
            kinds = rng.choice([None, ['indirect_register'], ['indirect_register', 'indirect_indexed_register', 'indexed_register'],
                                ['indirect_numeric', 'deferred_numeric', 'relative_address', 'address', 'numeric_bytecode']])
            c = sysisa.gen_isa_case(rng, dict({'p_macros': 0.3}, **({'kinds': kinds} if kinds else {})), 'quick')
            for st in c['files'][0]['stmts']:
                if st[0] != 'asm':
                    continue
                for o in st[2]:
                    # numbers only (register names stay what they are)
                    t = _re.sub(r'\$[0-9a-fA-F]+|%[01]+|\b\d+\b', lambda m: rng.choice(LONG) if rng.random() < 0.7 else m.group(0), o[0])
                    r = rng.random()
                    if r < 0.6:
                        t += rng.choice(['!', ' @', ' ' * 30 + '?', ' ' + rng.choice(LONG), ' 1 2 3 4 5 6 7 8 9 !'])
                    elif r < 0.85 and t.rstrip().endswith((']', '}')):
                        t = t.rstrip()[:-1] + rng.choice(['', ' ?', ' ' + rng.choice(LONG)])       # dropped closing bracket
                    o[0] = t
            c['preseed'] = rng.random() < 0.5
            c['limit'] = 30
            out.append(c)
        return out
    return Oracle(name='slow_operands', gen=gen, check=_failclosed_check, nontrivial=lambda c: True,
                  classify=lambda c: 'macros' if c['isa']['macros'] else 'instrs', timeout=300)


# ------------------------------------------------------------------------------------------------ output modes (C04, C14)
def _modes_check(case):
    """whether a program is accepted must not depend on which outputs are asked for: binary image, no binary image
    (--no-binary), with or without a pretty print in any format"""
    td = tempfile.mkdtemp(prefix='vf_modes_')
    try:
        isa, paths, incdirs = sysgen.write_case(case, td)
        seen = {}
        for name, extra in (('binary', []), ('binary+listing', ['-p', '-t', 'listing', '--pretty-print-output', os.path.join(td, 'o1.txt')]),
                            ('no-binary', ['-n']),
                            ('no-binary+' + case.get('pp', 'listing'), ['-n', '-p', '-t', case.get('pp', 'listing'), '--pretty-print-output', os.path.join(td, 'o2.txt')])):
            out = os.path.join(td, 'out_' + name.replace('+', '_') + '.bin')
            p = subprocess.run(sysgen.cli_args(case, isa, paths, incdirs, out, extra), capture_output=True, text=True, timeout=60,
                               env=C.impl_env(), cwd=td)
            seen[name] = 'ok' if p.returncode == 0 else 'rejected'
            if name.startswith('no-binary') and os.path.exists(out):
                return f'{name}: an image file was written although none was asked for'
        if len(set(seen.values())) != 1:
            return f'accepted or rejected depending on the requested outputs: {seen}'
        return None
    finally:
        shutil.rmtree(td, ignore_errors=True)


def output_modes_oracle(gen_case, n_quick=60, n_thorough=800, name='output_modes'):
    def gen(rng, tier):
        out = []
        for _ in range(n_quick if tier == 'quick' else n_thorough):
            c = gen_case(rng, tier)
            c['pp'] = rng.choice(FORMATS)
            out.append(c)
        return out
    return Oracle(name=name, gen=gen, check=_modes_check, nontrivial=lambda c: True,
                  classify=lambda c: c.get('fault') or 'program', timeout=300)

"""Targeted whole-program scenario generators (same case format as sysprog.gen_program; the model decides everything).

gen_cond_scenario   : conditional chains whose bodies change what later conditions, zones and scopes see
                      (#define of the symbol the opener tested, #create_memzone, .memzone / .org, labels, nested chains,
                      #include) -- every such line in an unselected branch must contribute nothing.
gen_include_scenario: include trees of label-free files with repeated / diamond / cyclic / nested-then-direct edges."""
from .sysgen import num
from .sysprog import SYMS, base_cfg


def _opts(rng, cfg):
    return {'start': 0, 'end': None, 'fill': rng.choice([0, 0xEE])}


# ------------------------------------------------------------------------------------------------ conditionals
def _cond(rng, syms):
    r = rng.random()
    if r < 0.4:
        return [rng.choice(['ifdef', 'ifndef']), rng.choice(syms)]
    if r < 0.55:
        return ['bare', rng.choice(syms + ['0', '1', '1-2'])]
    return ['cmp', rng.choice(syms), rng.choice(['==', '!=', '>', '>=', '<', '<=']), rng.choice(['0', '1', '2', '5'])]


def _elif_cond(rng, syms):
    c = _cond(rng, syms)
    if c[0] in ('ifdef', 'ifndef'):
        c = ['bare', c[1]]
    return c


class _CondGen:
    def __init__(self, rng, cfg, files):
        self.rng = rng
        self.cfg = cfg
        self.byte = 0x10
        self.labels = iter(['ca1', 'cb2', 'cc3', 'cd4', 'ce5', 'cf6', 'cg7', 'ch8', 'ci9', 'cj10', 'ck11', 'cl12'])
        self.zones = [z[0] for z in cfg['zones'] if z[0] != 'GLOBAL']
        self.new_zones = iter([('zc1', 0x500, 0x50f), ('zc2', 0x600, 0x60f), ('zc3', 0x700, 0x70f)])
        self.created = []
        self.files = files
        self.risky = 1 if rng.random() < 0.35 else 0
        self.body_syms = ['OPT_A', 'OPT_B', 'OPT_C', 'OPT_D', 'WITH_X', 'WITH_Y']
        self.defined = set()

    def data(self):
        self.byte = (self.byte + 1) & 0xFF
        return ['data', 1, [num(self.byte)]]

    def body(self, depth):
        rng = self.rng
        out = []
        for _ in range(rng.randint(0, 4)):
            r = rng.random()
            if r < 0.28:
                out.append(self.data())
            elif r < 0.40:
                # mostly fresh names (a second definition of a name is an error when both are selected)
                fresh = [x for x in self.body_syms if x not in self.defined]
                nm = rng.choice(fresh) if fresh and rng.random() < 0.85 else rng.choice(SYMS)
                self.defined.add(nm)
                out.append(['define', nm, rng.choice(['0', '1', '2', '5'])])
            elif r < 0.48:
                z = next(self.new_zones, None) if rng.random() < 0.6 or not self.created else rng.choice(self.created)
                if z:
                    self.created.append(z)
                    out.append(['createzone', z[0], z[1], z[2]])
            elif r < 0.62:
                # only zones that certainly exist: the implementation parses lines of unselected branches too and rejects
                # a reference to an unknown zone there, which the property does not speak about (DESIGN.md section 8)
                cands = self.zones + ['GLOBAL']
                z = rng.choice(cands)
                out.append(['memzone', z] if rng.random() < 0.6 else ['org', num(rng.choice([0, 2, 8])), z])
                out.append(self.data())
            elif r < 0.70:
                nm = next(self.labels, None)
                if nm:
                    out.append(['label', nm])
                    out.append(self.data())
            elif r < 0.82 and depth > 0:
                out += self.chain(depth - 1)
            elif r < 0.84 and self.risky:
                # an include that cannot be resolved: fatal in a selected branch, nothing at all in an unselected one
                self.risky -= 1
                out.append(['include', None, 'no_such_file.asm'])
            elif r < 0.86 and self.files is not None and len(self.files) < 3:
                idx = len(self.files)
                name = f'cinc{idx}.asm'
                self.files.append({'name': name, 'dir': 'src', 'stmts': [self.data(), self.data()]})
                out.append(['include', idx, name])
            else:
                out.append([rng.choice(['mute', 'unmute'])])
        return out

    def chain(self, depth):
        rng = self.rng
        out = []
        if rng.random() < 0.35:
            # include-guard idiom: the selected branch defines the symbol its opener tested
            s = rng.choice(SYMS)
            out.append(['if', ['ifndef', s]])
            out.append(['define', s, rng.choice(['1', '5'])])
            out += self.body(depth)
            if rng.random() < 0.7:
                out.append(['elif', rng.choice([['cmp', s, '==', '5'], ['bare', s], ['cmp', s, '>=', '1']])])
                out += self.body(depth)
        else:
            pool = SYMS + sorted(self.defined)
            out.append(['if', _cond(rng, pool)])
            out += self.body(depth)
            for _ in range(rng.choice([0, 0, 1, 2, 3])):
                out.append(['elif', _elif_cond(rng, SYMS + sorted(self.defined))])
                out += self.body(depth)
        if rng.random() < 0.6:
            out.append(['else'])
            out += self.body(depth)
        out.append(['endif'])
        return out


def gen_cond_scenario(rng, tier='quick'):
    cfg = base_cfg(rng, {'p_zones': 1.0, 'p_global': 0.0, 'p_data': 0.0})
    cfg['page'] = 1
    files = [{'name': 'main.asm', 'dir': 'src', 'stmts': []}]
    g = _CondGen(rng, cfg, files)
    st = [g.data()]
    # a local label region that the chains below may or may not interrupt: a non-local label opens a new region only if
    # its line is selected
    use_local = rng.random() < 0.6
    if use_local:
        st += [['label', 'top0'], ['label', '.l1'], g.data()]
    for _ in range(rng.randint(1, 3)):
        st += g.chain(2)
        st.append(g.data())
        if use_local:
            r = rng.random()
            if r < 0.3:
                st.append(['data', 2, [('lab', '.l1')]])
            elif r < 0.36:
                st += [['label', '.l1'], g.data()]
        if rng.random() < 0.3:
            nm = next(g.labels, None)
            if nm:
                st.append(['label', nm])
        # what a zone or symbol looks like after the chain shows whether an unselected line leaked
        if rng.random() < 0.5:
            cands = g.zones + ([z[0] for z in g.created] if rng.random() < 0.3 else [])
            st.append(['memzone', rng.choice(cands)])
            st.append(g.data())
        if rng.random() < 0.5:
            st.append(['if', ['cmp', rng.choice(SYMS), rng.choice(['==', '>=']), rng.choice(['1', '5'])]])
            st.append(g.data())
            st.append(['else'])
            st.append(g.data())
            st.append(['endif'])
    if rng.random() < 0.2 and len(files) < 3:
        # the decision of a conditional is taken when its directive is reached: an included file that defines the symbol the
        # opener tested does not change it for the lines behind the include
        idx = len(files)
        files.append({'name': f'tdef{idx}.asm', 'dir': 'src', 'stmts': [['define', 'HAVE_TDEF', '1'], g.data()]})
        opener = rng.choice([['ifndef', 'HAVE_TDEF'], ['cmp', 'HAVE_TDEF', '!=', '1']])
        st += [['if', opener], g.data(), ['include', idx, f'tdef{idx}.asm'], g.data(), ['else'], g.data(), ['endif'], g.data()]
    files[0]['stmts'] = st
    return {'cfg': cfg, 'files': files, 'include_dirs': ['lib'], 'extra_files': [], 'fault': 'cond-scenario', 'opts': _opts(rng, cfg)}


# ------------------------------------------------------------------------------------------------ include trees
def gen_include_scenario(rng, tier='quick'):
    cfg = base_cfg(rng, {'p_zones': 0.3, 'p_global': 0.0, 'p_data': 0.0})
    cfg['page'] = 1
    n = rng.randint(2, 5)
    files = [{'name': 'main.asm' if i == 0 else f'f{i}.asm', 'dir': 'src' if i == 0 else rng.choice(['src', 'lib']), 'stmts': []}
             for i in range(n)]
    if n >= 3 and rng.random() < 0.3:
        # two different files in one directory whose names differ only in letter case
        files[1]['name'], files[2]['name'] = 'Tables.asm', 'tables.asm'
        files[2]['dir'] = files[1]['dir']
    byte = [0x20]

    def data():
        byte[0] = (byte[0] + 1) & 0xFF
        return ['data', 1, [num(byte[0])]]
    # a tree first (every file included once, from a file with a smaller index), then extra edges
    edges = [(rng.randrange(i), i) for i in range(1, n)]
    kind = 'tree'
    r = rng.random()
    if r < 0.2:
        pass
    elif r < 0.45 and n >= 3:
        # second inclusion from another branch of the tree
        j = rng.randrange(1, n)
        parents = [i for i in range(n) if i != j and (i, j) not in edges]
        edges.append((rng.choice(parents), j))
        kind = 'second-parent'
    elif r < 0.6:
        i, j = rng.choice(edges)
        edges.append((i, j))
        kind = 'direct-repeat'
    elif r < 0.75:
        j = rng.randrange(1, n)
        edges.append((j, rng.choice([0, j])))
        kind = 'cycle'
    elif r < 0.9 and n >= 3:
        # nested first, then directly by the main file (or the other way round)
        i, j = rng.choice([e for e in edges if e[0] != 0] or edges)
        edges.append((0, j))
        kind = 'nested-then-direct'
    order = list(edges)
    rng.shuffle(order)
    local_ok = rng.random() < 0.5
    for i in range(n):
        st = files[i]['stmts']
        st.append(data())
        if local_ok and rng.random() < 0.5:
            st.append(['label', rng.choice(['_f1', '_f2'])])     # file-scoped: no clash when a file is assembled twice
            st.append(data())
    for a, b in order:
        st = files[a]['stmts']
        st.insert(rng.randrange(len(st) + 1), ['include', b, files[b]['name']])
    if rng.random() < 0.12:
        # a cycle back to the main file that an include guard keeps from going round a second time: the main file is still
        # a file that is included more than once
        kind = 'guarded-cycle'
        for i in range(n):
            files[i]['stmts'] = [x for x in files[i]['stmts'] if x[0] != 'include']
        files[0]['stmts'] = [['if', ['ifndef', 'ONCE_ONLY']], ['define', 'ONCE_ONLY', '1'], ['include', 1, files[1]['name']], ['endif']] + files[0]['stmts']
        files[1]['stmts'].append(['include', 0, files[0]['name']])
        files = files[:2]
    for i in range(n):
        files[i]['stmts'].append(data())
    return {'cfg': cfg, 'files': files, 'include_dirs': ['lib'], 'extra_files': [], 'fault': 'include-' + kind, 'opts': _opts(rng, cfg)}


def scenario_gen(fn, n_quick, n_thorough):
    def one(rng, tier):
        for _ in range(20):
            try:
                return fn(rng, tier)
            except (ValueError, IndexError, KeyError, StopIteration):
                continue
        return fn(rng, tier)

    def gen(rng, tier):
        return [one(rng, tier) for _ in range(n_quick if tier == 'quick' else n_thorough)]
    return gen


# ------------------------------------------------------------------------------------------------ labels in front of statements
def gen_label_scenario(rng, tier='quick'):
    """non-local labels directly followed by statements that refer to local labels of the region the label opens (defined
    before or after the reference), so that it matters to which region the statement behind a label belongs -- whether
    the label stands on its own line or in front of the statement"""
    cfg = base_cfg(rng, {'p_zones': 0.0, 'p_data': 0.0})
    cfg['page'] = 1
    cfg['embedded'] = False
    st = []
    byte = [0x30]

    def data():
        byte[0] = (byte[0] + 1) & 0xFF
        return ['data', 1, [num(byte[0])]]

    def ref(name):
        r = rng.random()
        if r < 0.4:
            return ['instr', 'jmp', [('lab', name)]]
        if r < 0.7:
            return ['data', 2, [('lab', name)]]
        if r < 0.85:
            return ['instr', 'lea', [('bin', '+', ('lab', name), ('num', '1'))]]
        return ['fill', num(2), ('lab', name)]
    globals_ = ['first', 'second', '_third', 'fourth', '_fifth']
    rng.shuffle(globals_)
    at = [cfg['origin'] + 0x40]
    for g in globals_[:rng.randint(2, 5)]:
        st.append(['label', g])
        if rng.random() < 0.2:
            # an origin (possibly on the label's own line) ends the region the label has just opened
            at[0] += 0x20
            st.append(['org', num(at[0]), None])
            if rng.random() < 0.5:
                st.append(['label', g + '_b'])          # a new region after the origin: what follows is fine again
        loc = rng.choice(['.t', '.x', '.nop', '.jmp', '.lea'])      # local labels may contain a mnemonic
        order = rng.random()
        if order < 0.45:
            # reference directly behind the non-local label, definition later in the region
            st.append(ref(loc))
            if rng.random() < 0.5:
                st.append(data())
            st += [['label', loc], data()]
        elif order < 0.8:
            st += [['label', loc], data(), ref(loc)]
        else:
            st.append(data())
        if rng.random() < 0.3:
            st.append(['instr', 'nop', []])
        if rng.random() < 0.3:
            # a local label at the very end of the region, directly in front of the next non-local label (possibly on one line
            # with it): it belongs to the region that ends there, and each region may have its own
            st += [ref('.tail'), ['label', '.tail']]
    fault = 'label-lines'
    if rng.random() < 0.15:
        # a reference to a local label that only an earlier region defines
        st += [['label', 'last'], ref(rng.choice(['.t', '.x', '.nop']))]
        fault = 'label-lines-foreign-local'
    return {'cfg': cfg, 'files': [{'name': 'main.asm', 'dir': 'src', 'stmts': st}], 'include_dirs': ['lib'], 'extra_files': [],
            'fault': fault, 'opts': _opts(rng, cfg)}


# ------------------------------------------------------------------------------------------------ small address spaces
def gen_small_space_scenario(rng, tier='quick'):
    """address spaces whose width is not a multiple of 4 bits (an address then needs more hex digits than width/4), data near
    the top of the space, gaps, muted stretches and zero-length lines: for the output formats"""
    bits = rng.choice([10, 10, 9, 11, 13, 6])
    top = (1 << bits) - 1
    cfg = dict(addr_bits=bits, endian=rng.choice(['little', 'big']), origin=rng.choice([0, 0, 3]), page=1, terminator=0, embedded=False,
               zones=[], consts=[], data=[], syms=[], cli=[])
    st = []
    byte = [0x40]

    def data(n=None):
        out = []
        for _ in range(n or rng.randint(1, 4)):
            byte[0] = (byte[0] + 1) & 0xFF
            out.append(num(byte[0]))
        return ['data', 1, out]
    st.append(data())
    at = cfg['origin'] + 8
    for _ in range(rng.randint(1, 4)):
        at = rng.randint(at, min(top - 6, at + max(2, top // 3)))
        st.append(['org', num(at), None])
        r = rng.random()
        if r < 0.25:
            st += [['mute'], data(), ['unmute'], data(2)]
            at += 8
        elif r < 0.4:
            st += [['fill', num(0), num(7)], data(2)]
            at += 4
        elif r < 0.55:
            st += [['fill', num(3), num(0x1AB)], ['instr', 'nop', []]]
            at += 6
        else:
            st.append(data())
            at += 6
        if at >= top - 8:
            break
    if rng.random() < 0.4:
        st += [['org', num(top - 1), None], data(2)]            # the last two addresses of the space
    return {'cfg': cfg, 'files': [{'name': 'main.asm', 'dir': 'src', 'stmts': st}], 'include_dirs': ['lib'], 'extra_files': [],
            'fault': f'small-space-{bits}', 'opts': {'start': 0, 'end': None, 'fill': 0}}


# ------------------------------------------------------------------------------------------------ layout directives over labels
def gen_layout_expr_scenario(rng, tier='quick'):
    """layout directives whose operands are expressions over address labels: .fill/.zero counts, .zerountil targets, .org
    addresses (without a zone, with a zone, with "GLOBAL" written out) and .align pages computed from labels defined
    earlier (they have their value while addresses are assigned) or later (rejected), in configurations where GLOBAL is
    redefined with a non-zero start so that a zone-relative origin in GLOBAL differs from an absolute one"""
    cfg = base_cfg(rng, {'p_zones': 0.0, 'p_data': 0.0})
    cfg['embedded'] = False
    cfg['page'] = rng.choice([1, 4, 16])
    gs = rng.choice([0, 0x10, 0x40, 0x100])
    if rng.random() < 0.75:
        cfg['zones'] = [['GLOBAL', gs, 0x7fff]]
        if rng.random() < 0.5:
            cfg['zones'].append(['ram', 0x2000, 0x20ff])
    else:
        gs = 0
    cfg['origin'] = max(cfg['origin'], gs)
    st = []
    byte = [0x50]

    def data(n=None):
        out = []
        for _ in range(n or rng.randint(1, 4)):
            byte[0] = (byte[0] + 1) & 0xFF
            out.append(num(byte[0]))
        return ['data', 1, out]

    def lab(n):
        return ('lab', n)
    fault = 'layout-exprs'
    hi = [0x80]
    for i in range(rng.randint(1, 4)):
        a, b, c = f'rec{i}', f'rec{i}_end', f'after{i}'
        st += [['label', a], data(), ['label', b]]
        size = ('bin', '-', lab(b), lab(a))
        r = rng.random()
        if r < 0.15:
            st.append(['fill', ('bin', '-', num(8), size), num(0xF0 + i)])
        elif r < 0.25:
            st.append(['zero', size])
        elif r < 0.40:
            st.append(['zerountil', ('bin', '+', lab(a), num(rng.choice([0, 2, 4, 7])))])
        elif r < 0.52:
            hi[0] += 0x40
            st.append(['org', ('bin', '+', lab(b), num(hi[0])), None])
        elif r < 0.70:
            hi[0] += 0x200
            st.append(['org', num(hi[0]), 'GLOBAL'])
        elif r < 0.80:
            hi[0] += 0x200
            st.append(['org', ('bin', '+', size, num(hi[0])), 'GLOBAL'])
        elif r < 0.88 and any(z[0] == 'ram' for z in cfg['zones']):
            st.append(['org', ('bin', '+', size, num(0x10 * i)), 'ram'])
        elif r < 0.95:
            st.append(['align', size])
        else:
            # a label that is only defined further down has no value yet when addresses are assigned
            st.append(rng.choice([['fill', ('bin', '-', lab(c), lab(a)), num(1)], ['zerountil', lab(c)], ['org', ('bin', '+', lab(c), num(0x800)), None],
                                  ['zero', lab(c)]]))
            fault = 'layout-exprs-forward'
        st += [['label', c], data(), rng.choice([['instr', 'jmp', [lab(c)]], ['data', 2, [lab(b), lab(c)]], ['data', 2, [lab(a)]]])]
    return {'cfg': cfg, 'files': [{'name': 'main.asm', 'dir': 'src', 'stmts': st}], 'include_dirs': ['lib'], 'extra_files': [],
            'fault': fault, 'opts': _opts(rng, cfg)}


def gen_small_space_window_scenario(rng, tier='quick'):
    """small address spaces with an explicit image window that ends at, just above or far above the top of the address
    space (the window is a property of the image file, not of the address space: it has end-start+1 bytes)"""
    c = gen_small_space_scenario(rng, tier)
    top = (1 << c['cfg']['addr_bits']) - 1
    start = rng.choice([0, 0, 3, top - 4, top + 1])
    c['opts'] = {'start': start, 'end': rng.choice([top, top + 1, top + 0x10, 2 * top + 1, top - 1]), 'fill': rng.choice([0, 0xEE])}
    if c['opts']['end'] < start:
        c['opts']['end'] = start + 7
    c['fault'] = c['fault'] + '-window'
    return c


# ------------------------------------------------------------------------------------------------ zones filled to the brim
def gen_zone_top_scenario(rng, tier='quick'):
    """a named zone that ends where GLOBAL ends (the top of the address space, or of a redefined GLOBAL), filled exactly
    to its last address and followed by lines that emit nothing (a label, a zero-length fill, re-selecting the zone, a
    conditional block): the cursor may stand one past the end as long as nothing is emitted there.  Also: a memory map
    chosen by a conditional chain whose branches declare the same zone name with different ranges."""
    bits = rng.choice([8, 8, 16])
    top = (1 << bits) - 1
    cfg = dict(addr_bits=bits, endian=rng.choice(['little', 'big']), origin=0, page=1, terminator=0, embedded=False,
               zones=[], consts=[], data=[], syms=[], cli=[])
    gend = top
    if bits == 16:
        # (a redefined GLOBAL: an image of the whole 64K space is more than the model evaluation should be asked to print)
        gend = rng.choice([0x2ff, 0x4ff])
        cfg['zones'].append(['GLOBAL', 0x100, gend])
        cfg['origin'] = 0x100
    size = rng.choice([4, 8, 16])
    zs = gend - size + 1
    st = []
    byte = [0x60]

    def data(n):
        out = []
        for _ in range(n):
            byte[0] = (byte[0] + 1) & 0xFF
            out.append(num(byte[0]))
        return ['data', 1, out]
    fault = 'zone-top'
    if rng.random() < 0.5:
        cfg['zones'].append(['hi', zs, gend])
    else:
        # the memory map is chosen by a conditional: both branches declare the zone, only one of them is selected
        sym = rng.choice(SYMS)
        if rng.random() < 0.5:
            cfg['cli'] = [[sym, '']]
        other = [max(cfg['origin'] + 0x20, zs - 0x40), max(cfg['origin'] + 0x20, zs - 0x40) + size - 1]
        pair = [['createzone', 'hi', zs, gend], ['createzone', 'hi', other[0], other[1]]]
        if not cfg['cli']:
            pair.reverse()           # the branch that is not selected comes first
        if rng.random() < 0.5:
            pair.reverse()
            st += [['if', ['ifndef', sym]], pair[0], ['else'], pair[1], ['endif']]
        else:
            st += [['if', ['ifdef', sym]], pair[0], ['else'], pair[1], ['endif']]
        fault = 'zone-top-conditional-map'
    st += [data(2), ['memzone', 'hi']]
    fill = size if rng.random() < 0.7 else rng.choice([size - 1, size + 1])
    st.append(data(fill) if fill <= 4 else ['fill', num(fill), num(0xA5)])
    tail = rng.choice([[['label', 'zone_end']], [['fill', num(0), num(1)]], [['memzone', 'hi'], ['label', 'again']],
                       [['if', ['bare', '1']], ['label', 'in_cond'], ['endif']], [['label', 'zone_end'], ['label', '.loc']], []])
    st += tail
    st += [['memzone', 'GLOBAL'], data(1)]
    if any(x[0] == 'label' and x[1] == 'zone_end' for x in st) and rng.random() < 0.6:
        st.append(['data', 2 if bits > 8 else 1, [('lab', 'zone_end')]] if bits > 8 else ['data', 2, [('lab', 'zone_end')]])
    return {'cfg': cfg, 'files': [{'name': 'main.asm', 'dir': 'src', 'stmts': st}], 'include_dirs': ['lib'], 'extra_files': [],
            'fault': fault, 'opts': {'start': cfg['origin'], 'end': None, 'fill': 0}}


# ------------------------------------------------------------------------------------------------ labels in front of embedded strings
def gen_embedded_label_scenario(rng, tier='quick'):
    """embedded strings enabled; labels directly in front of embedded strings (on the same line or on a line of their own),
    strings after instructions, references to the labels: for the layout ties"""
    cfg = base_cfg(rng, {'p_zones': 0.0, 'p_data': 0.0})
    cfg['embedded'] = True
    cfg['page'] = 1
    st = []
    names = ['msg_a', 'msg_b', '_msg_c', 'msg_d']
    rng.shuffle(names)
    used = []
    for nm in names[:rng.randint(1, 4)]:
        used.append(nm)
        st.append(['label', nm])
        text = ''.join(rng.choice('abcXYZ 019!#$%&()*+,-./:<=>?@[]^_{|}~') for _ in range(rng.randint(1, 6)))
        if rng.random() < 0.4:
            text = nm + ': ' + text + ' ' + nm + ':'           # the label's own text, colon included, inside the string
        st.append(['str', rng.choice(['embedded', 'embedded', 'cstr', 'byte']), '"', text])
        if rng.random() < 0.4:
            st += [['instr', 'nop', []], ['str', 'embedded', '"', 'ok']]
    st.append(['data', 2, [('lab', n) for n in used]])
    return {'cfg': cfg, 'files': [{'name': 'main.asm', 'dir': 'src', 'stmts': st}], 'include_dirs': ['lib'], 'extra_files': [],
            'fault': 'embedded-labels', 'opts': _opts(rng, cfg)}


# ------------------------------------------------------------------------------------------------ constants from quotients
def gen_const_chain_scenario(rng, tier='quick'):
    """a constant has the value of its defining expression, i.e. an integer (the quotient truncated): what later expressions
    compute with it starts from that integer, not from the fraction"""
    cfg = base_cfg(rng, {'p_zones': 0.0, 'p_data': 0.0})
    cfg['embedded'] = False
    st = []
    pairs = [(7, 2), (12, 5), (5, 2), (9, 4), (1, 3), (8, 2), (100, 7)]
    rng.shuffle(pairs)
    for i, (a, b) in enumerate(pairs[:rng.randint(1, 3)]):
        k = f'KQ{i}'
        q = ('bin', '/', num(a), num(b))
        if rng.random() < 0.3:
            q = ('neg', q) if rng.random() < 0.5 else ('bin', '-', num(0), q)
        st.append(['const', k, q])
        st.append(['const', k + 'b', ('bin', '*', ('lab', k), num(b))])
        st.append(['data', 2, [('bin', '*', ('lab', k), num(2)), ('bin', '+', ('lab', k), ('lab', k)), ('bin', '-', num(10), ('lab', k)), ('lab', k + 'b')]])
        if rng.random() < 0.5:
            st.append(['fill', ('bin', '+', ('bin', '*', ('lab', k), num(2)), num(20)), ('bin', '+', ('lab', k), ('lab', k))])
    return {'cfg': cfg, 'files': [{'name': 'main.asm', 'dir': 'src', 'stmts': st}], 'include_dirs': ['lib'], 'extra_files': [],
            'fault': 'const-chain', 'opts': _opts(rng, cfg)}


# ------------------------------------------------------------------------------------------------ beyond 64K
def gen_wide_space_scenario(rng, tier='quick'):
    """a 20 or 24 bit address space with lines that lie on, and run across, multiples of $10000 (Intel HEX needs an extended
    address record there); the image window is a small stretch around the boundary"""
    bits = rng.choice([20, 24])
    bank = rng.choice([1, 2]) if bits == 20 else rng.choice([1, 2, 0x12])
    edge = bank * 0x10000
    cfg = dict(addr_bits=bits, endian=rng.choice(['little', 'big']), origin=0, page=1, terminator=0, embedded=False,
               zones=[], consts=[], data=[], syms=[], cli=[])
    byte = [0x70]

    def data(n):
        out = []
        for _ in range(n):
            byte[0] = (byte[0] + 1) & 0xFF
            out.append(num(byte[0]))
        return ['data', 1, out]
    start = edge - rng.choice([0x18, 0x08, 0x21])
    st = [['org', num(start), None]]
    r = rng.random()
    if r < 0.4:
        st.append(['fill', num(rng.choice([40, 48, 33])), num(0xC3)])                  # one line across the boundary
    elif r < 0.7:
        st += [data(4), ['str', 'cstr', '"', 'across the sixty-four K line, more than one record long']]
    else:
        st += [data(3), ['org', num(edge - 2), None], data(4)]                         # two bytes below, two above
    st += [['org', num(edge + 0x40), None], data(2)]
    return {'cfg': cfg, 'files': [{'name': 'main.asm', 'dir': 'src', 'stmts': st}], 'include_dirs': ['lib'], 'extra_files': [],
            'fault': f'wide-space-{bits}', 'opts': {'start': start - 4, 'end': edge + 0x50, 'fill': rng.choice([0, 0xEE])}}

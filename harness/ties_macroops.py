"""C12: constraints configured for the operands of a MACRO (zone of an address operand, min/max of a bit index or a relative
offset, membership in a numeric enumeration).  The model (like the implementation it mirrors) uses a macro's operands for
selection and placeholder text only; the property asks for more: a statement whose operand value violates a configured
constraint is rejected.  This oracle states that on the implementation directly; what it finds on the current tree is
recorded as an open finding (known_findings.json, F1), see DESIGN.md section 7."""
from . import common as C
from . import sysgen
from .framework import Oracle

ISA = '''
description: verif macro operand constraints
general:
  address_size: 16
  endian: big
  registers: [a]
  identifier: {name: verif-macro-ops, version: "1.0.0"}
predefined:
  memory_zones:
    - {name: ROM, start: 0x8000, end: 0x8FFF}
operand_sets:
  any16:
    operand_values:
      v: {type: numeric, argument: {size: 16, byte_align: true}}
  any8:
    operand_values:
      v: {type: numeric, argument: {size: 8, byte_align: true}}
instructions:
  nop:
    bytecode: {value: 0, size: 8}
  ldw:
    bytecode: {value: 1, size: 8}
    operands: {count: 1, operand_sets: {list: [any16]}}
  ldb:
    bytecode: {value: 2, size: 8}
    operands: {count: 1, operand_sets: {list: [any8]}}
macros:
  mcall:
    - operands:
        count: 1
        specific_operands:
          r:
            list:
              t: {type: address, argument: {size: 16, byte_align: true, memory_zone: ROM}}
      instructions: ["nop", "ldw @ARG(0)"]
  mbit:
    - operands:
        count: 1
        specific_operands:
          r:
            list:
              n: {type: numeric_bytecode, bytecode: {size: 3, min: 0, max: 5}}
      instructions: ["ldb @OP(0)"]
  msel:
    - operands:
        count: 1
        specific_operands:
          r:
            list:
              k: {type: numeric_enumeration, bytecode: {size: 4, value_dict: {1: 1, 2: 2, 4: 3}}}
      instructions: ["ldb @OP(0)"]
'''

# (statement, value satisfies the constraint configured for the macro operand)
CASES = [('mcall $8000', True), ('mcall $8FFF', True), ('mcall $0010', False), ('mcall $9000', False), ('mcall $7FFF', False),
         ('mbit 0', True), ('mbit 5', True), ('mbit 6', False), ('mbit 7', False),
         ('msel 4', True), ('msel 1', True), ('msel 3', False), ('msel 0', False)]


def gen(rng, tier):
    out = []
    for text, ok in CASES:
        for before in ([], [['other_text', 'nop']]):
            out.append({'cfg': {'addr_bits': 16, 'cli': []}, 'isa_yaml': ISA,
                        'files': [{'name': 'main.asm', 'dir': 'src', 'stmts': before + [['other_text', text], ['other_text', 'nop']]}],
                        'include_dirs': [], 'extra_files': [], 'opts': {'start': 0, 'end': None, 'fill': 0}, 'stmt': text, 'satisfies': ok,
                        'isa': {'macros': {}}})
    return out


def _check(case):
    st, val = C.run_forked(sysgen.impl_assemble, case, 60)
    if case['satisfies'] and st != 'ok':
        return f'control: {case["stmt"]!r} satisfies the constraint of the macro operand but was rejected ({str(val)[:120]})'
    if not case['satisfies'] and st == 'ok':
        return f'macro operand constraint not enforced: {case["stmt"]!r} was assembled although its value violates the constraint configured for the operand'
    return None


def _known(case, msg):
    # the open finding F1 is exactly this call site: MacroBytecodeGenerator keeps the matched operands' text and drops
    # their byte code parts (which carry the constraints)
    if msg.startswith('macro operand constraint not enforced') and case.get('stmt', '').split()[0] in ('mcall', 'mbit', 'msel'):
        return 'F1-macro-operand-constraints'
    return None


def macro_operand_oracle():
    return Oracle(name='macro_operand_constraints', gen=gen, check=_check, nontrivial=lambda c: True,
                  classify=lambda c: 'satisfied' if c['satisfies'] else 'violated', known=_known, timeout=120)

"""C19: ISA-definition validation and version gates.

Cases are YAML documents: generated well-formed definitions (the rich generator of sysisa, already known to be usable by
the C10/C13 ties) and single-fault corruptions of them from a fixed catalogue.  The harness abstracts each document to the
facts the model's `validate` looks at -- no longer: the loaded document is rendered as a tree and the model extracts
those facts itself (ConfigTree.abstract_doc) --, the model decides accept / reject, and the implementation is asked to
compile a one-line source file with the definition (in process, and for a share of the cases through the real command
line, whose exit status is what the property names as the observation)."""
import copy
import os
import random
import re
import shutil
import subprocess
import tempfile

from . import common as C
from . import sysisa
from .framework import Tie

KEYWORDS = ['org', 'memzone', 'align', 'fill', 'zero', 'zerountil', 'byte', '2byte', '4byte', '8byte', 'cstr', 'asciiz', 'include',
            'require', 'create_memzone', 'define', 'if', 'elif', 'else', 'endif', 'ifdef', 'ifndef', 'mute', 'unmute', 'emit', 'LSB'] \
    + [f'BYTE{i}' for i in range(10)]
REG_TYPES = ('register', 'indirect_register', 'indexed_register', 'indirect_indexed_register')
RUNNING = '0.4.3b1'
MIN_SUPPORTED = '0.3.0'

VER_RE = re.compile(r'^(\d+(?:\.\d+)*)(?:(a|b|rc)(\d+))?$')


# ------------------------------------------------------------------------------------------------ versions
def gen_version(rng, near=None):
    """versions whose numeric and textual orders differ are the interesting ones: multi-digit components next to
    single-digit ones, missing components, pre-releases"""
    if near is not None and rng.random() < 0.7:
        m = VER_RE.match(near)
        rel = [int(x) for x in m.group(1).split('.')]
        i = rng.randrange(len(rel))
        rel[i] = max(0, rel[i] + rng.choice([-1, 1, 7, 10, -3, 0]))
        if rng.random() < 0.2:
            rel = rel[:rng.randint(1, len(rel))]
        if rng.random() < 0.2:
            rel.append(rng.choice([0, 0, 1, 12]))
    else:
        rel = [rng.choice([0, 0, 0, 1, 2, 10]), rng.choice([0, 2, 3, 4, 4, 5, 9, 10, 11, 30, 40]), rng.choice([0, 1, 2, 3, 3, 4, 9, 10, 12, 29, 31])]
        rel = rel[:rng.choice([1, 2, 3, 3, 3, 3])]
        if rng.random() < 0.1:
            rel.append(rng.choice([0, 1]))
    s = '.'.join(str(x) for x in rel)
    if rng.random() < 0.3:
        s += rng.choice(['a', 'b', 'rc']) + str(rng.choice([0, 1, 2, 10]))
    return s


# ------------------------------------------------------------------------------------------------ well-formed definitions
def gen_doc(rng):
    isa = sysisa.gen_isa(rng, {'p_macros': 0.6})
    cfg = dict(addr_bits=16, origin=rng.choice([0, 0, 0x100, 0x8000]), page=1, consts=[['K9', 5]])
    doc = sysisa.isa_doc(isa, cfg)
    g = doc['general']
    g['identifier'] = {'name': rng.choice(['verif-gen', 'cpu_x', 'my.isa', 'Z80']), 'version': gen_version(rng)}
    r = rng.random()
    if r < 0.5:
        # any version between the minimum supported format and the running assembler is acceptable
        g['min_version'] = rng.choice(['0.3.0', '0.3', '0.3.1', '0.3.10', '0.4.0', '0.4.2', '0.4.3a1', '0.4.3b1', '0.4.3b0', '0.3.9', '0.4',
                                       '0.3.0.0', '0.4.1'])
    pre = doc.setdefault('predefined', {})
    zones = pre.setdefault('memory_zones', [])
    if rng.random() < 0.5:
        zones.append({'name': 'rom', 'start': 0xC000, 'end': rng.choice([0xFFFF, 0xC000, 0xDFFF])})
    if rng.random() < 0.25:
        zones.append({'name': 'GLOBAL', 'start': 0, 'end': 0xFFFF})
    if not zones:
        del pre['memory_zones']
    if not pre:
        del doc['predefined']
    # mnemonics may be spelled in any letter case
    if rng.random() < 0.3:
        k = rng.choice(list(doc['instructions']))
        doc['instructions'] = {(x.upper() if x == k else x): v for x, v in doc['instructions'].items()}
    return doc


# ------------------------------------------------------------------------------------------------ abstraction
def walk_operand_configs(doc):
    """every operand configuration the loader constructs, index operands included"""
    def rec(cfg):
        if not isinstance(cfg, dict):
            return
        yield cfg
        for sub in (cfg.get('index_operands') or {}).values():
            yield from rec(sub)
    for s in (doc.get('operand_sets') or {}).values():
        for oc in (s.get('operand_values') or {}).values():
            yield from rec(oc)
    for v in all_variant_dicts(doc):
        for sc in ((v.get('operands') or {}).get('specific_operands') or {}).values():
            for oc in (sc.get('list') or {}).values():
                yield from rec(oc)


def instr_variants(ic):
    """the variant configurations Instruction.__init__ builds: the top level only if it carries bytecode"""
    out = []
    if 'bytecode' in ic:
        out.append(ic)
    out += list(ic.get('variants') or [])
    return out


def all_variant_dicts(doc):
    for ic in (doc.get('instructions') or {}).values():
        yield from instr_variants(ic)
    for ml in (doc.get('macros') or {}).values():
        yield from ml


def tree_term(x):
    """the loaded YAML document as a Coq term of type ConfigTree.yv (nothing is interpreted here)"""
    if x is None:
        return 'YNull'
    if isinstance(x, bool):
        return f'(YBool {C.coq_bool(x)})'
    if isinstance(x, int):
        return f'(YInt {C.zlit(x)})'
    if isinstance(x, float):
        return f'(YStr {C.coq_string_codes(str(x))})'
    if isinstance(x, str):
        return f'(YStr {C.coq_string_codes(x)})'
    if isinstance(x, (list, tuple)):
        return '(YList [' + '; '.join(tree_term(v) for v in x) + '])'
    if isinstance(x, dict):
        return '(YMap [' + '; '.join(f'({C.coq_string_codes(str(k))}, {tree_term(v)})' for k, v in x.items()) + '])'
    raise ValueError(type(x))


# ------------------------------------------------------------------------------------------------ the fault catalogue
def _case_variant(rng, s):
    return rng.choice([s, s.upper(), s.capitalize(), s.lower()])


def _rename_key(d, old, new):
    return {(new if k == old else k): v for k, v in d.items()}


def _variants_with(doc, pred, macros=True):
    out = [v for ic in doc['instructions'].values() for v in instr_variants(ic) if pred(v)]
    if macros:
        out += [v for ml in (doc.get('macros') or {}).values() for v in ml if pred(v)]
    return out


def f_no_general(rng, d):
    del d['general']
    return d


def f_no_instructions(rng, d):
    del d['instructions']
    d.pop('macros', None)
    return d


def f_no_operand_sets(rng, d):
    del d['operand_sets']
    return d


def f_mnemonic_keyword(rng, d):
    k = rng.choice(list(d['instructions']))
    d['instructions'] = _rename_key(d['instructions'], k, _case_variant(rng, rng.choice(KEYWORDS)))
    return d


def f_macro_keyword(rng, d):
    if not d.get('macros'):
        return None
    k = rng.choice(list(d['macros']))
    d['macros'] = _rename_key(d['macros'], k, _case_variant(rng, rng.choice(KEYWORDS)))
    return d


def f_register_keyword(rng, d):
    d['general']['registers'].append(rng.choice(KEYWORDS))
    return d


def f_register_keyword_other_case(rng, d):
    # registers are matched without regard to letter case in source code: ORG, Lsb, bYTE0 are keywords too
    d['general']['registers'].append(_case_variant(rng, rng.choice(KEYWORDS)))
    return d


def f_macro_is_instruction(rng, d):
    if not d.get('macros'):
        return None
    k = rng.choice(list(d['macros']))
    d['macros'] = _rename_key(d['macros'], k, _case_variant(rng, rng.choice(list(d['instructions']))))
    return d


def f_macro_is_instruction_other_case(rng, d):
    # the same clash with the two keys spelled in different letter case
    if not d.get('macros'):
        return None
    k = rng.choice(list(d['macros']))
    ik = rng.choice(list(d['instructions']))
    other = [v for v in (ik.upper(), ik.capitalize(), ik.lower()) if v != ik]
    if not other:
        return None
    d['macros'] = _rename_key(d['macros'], k, rng.choice(other))
    return d


def f_no_bytecode(rng, d):
    vs = _variants_with(d, lambda v: 'bytecode' in v and 'variants' not in v, macros=False)
    if not vs:
        return None
    del rng.choice(vs)['bytecode']
    return d


def f_no_count(rng, d):
    vs = _variants_with(d, lambda v: 'operands' in v)
    if not vs:
        return None
    del rng.choice(vs)['operands']['count']
    return d


def f_unknown_set(rng, d):
    vs = _variants_with(d, lambda v: 'operand_sets' in (v.get('operands') or {}))
    if not vs:
        return None
    lst = rng.choice(vs)['operands']['operand_sets']['list']
    lst[rng.randrange(len(lst))] = rng.choice(['nosuchset', 'SET0', 'set9', 'set'])
    return d


def f_count_vs_sets(rng, d):
    vs = _variants_with(d, lambda v: 'operand_sets' in (v.get('operands') or {}))
    if not vs:
        return None
    v = rng.choice(vs)
    r = rng.random()
    if r < 0.4:
        v['operands']['count'] += rng.choice([1, -1, 2])
        # keep the specific lists in step so that this is the only fault
        for sc in (v['operands'].get('specific_operands') or {}).values():
            pass
        if 'specific_operands' in v['operands']:
            del v['operands']['specific_operands']
    elif r < 0.7:
        v['operands']['operand_sets']['list'].append(v['operands']['operand_sets']['list'][0])
    else:
        if len(v['operands']['operand_sets']['list']) < 1:
            return None
        v['operands']['operand_sets']['list'].pop()
    return d


def f_count_vs_specific(rng, d):
    vs = _variants_with(d, lambda v: 'specific_operands' in (v.get('operands') or {}))
    if not vs:
        return None
    v = rng.choice(vs)
    sc = rng.choice(list(v['operands']['specific_operands'].values()))
    if rng.random() < 0.5 and sc['list']:
        sc['list'].pop(rng.choice(list(sc['list'])))
    else:
        sc['list']['extra_op'] = {'type': 'numeric', 'argument': {'size': 8, 'byte_align': True}}
    return d


def f_undeclared_register(rng, d):
    ocs = [oc for oc in walk_operand_configs(d) if oc.get('type') in REG_TYPES]
    if not ocs:
        return None
    oc = rng.choice(ocs)
    oc['register'] = rng.choice(['q', 'zz', oc['register'].upper(), oc['register'] + '1'])
    return d


def _undeclared_register_in(optype):
    def f(rng, d):
        ocs = [oc for oc in walk_operand_configs(d) if oc.get('type') == optype]
        if not ocs:
            return None
        oc = rng.choice(ocs)
        oc['register'] = rng.choice(['q', 'zz', oc['register'] + '1'])
        return d
    f.__name__ = 'f_undeclared_register_in_' + optype
    return f


f_undeclared_register_in_register = _undeclared_register_in('register')
f_undeclared_register_in_indexed_register = _undeclared_register_in('indexed_register')
f_undeclared_register_in_indirect_register = _undeclared_register_in('indirect_register')
f_undeclared_register_in_indirect_indexed_register = _undeclared_register_in('indirect_indexed_register')


def f_drop_register(rng, d):
    used = sorted({oc['register'] for oc in walk_operand_configs(d) if oc.get('type') in REG_TYPES})
    if not used:
        return None
    d['general']['registers'].remove(rng.choice(used))
    return d


def f_inverted_range(rng, d):
    ocs = [oc for oc in walk_operand_configs(d) if oc.get('type') == 'numeric_bytecode']
    if not ocs:
        return None
    oc = rng.choice(ocs)
    lo, hi = oc['bytecode']['min'], oc['bytecode']['max']
    if rng.random() < 0.5:
        oc['bytecode']['min'], oc['bytecode']['max'] = hi + 1, lo
    else:
        oc['bytecode']['max'] = lo - 1
    return d


def f_inverted_range_max_zero(rng, d):
    # the bounds of an ordinary 0..k range swapped: a maximum of exactly 0 is a maximum
    ocs = [oc for oc in walk_operand_configs(d) if oc.get('type') == 'numeric_bytecode']
    if not ocs:
        return None
    oc = rng.choice(ocs)
    oc['bytecode']['min'], oc['bytecode']['max'] = rng.choice([1, 1, 3]), 0
    return d


def f_count_zero_with_lists(rng, d):
    # an operand count of 0 beside operand lists that are not empty
    vs = _variants_with(d, lambda v: (v.get('operands') or {}).get('count', 0) > 0
                        and ('operand_sets' in v['operands'] or 'specific_operands' in v['operands']))
    if not vs:
        return None
    rng.choice(vs)['operands']['count'] = 0
    return d


def f_inverted_relative_range(rng, d):
    ocs = [oc for oc in walk_operand_configs(d) if oc.get('type') == 'relative_address' and isinstance(oc.get('argument'), dict)]
    if not ocs:
        return None
    oc = rng.choice(ocs)
    lo = rng.choice([10, 0, -3, 1])
    oc['argument']['min'], oc['argument']['max'] = lo, lo - rng.choice([1, 1, 20])
    return d


def f_zone_below_space(rng, d):
    # a zone (GLOBAL itself, so that containment in GLOBAL cannot catch it) that starts below address 0
    zs = [z for z in _zones(d) if z['name'] != 'GLOBAL']
    top = (1 << d['general'].get('address_size', 16)) - 1
    g = {'name': 'GLOBAL', 'start': rng.choice([-1, -16, -0x8000]), 'end': top}
    d['predefined']['memory_zones'] = (zs + [g]) if rng.random() < 0.5 else ([g] + zs)
    return d


def _zones(d):
    return d.setdefault('predefined', {}).setdefault('memory_zones', [])


def f_zone_beyond_space(rng, d):
    _zones(d).append({'name': 'far', 'start': rng.choice([0x8000, 0xFFFF, 0x10000]), 'end': rng.choice([0x10000, 0x1FFFF, 0x10000])})
    return d


def f_global_beyond_space(rng, d):
    # GLOBAL itself reaches one address past the top of the address space (so every other zone is still inside GLOBAL)
    zs = [z for z in _zones(d) if z['name'] != 'GLOBAL']
    top = 1 << d['general'].get('address_size', 16)
    g = {'name': 'GLOBAL', 'start': 0, 'end': rng.choice([top, top, top + 1])}
    d['predefined']['memory_zones'] = (zs + [g]) if rng.random() < 0.5 else ([g] + zs)
    return d


def f_zone_inverted(rng, d):
    s = rng.choice([0x10, 0x200, 0xFFFF])
    _zones(d).append({'name': 'inv', 'start': s, 'end': s - rng.choice([1, 1, 0x10])})
    return d


def f_zone_outside_global(rng, d):
    zs = [z for z in _zones(d) if z['name'] != 'GLOBAL']
    new = [{'name': 'GLOBAL', 'start': 0, 'end': 0x7FFF}, {'name': 'hi', 'start': 0x7000, 'end': 0x8000}]
    rng.shuffle(new)                      # the zone outside GLOBAL may be listed before or after it
    d['predefined']['memory_zones'] = (zs + new) if rng.random() < 0.5 else (new + zs)
    d['general']['origin'] = min(d['general'].get('origin', 0), 0x100)
    for oc in walk_operand_configs(d):
        pass
    return d


def f_global_after_origin(rng, d):
    zs = [z for z in _zones(d) if z['name'] != 'GLOBAL' and z['start'] >= 0xC000]
    d['predefined']['memory_zones'] = zs + [{'name': 'GLOBAL', 'start': 0x9000, 'end': 0xFFFF}]
    d['general']['origin'] = rng.choice([0, 0x100, 0x8FFF])
    return d


def f_min_version_newer(rng, d):
    d['general']['min_version'] = rng.choice(['0.4.3', '0.4.3rc1', '0.4.3b2', '0.4.3b10', '0.4.4', '0.4.10', '0.5', '0.5.0', '0.10.0', '0.40.0',
                                              '1.0.0', '1', '2.0', '10.0.0', '1000.0.0', '0.4.3.1', '0.4.30'])
    return d


def f_min_version_older(rng, d):
    d['general']['min_version'] = rng.choice(['0.2.9', '0.2.10', '0.2', '0.1.0', '0.0.1', '0.3.0rc1', '0.3.0b2', '0.3a1', '0.2.99', '0.29.0a1'][:9]
                                             + ['0'])
    return d


def f_min_version_garbage(rng, d):
    d['general']['min_version'] = rng.choice(['latest', 'x.y.z', '0.4.x', 'newest please', '>=0.4', ''])
    return d


FAULTS = [f_no_general, f_no_instructions, f_no_operand_sets, f_mnemonic_keyword, f_macro_keyword, f_register_keyword,
          f_register_keyword_other_case, f_inverted_relative_range, f_zone_below_space, f_macro_is_instruction_other_case,
          f_inverted_range_max_zero, f_count_zero_with_lists,
          f_undeclared_register_in_register, f_undeclared_register_in_indexed_register, f_undeclared_register_in_indirect_register,
          f_undeclared_register_in_indirect_indexed_register,
          f_macro_is_instruction, f_no_bytecode, f_no_count, f_unknown_set, f_count_vs_sets, f_count_vs_specific,
          f_undeclared_register, f_drop_register, f_inverted_range, f_zone_beyond_space, f_global_beyond_space, f_zone_inverted, f_zone_outside_global,
          f_global_after_origin, f_min_version_newer, f_min_version_older, f_min_version_garbage]


# ------------------------------------------------------------------------------------------------ implementation side
SOURCE = '; verif\n.byte 1\n'


def _write(case, td):
    import yaml
    isa = os.path.join(td, case.get('isa_file', 'isa.yaml'))
    with open(isa, 'w') as f:
        if isa.endswith('.json'):
            import json as _json
            f.write(_json.dumps(case['doc'], indent=1))
        else:
            f.write(yaml.safe_dump(case['doc'], default_flow_style=False, sort_keys=False))
    src = os.path.join(td, 'main.asm')
    with open(src, 'w') as f:
        f.write(case.get('source', SOURCE))
    return isa, src


def impl_compile(case):
    td = tempfile.mkdtemp(prefix='vf_cfg_')
    try:
        isa, src = _write(case, td)
        out = os.path.join(td, 'out.bin')
        res = None
        if case.get('cli'):
            p = subprocess.run([C.PY, '-m', 'bespokeasm', 'compile', '-c', isa, '-o', out, src], capture_output=True, text=True,
                               timeout=120, env=C.impl_env(), cwd=td)
            res = 'accept' if p.returncode == 0 else 'reject'
            if p.returncode == 0 and not os.path.exists(out):
                res = 'accept-without-output'
            return res
        from bespokeasm.assembler.engine import Assembler
        try:
            asm = Assembler(src, isa, True, out, 0, None, 0, False, None, None, 0, [td], [])
            asm.assemble_bytecode()
            return 'accept' if os.path.exists(out) else 'accept-without-output'
        except SystemExit as e:
            return 'accept' if e.code in (0, None) and os.path.exists(out) else 'reject'
        except Exception:       # a traceback is a non-zero exit status at the command line
            return 'reject'
    finally:
        shutil.rmtree(td, ignore_errors=True)


def _obs(c, st, v):
    if st != 'ok':
        return 'None'
    return {'accept': '(Some true)', 'reject': '(Some false)'}.get(v, 'None')


def gen_validate_cases(rng, tier):
    n = 120 if tier == 'quick' else 1500
    out = []
    for i in range(n):
        doc = gen_doc(rng)
        r = rng.random()
        fault = None
        if r < 0.6:
            for _ in range(6):
                f = rng.choice(FAULTS)
                d2 = f(rng, copy.deepcopy(doc))
                if d2 is not None:
                    doc, fault = d2, f.__name__[2:]
                    break
        out.append({'doc': doc, 'fault': fault, 'cli': (i % 8 == 0)})
    # every keyword, in some letter case, as a mnemonic and as a macro name
    base = None
    for kw in KEYWORDS:
        for which in ('instructions', 'macros'):
            for _ in range(20):
                base = gen_doc(rng)
                if base.get(which):
                    break
            if not base.get(which):
                continue
            k = rng.choice(list(base[which]))
            base[which] = _rename_key(base[which], k, _case_variant(rng, kw))
            out.append({'doc': base, 'fault': f'{which[:-1]}_named_{kw.lower()}' if tier != 'quick' else f'keyword_as_{which[:-1]}', 'cli': False})
    # every catalogue entry at least twice per run
    for f in FAULTS:
        got = 0
        for _ in range(40):
            d2 = f(rng, copy.deepcopy(gen_doc(rng)))
            if d2 is not None:
                out.append({'doc': d2, 'fault': f.__name__[2:], 'cli': got == 0})
                got += 1
                if got == 2:
                    break
    return out


def _as_loaded(doc):
    """what yaml.safe_load makes of the file the implementation is given (so that the model sees what the loader sees)"""
    import yaml
    return yaml.safe_load(yaml.safe_dump(doc, default_flow_style=False, sort_keys=False))


def validate_tie():
    # the model reads the document itself (ConfigTree.abstract_doc); the harness only renders the loaded YAML as a tree
    return Tie(name='validate', imports=['Base', 'Config', 'ConfigTree'], run_def='fun d => Some (run_validate_doc d)', eqb='obs_bool_eqb',
               gen=gen_validate_cases, impl=impl_compile, case_term=lambda c: tree_term(_as_loaded(c['doc'])), obs_term=_obs,
               nontrivial=lambda c: True, classify=lambda c: c['fault'] or 'well-formed', shard=40, timeout=180)


# ---- min_version gate on its own: many version texts against the running / minimum-supported versions
def gen_gate_cases(rng, tier):
    n = 100 if tier == 'quick' else 1200
    base = {'general': {'address_size': 16, 'endian': 'big', 'registers': ['a']},
            'operand_sets': {'s': {'operand_values': {'n': {'type': 'numeric', 'argument': {'size': 8, 'byte_align': True}}}}},
            'instructions': {'nop': {'bytecode': {'value': 0, 'size': 8}}}}
    out = []
    fixed = ['0.4.3b1', '0.4.3', '0.4.10', '0.4.3b2', '0.4.3b0', '0.4.3a9', '0.4.3rc1', '0.4.2', '0.3.0', '0.3', '0.2.99', '0.10.0', '0.3.0rc1',
             '0.4', '0.40', '0.04.03b1', '0.3.00']
    for s in fixed + [gen_version(rng, near=rng.choice([RUNNING, MIN_SUPPORTED, None])) for _ in range(n)]:
        d = copy.deepcopy(base)
        d['general']['min_version'] = s
        c = {'doc': d, 'version': s, 'cli': False}
        if len(out) % 3 == 1:
            c['isa_file'] = 'isa.json'           # the same definition written as JSON
        out.append(c)
    return out


def gate_tie():
    def cls(c):
        from packaging import version
        v = version.parse(c['version'])
        return 'newer' if v > version.parse(RUNNING) else ('older' if v < version.parse(MIN_SUPPORTED) else 'in-range')
    return Tie(name='gate', imports=['Base', 'Config'], run_def='fun s => Some (run_gate_text s)', eqb='obs_bool_eqb',
               gen=gen_gate_cases, impl=impl_compile, case_term=lambda c: C.coq_string_codes(c['version']), obs_term=_obs,
               classify=cls, shard=200, timeout=120)


# ---- #require
OPS = {'>=': 'RGe', '<=': 'RLe', '>': 'RGt', '<': 'RLt', '==': 'REq'}


def gen_require_cases(rng, tier):
    n = 120 if tier == 'quick' else 1500
    out = []
    doc0 = lambda name, v: {'general': {'address_size': 16, 'endian': 'big', 'registers': ['a'], 'identifier': {'name': name, 'version': v}},
                            'operand_sets': {'s': {'operand_values': {'n': {'type': 'numeric', 'argument': {'size': 8, 'byte_align': True}}}}},
                            'instructions': {'nop': {'bytecode': {'value': 0, 'size': 8}}}}
    # a pre-release sorts before its release: both ways round, every operator
    for base in ('2.0.0', '0.10.0', '1.2'):
        for pre in ('rc1', 'b2', 'a10'):
            for op in OPS:
                for isa_v, req_v in ((base + pre, base), (base, base + pre), (base + pre, base + 'rc2')):
                    out.append({'doc': doc0('verif-gen', isa_v), 'source': f'#require "verif-gen {op} {req_v}"\n.byte 1\n', 'isa_name': 'verif-gen',
                                'isa_version': isa_v, 'req_name': 'verif-gen', 'op': op, 'req_version': req_v, 'cli': False})
    for _ in range(n):
        name = rng.choice(['verif-gen', 'cpu_x', 'my.isa', 'Z80', 'a'])
        isa_v = gen_version(rng)
        req_name = name if rng.random() < 0.8 else rng.choice(['verif-gen', 'cpu_x', 'my.isa', 'Z80', name.upper(), name + '2', name[:-1]])
        if rng.random() < 0.85:
            op = rng.choice(list(OPS))
            req_v = gen_version(rng, near=isa_v)
            sp = rng.choice([' ', '', '  '])
            line = f'#require "{req_name}{sp}{op}{sp}{req_v}"'
        else:
            op = req_v = None
            line = f'#require "{req_name}"'
        d = {'general': {'address_size': 16, 'endian': 'big', 'registers': ['a'], 'identifier': {'name': name, 'version': isa_v}},
             'operand_sets': {'s': {'operand_values': {'n': {'type': 'numeric', 'argument': {'size': 8, 'byte_align': True}}}}},
             'instructions': {'nop': {'bytecode': {'value': 0, 'size': 8}}}}
        out.append({'doc': d, 'source': f'{line}\n.byte 1\n', 'isa_name': name, 'isa_version': isa_v, 'req_name': req_name, 'op': op,
                    'req_version': req_v, 'cli': rng.random() < 0.05})
    # a definition without an identifier: the language is named after the configuration file (its name without the
    # final extension, so 'tiny-cpu.v2.yaml' defines 'tiny-cpu.v2'), version 0.0.1
    for fname in ('tiny-cpu.v2.yaml', 'z80.yaml', 'my.cpu.rev.b.yaml', 'plain.json.yaml'):
        stem = fname.rsplit('.', 1)[0]
        for req_name in (stem, stem.split('.')[0], stem + '.x'):
            for op, req_v in ((None, None), ('>=', '0.0.1'), ('==', '0.0.2')):
                line = f'#require "{req_name}"' if op is None else f'#require "{req_name} {op} {req_v}"'
                d = doc0('unused', '1.0.0')
                del d['general']['identifier']
                out.append({'doc': d, 'isa_file': fname, 'source': f'{line}\n.byte 1\n', 'isa_name': stem, 'isa_version': '0.0.1',
                            'req_name': req_name, 'op': op, 'req_version': req_v, 'cli': False})
    return out


def require_tie():
    def term(c):
        cond = 'None' if c['op'] is None else f'(Some ({OPS[c["op"]]}, {C.coq_string_codes(c["req_version"])}))'
        return (f'({C.coq_string_codes(c["isa_name"])}, {C.coq_string_codes(c["isa_version"])}, '
                f'{C.coq_string_codes(c["req_name"])}, {cond})')

    def cls(c):
        return ('name-mismatch' if c['req_name'] != c['isa_name'] else 'name-ok') + ('' if c['op'] is None else ' ' + c['op'])
    return Tie(name='require', imports=['Base', 'Config'], run_def='run_require_text', eqb='obs_bool_eqb',
               gen=gen_require_cases, impl=impl_compile, case_term=term, obs_term=_obs, classify=cls, shard=200, timeout=120)

"""Apply a seeded change to /repo, run the given checks, undo it. Usage: mutant_run.py <patch.diff> <pid> [<pid>...]"""
import subprocess
import sys


def sh(cmd, **kw):
    return subprocess.run(cmd, shell=True, capture_output=True, text=True, **kw)


def main():
    patch = sys.argv[1]
    pids = sys.argv[2:]
    st = sh('git -C /repo status --porcelain')
    if st.stdout.strip():
        print('REPO NOT CLEAN', st.stdout)
        sys.exit(2)
    r = sh(f'git -C /repo apply {patch}')
    if r.returncode != 0:
        r = sh(f'cd /repo && patch -p1 --fuzz=3 < {patch}')
        if r.returncode != 0:
            print('PATCH DOES NOT APPLY', r.stdout[-500:], r.stderr[-500:])
            sh('git -C /repo checkout -- . && git -C /repo clean -fdq')
            sys.exit(3)
    try:
        for pid in pids:
            r = sh(f'cd /verif && ./check {pid} --tier quick', timeout=3000)
            lines = [l for l in r.stdout.splitlines() if 'VIOLATION' in l or 'done rc' in l or 'tie ' in l or 'oracle ' in l]
            print(f'== {pid}: exit={r.returncode}')
            for l in lines[:12]:
                print('   ', l)
    finally:
        sh('git -C /repo checkout -- . && git -C /repo clean -fdq')
        print(sh('git -C /repo status --porcelain').stdout)


main()

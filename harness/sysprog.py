"""Seeded generator of abstract programs for the system-level ties (profiles bias it per property).

Two phases: (1) a skeleton of statements is laid out while the generator tracks the (approximate) address cursor of
every memory zone, the open local-label region and the names defined so far; (2) expressions are filled in from the
pool of names that are visible and really defined.  Faults (things the assembler must reject) are injected
separately, one per faulty program, so that most programs are valid."""
from __future__ import annotations

from .sysgen import INSTR_SIZES, num
from .ties_expr import gen_literal

GLOBALS = ['start', 'loop', 'done', 'table', 'buf', 'main', 'sub1', 'sub2', 'vec9', 'tail']
FILEL = ['_f1', '_f2', '_tmp']
LOCALS = ['.l1', '.l2', '.next', '.x']
CONSTS = ['K1', 'K2', 'SIZE', 'BASE', '_fk']
SYMS = ['DEBUG', 'MODE', 'FEATURE', 'LEVEL']

DEFAULT_W = dict(label=10, const=3, instr=24, data=10, string=4, fill=4, zerountil=2, org=2, orgrel=2, memzone=3, align=3,
                 createzone=1, cond=5, mute=2, other=2, define=1)

FAULTS = ['diamond_include', 'includer_file_label', 'nested_dup_include', 'undef_ref', 'register_ref', 'local_no_region', 'dup_label', 'neg_fill', 'align0', 'bad_escape', 'overflow',
          'unknown_zone', 'org_out', 'overlap', 'dup_include', 'missing_include', 'ambiguous_include', 'unmatched',
          'dup_zone', 'bad_zone', 'enum_bad', 'range_bad', 'const_fwd', 'dup_define', 'keyword_label', 'cross_region',
          'cross_file', 'dup_label_same_line', 'register_label_other_case', 'dup_isa_symbol']


def base_cfg(rng, prof):
    cfg = dict(addr_bits=16, endian=rng.choice(['little', 'big']), origin=rng.choice([0, 0, 0, 16, 256]),
               page=rng.choice([1, 1, 4, 6, 16, 256]), terminator=rng.choice([0, 0, 3, 10, 127, 128, 255]),
               embedded=rng.random() < 0.3, zones=[], consts=[], data=[], syms=[], cli=[])
    if rng.random() < prof.get('p_zones', 0.5):
        cfg['zones'] = [['ram', 0x200, 0x2ff], ['rom', 0x400, 0x47f]]
        if rng.random() < 0.4:
            cfg['zones'].append(['vec', 0x460, 0x47f])           # nested in rom
        if rng.random() < prof.get('p_global', 0.3):
            gs = rng.choice([0, 0x10, 0x100])
            # now and then a GLOBAL that does not contain all predefined zones (0x3ff, 0x43f): rejected wherever in the list it stands
            ge = rng.choice([0x0fff, 0x7fff, 0x0fff, 0x7fff, 0x7fff, 0x0fff, 0x3ff, 0x43f])
            cfg['zones'].insert(rng.randrange(len(cfg['zones']) + 1), ['GLOBAL', gs, ge])
            cfg['origin'] = max(cfg['origin'], gs)
    if rng.random() < 0.4:
        cfg['consts'] = [['PRE_A', rng.choice([1, 7, 300])], ['PRE_B', rng.choice([2, 64])]]
    if rng.random() < prof.get('p_data', 0.25):
        cfg['data'] = [['pdata', rng.choice([0x300, 0x310, 0x3f8]), rng.choice([0, 0xAA, 0x1FF]), rng.choice([1, 2, 4])]]
    if rng.random() < 0.15:
        cfg['upper_regs'] = True
    if rng.random() < 0.3:
        cfg['syms'] = [[rng.choice(SYMS), rng.choice(['0', '1', '5', '1', None])]]
        if rng.random() < 0.06:
            cfg['syms'].append([cfg['syms'][0][0], '7'])          # the same symbol listed twice in the configuration: rejected
    if rng.random() < 0.3:
        s = rng.choice([x for x in SYMS if x not in [y[0] for y in cfg['syms']]])
        cfg['cli'] = [[s, rng.choice(['0', '1', '2', '', '1=1', '1,2'])]]       # (the name ends at the first '=')
    return cfg


class ProgGen:
    def __init__(self, rng, prof, tier):
        self.rng = rng
        self.prof = prof
        self.tier = tier
        self.w = dict(DEFAULT_W)
        self.w.update(prof.get('w', {}))
        self.cfg = base_cfg(rng, prof)
        g = [z for z in self.cfg['zones'] if z[0] == 'GLOBAL']
        self.gstart, self.gend = (g[0][1], g[0][2]) if g else (0, 0xffff)
        self.zones = {'GLOBAL': [self.gstart, self.gend]}
        for n, s, e in self.cfg['zones']:
            if n != 'GLOBAL':
                self.zones[n] = [s, e]
        self.cursor = {n: z[0] for n, z in self.zones.items()}
        self.cursor['GLOBAL'] = self.cfg['origin']
        self.defined_syms = set([s[0] for s in self.cfg['syms']] + [s[0] for s in self.cfg['cli']])
        self.region_counter = 0

    # ------------------------------------------------------------------ phase 1: skeleton
    def new_file_state(self, fidx):
        return {'fidx': fidx, 'zone': 'GLOBAL', 'region': None, 'locals': [], 'in_cond': 0}

    def skeleton(self, n, fs, depth, top):
        """returns list of [stmt, ctx] where ctx records what is visible at that statement"""
        rng = self.rng
        out = []
        kinds = list(self.w)
        weights = [self.w[k] for k in kinds]

        def ctx():
            return {'fidx': fs['fidx'], 'region': fs['region'], 'zone': fs['zone'], 'addr': self.cursor[fs['zone']],
                    'in_cond': fs['in_cond']}

        def emit(st, size=0):
            out.append([st, ctx()])
            self.cursor[fs['zone']] += size

        for _ in range(n):
            k = rng.choices(kinds, weights)[0]
            if k == 'label':
                r = rng.random()
                if r < 0.5 and self.globals_left:
                    nm = self.globals_left.pop(0)
                    self.region_counter += 1
                    fs['region'] = self.region_counter
                    fs['locals'] = []
                    emit(['label', nm])
                    self.defs.append(('g', nm, None, None, fs['in_cond']))
                elif r < 0.62:
                    cands = [x for x in FILEL if (fs['fidx'], x) not in self.file_names]
                    if cands:
                        nm = rng.choice(cands)
                        self.file_names.add((fs['fidx'], nm))
                        self.region_counter += 1
                        fs['region'] = self.region_counter
                        fs['locals'] = []
                        emit(['label', nm])
                        self.defs.append(('f', nm, fs['fidx'], None, fs['in_cond']))
                elif fs['region'] is not None and fs['in_cond'] == 0:
                    cands = [x for x in LOCALS if x not in fs['locals']]
                    if cands:
                        nm = rng.choice(cands)
                        fs['locals'].append(nm)
                        emit(['label', nm])
                        self.defs.append(('l', nm, fs['fidx'], fs['region'], 0))
            elif k == 'const':
                if self.consts_left and fs['in_cond'] == 0:
                    nm = self.consts_left.pop(0)
                    if nm.startswith('_') and (fs['fidx'], nm) in self.file_names:
                        continue
                    emit(['const', nm, None])
                    if nm.startswith('_'):
                        self.file_names.add((fs['fidx'], nm))
                        self.defs.append(('fc', nm, fs['fidx'], None, 0))
                    else:
                        self.defs.append(('c', nm, None, None, 0))
            elif k == 'instr':
                mn = rng.choice(list(INSTR_SIZES))
                emit(['instr', mn, None], INSTR_SIZES[mn])
            elif k == 'data':
                w = rng.choice([1, 1, 2, 2, 4, 8])
                cnt = rng.randint(1, 4)
                if w in (2, 4) and rng.random() < 0.12:
                    # a quoted string under a wide data directive: one value of that width per character
                    txt = ''.join(rng.choice('ABCxyz019 _') for _ in range(cnt))
                    emit(['data', w, [num(ord(c)) for c in txt], {'as_string': txt, 'quote': rng.choice(['"', "'"])}], w * cnt)
                else:
                    emit(['data', w, [None] * cnt], w * cnt)
            elif k == 'string':
                st, size = self.gen_string()
                emit(st, size)
            elif k == 'fill':
                cnt = rng.choice([0, 1, 2, 3, 5, 8, 17])
                if rng.random() < self.prof.get('p_bigfill', 0):
                    cnt = rng.choice([16, 32, 48, 64, 33])        # whole rows of the compact hex format
                if rng.random() < 0.5:
                    emit(['fill', num(cnt) if rng.random() < 0.8 else ('bin', '+', num(cnt), ('num', '0')), None], cnt)
                else:
                    emit(['zero', num(cnt)], cnt)
            elif k == 'zerountil':
                a = self.cursor[fs['zone']]
                t = max(0, a + rng.choice([-5, -1, 0, 1, 2, 7, 16]))
                emit(['zerountil', num(t)], max(0, t - a + 1))
            elif k == 'org':
                # jump forward to a free area of GLOBAL most of the time
                tgt = max(self.cursor.values()) if rng.random() < 0.8 else self.cursor['GLOBAL']
                free = self.next_free_global()
                tgt = free + rng.choice([0, 1, 0x10, 0x40])
                if tgt > self.gend:
                    continue
                fs['zone'] = 'GLOBAL'
                fs['region'] = None
                fs['locals'] = []
                self.cursor['GLOBAL'] = tgt
                emit(['org', num(tgt), None])
            elif k == 'orgrel':
                z = rng.choice(list(self.zones))
                off = self.cursor[z] - self.zones[z][0] + rng.choice([0, 0, 1, 4])
                if self.zones[z][0] + off > self.zones[z][1]:
                    continue
                fs['zone'] = z
                fs['region'] = None
                fs['locals'] = []
                self.cursor[z] = self.zones[z][0] + off
                emit(['org', num(off), z])
            elif k == 'memzone':
                z = rng.choice(list(self.zones))
                fs['zone'] = z
                fs['region'] = None
                fs['locals'] = []
                emit(['memzone', z])
            elif k == 'align':
                p = rng.choice([None, None, 1, 2, 4, 6, 8, 10, 16, 24])
                page = self.cfg['page'] if p is None else p
                a = self.cursor[fs['zone']]
                na = a if a % page == 0 else a + (page - a % page)
                self.cursor[fs['zone']] = na
                emit(['align', None if p is None else num(p)])
            elif k == 'createzone' and fs['in_cond'] == 0:
                cands = [x for x in ['zc1', 'zc2'] if x not in self.zones]
                if cands:
                    nm = cands[0]
                    s = {'zc1': 0x500, 'zc2': 0x600}[nm]
                    if s < self.gstart or s + 0xff > self.gend:
                        continue
                    e = s + rng.choice([0, 3, 0x0f, 0xff])
                    self.zones[nm] = [s, e]
                    self.cursor[nm] = s
                    emit(['createzone', nm, s, e])
            elif k == 'cond' and depth > 0:
                saved = dict(self.cursor)
                emit(['if', self.cond()])
                fs['in_cond'] += 1
                out += self.skeleton(rng.randint(0, 3), fs, depth - 1, False)
                for _ in range(rng.choice([0, 0, 1, 2])):
                    c = self.cond()
                    if c[0] in ('ifdef', 'ifndef'):
                        c = ['bare', c[1]]
                    emit(['elif', c])
                    out += self.skeleton(rng.randint(0, 3), fs, depth - 1, False)
                if rng.random() < 0.5:
                    emit(['else'])
                    out += self.skeleton(rng.randint(0, 3), fs, depth - 1, False)
                fs['in_cond'] -= 1
                emit(['endif'])
                # at most one branch is assembled: cursors advanced by all of them are an over-estimate, which is fine
                _ = saved
            elif k == 'mute':
                emit([rng.choice(['mute', 'unmute'])])
            elif k == 'define' and fs['in_cond'] == 0:
                cands = [s for s in SYMS if s not in self.defined_syms]
                if cands:
                    s = rng.choice(cands)
                    self.defined_syms.add(s)
                    emit(['define', s, rng.choice(['0', '1', '2', '5'])])
            elif k == 'other':
                emit(['other'])
        return out

    def next_free_global(self):
        hi = self.cursor['GLOBAL']
        for n, z in self.zones.items():
            if n != 'GLOBAL':
                hi = max(hi, z[1] + 1)
        for d in self.cfg['data']:
            hi = max(hi, d[1] + d[3])
        return hi

    def gen_string(self):
        rng = self.rng
        kind = rng.choice(['byte', 'cstr', 'asciiz'] + (['embedded'] if self.cfg['embedded'] else []))
        q = '"' if kind == 'embedded' else rng.choice(['"', "'"])
        chars = []
        n = 0
        for _ in range(rng.randint(0, 8)):
            r = rng.random()
            if r < 0.7:
                chars.append(rng.choice('abcXYZ 019!#$%&()*+,-./:;;<=>?@[]^_{|}~'))
            else:
                chars.append(rng.choice(['\\n', '\\t', '\\r', '\\0', '\\\\', '\\x41', '\\x7f', '\\xff', '\\x00', '\\a', '\\101', '\\7',
                                         '\\' + q, '\\q', '\\e']))
            n += 1
        return ['str', kind, q, ''.join(chars)], n + (0 if kind == 'byte' else 1)

    def cond(self):
        rng = self.rng
        r = rng.random()
        if r < 0.4:
            return [rng.choice(['ifdef', 'ifndef']), rng.choice(SYMS)]
        if r < 0.55:
            return ['bare', rng.choice(SYMS + ['0', '1'])]
        return ['cmp', rng.choice(SYMS + ['2']), rng.choice(['==', '!=', '>', '>=', '<', '<=']), rng.choice(['0', '1', '2', '5', '10'])]

    # ------------------------------------------------------------------ phase 2: expressions
    def visible(self, ctx, for_const=False, const_index=None):
        pool = []
        for kind, nm, fidx, region, in_cond in self.defs:
            if in_cond:
                continue
            if kind == 'g' and not for_const:
                pool.append(nm)
            elif kind == 'f' and fidx == ctx['fidx'] and not for_const:
                pool.append(nm)
            elif kind == 'l' and fidx == ctx['fidx'] and region == ctx['region'] and ctx['region'] is not None and not for_const:
                pool.append(nm)
            elif kind == 'c' and not for_const:
                pool.append(nm)
            elif kind == 'fc' and fidx == ctx['fidx'] and not for_const:
                pool.append(nm)
        pool += [n for n, _ in self.cfg['consts']] + [d[0] for d in self.cfg['data']]
        if for_const:
            pool += self.consts_done
        return pool

    def expr(self, ctx, depth=2, pool=None):
        rng = self.rng
        pool = self.visible(ctx) if pool is None else pool
        r = rng.random()
        if depth <= 0 or r < 0.45:
            if pool and rng.random() < self.prof.get('p_ref', 0.5):
                return ('lab', rng.choice(pool))
            return ('num', gen_literal(rng, rng.choice([0, 1, 2, 3, 5, 9, 15, 16, 100, 127, 128, 255, 256, 1000, 0x1234, 65535])))
        if r < 0.55:
            return ('fun', rng.choice(['LSB(', 'BYTE0(', 'BYTE1(', 'BYTE2(']), self.expr(ctx, depth - 1, pool))
        if r < 0.6:
            return ('neg', self.expr(ctx, depth - 1, pool))
        op = rng.choice(['+', '+', '-', '*', '&', '|', '>>', '/', '%', '^', '<<'])
        right = self.expr(ctx, depth - 1, pool)
        if op in ('<<', '>>'):
            right = ('num', str(rng.randint(0, 9)))
        if op in ('/', '%'):
            right = ('num', str(rng.randint(1, 9)))
        return ('bin', op, self.expr(ctx, depth - 1, pool), right)

    def byte_expr(self, ctx):
        rng = self.rng
        r = rng.random()
        if r < 0.5:
            return ('num', gen_literal(rng, rng.choice([0, 1, 2, 7, 15, 16, 127, 128, 200, 255])))
        if r < 0.8:
            return ('fun', rng.choice(['LSB(', 'BYTE0(', 'BYTE1(']), self.expr(ctx))
        if r < 0.9:
            return ('neg', ('num', str(rng.choice([1, 2, 127, 128]))))
        return ('bin', '&', self.expr(ctx), ('num', '$ff'))

    def addr_expr(self, ctx):
        """an address inside GLOBAL"""
        rng = self.rng
        pool = [n for n in self.visible(ctx) if n not in [c[0] for c in self.cfg['consts']] and not n.startswith('K')
                and n not in ('SIZE', 'BASE', '_fk')]
        if pool and rng.random() < 0.7:
            return ('lab', rng.choice(pool))
        return num(rng.choice([self.gstart, self.gstart + 1, self.gend, max(self.gstart, 0x300), max(self.gstart, 0x1234 & self.gend)]))

    def fill(self, skel):
        rng = self.rng
        self.consts_done = []
        for st, ctx in skel:
            k = st[0]
            if k == 'const':
                pool = self.visible(ctx, for_const=True)
                e = rng.choice([num(rng.choice([0, 1, 4, 16, 255, 1000])), self.expr(ctx, 1, pool)])
                st[2] = e
                if not st[1].startswith('_'):
                    self.consts_done.append(st[1])
            elif k == 'instr':
                mn = st[1]
                a = ctx['addr']
                if mn in ('nop', 'hlt'):
                    st[2] = []
                elif mn == 'ldi':
                    st[2] = [rng.choice(['a', 'b']), self.byte_expr(ctx)]
                elif mn in ('jmp', 'jbe', 'jle'):
                    st[2] = [rng.choice([self.addr_expr(ctx), self.expr(ctx, 1), num(rng.choice([0, 65535, 0x1234]))])]
                    if rng.random() < 0.5:
                        st[2] = [self.addr_expr(ctx)]
                elif mn in ('call', 'lea'):
                    st[2] = [self.addr_expr(ctx)]
                elif mn == 'jr':
                    lo, hi = max(self.gstart, a - 128), min(self.gend, a + 127)
                    if lo > hi:           # the estimated address lies outside GLOBAL: any target will do
                        lo = hi = max(self.gstart, min(self.gend, a))
                    st[2] = [num(rng.choice([lo, hi, a, min(hi, a + 2), max(lo, a - 2), rng.randint(lo, hi)]))]
                elif mn == 'jre':
                    lo, hi = max(self.gstart, a + 1 - 20), min(self.gend, a + 1 + 20)
                    if lo > hi:
                        lo = hi = max(self.gstart, min(self.gend, a))
                    st[2] = [num(rng.choice([lo, hi, a, rng.randint(lo, hi)]))]
                elif mn == 'jz':
                    page = a & ~0xff
                    st[2] = [num(max(self.gstart, min(self.gend, page + rng.choice([0, 1, 0x7f, 0xff]))))]
                elif mn == 'jl12':
                    page = a & ~0xfff
                    tgt = page + rng.choice([0, 1, 0x7ff, 0xfff, 0x100])
                    if rng.random() < 0.08:
                        tgt = page + rng.choice([0x1000, 0x1fff, -1, 0x2345])      # another 4K page: must be rejected
                    st[2] = [num(max(self.gstart, min(self.gend, tgt)))]
                elif mn == 'setn':
                    st[2] = [num(rng.choice([0, 1, 7, 14, 15]))]
                elif mn == 'bset':
                    st[2] = [num(rng.choice([0, 1, 6, 7]))]
                elif mn == 'lda':
                    st[2] = [num(rng.choice([0, 1, 0xabc, 0xfff, 0x800, -1, -2048]))]
                elif mn == 'pick':
                    st[2] = [num(rng.choice([1, 2, 5, 12]))]
            elif k == 'data' and len(st) > 3:
                pass            # a quoted string under a wide data directive: its character codes are the values
            elif k == 'data':
                st[2] = [rng.choice([self.expr(ctx), self.expr(ctx),
                                     num(rng.choice([-1, -128, -32769, 255, 256, 65535, 65536, 2**32, 2**64 - 1, 2**64 + 5, -2**63]))])
                         for _ in st[2]]
            elif k == 'fill':
                st[2] = rng.choice([num(rng.choice([0, 0xEE, 255, 256, 0x1AB, -1])), self.expr(ctx)])

    # ------------------------------------------------------------------ faults
    def inject_fault(self, files, case):
        rng = self.rng
        kind = self.prof.get('force_fault') or rng.choice(FAULTS)
        main = files[0]['stmts']
        # only at nesting depth 0: the implementation parses (and may reject) lines of unselected branches too,
        # which the property does not speak about and the model does not mirror
        depth = 0
        tops = [0]
        for i, st in enumerate(main):
            if st[0] == 'if':
                depth += 1
            elif st[0] == 'endif':
                depth -= 1
            if depth == 0:
                tops.append(i + 1)
        pos = rng.choice(tops)
        if kind == 'undef_ref':
            lab = ('lab', rng.choice(['nosuch', '.nolocal', '_nofile']))
            main.insert(pos, rng.choice([['data', 2, [lab]], ['data', 2, [lab]], ['data', 1, [num(1), lab]], ['fill', num(0), lab],
                                         ['fill', num(2), lab], ['fill', lab, num(0)], ['zero', lab], ['zerountil', lab],
                                         ['instr', 'jmp', [lab]], ['org', lab, None], ['const', 'KUNRES', lab]]))
        elif kind == 'register_ref':
            main.insert(pos, ['data', 1, [('bin', '+', ('lab', rng.choice(['a', 'sp', 'A', 'Sp'])), ('num', '1'))]])
        elif kind == 'local_no_region':
            main.insert(0, ['label', '.early'])
        elif kind == 'dup_label':
            labs = [i for i, st in enumerate(main) if st[0] in ('label', 'const')]
            if labs:
                i = rng.choice(labs)
                # half of the time right behind the original: same scope, same value
                main.insert(i + 1 if rng.random() < 0.5 else pos, list(main[i]))
        elif kind == 'dup_label_same_line' and len(files) > 1:
            # the same global name defined in the main file and in an included file, on the same line number of each
            inc = files[rng.randrange(1, len(files))]['stmts']
            j = rng.randint(0, min(len(main), len(inc)))
            d = rng.choice([['label', 'xdup'], ['label', 'xdup'], ['const', 'XDUP', num(5)]])
            main.insert(j, list(d))
            inc.insert(j, list(d))
        elif kind == 'register_label_other_case':
            # a register name is a register name in any letter case, however the configuration spells it
            up = rng.random() < 0.5
            self.cfg['upper_regs'] = up
            nm = rng.choice(['a', 'sp', 'b']) if up else rng.choice(['A', 'SP', 'Sp'])
            main.insert(pos, rng.choice([['label', nm], ['const', nm, num(3)]]))
        elif kind == 'dup_isa_symbol':
            s0 = rng.choice(SYMS)
            self.cfg['syms'] = [[s0, rng.choice(['1', '5'])], [s0, rng.choice(['2', '5'])]]
            main.insert(pos, ['data', 1, [num(1)]])
        elif kind == 'neg_fill':
            main.insert(pos, ['fill', num(-2), num(9)])
        elif kind == 'align0':
            main.insert(pos, ['align', num(rng.choice([0, -4]))])
        elif kind == 'bad_escape':
            main.insert(pos, ['str', 'byte', '"', rng.choice(['ab\\x4', 'q\\', '\\xg1'])])
        elif kind == 'overflow':
            main.insert(pos, rng.choice([['instr', 'ldi', ['a', num(rng.choice([256, 300, -129]))]],
                                         ['instr', 'lda', [num(rng.choice([0x1000, -2049]))]],
                                         ['instr', 'jmp', [num(rng.choice([65536, -32769]))]]]))
        elif kind == 'unknown_zone':
            main.insert(pos, rng.choice([['memzone', 'nozone'], ['org', num(0), 'nozone']]))
        elif kind == 'org_out':
            main.insert(pos, ['org', num(rng.choice([self.gend + 1, 0x10000, 0x12345])), None])
        elif kind == 'overlap':
            main.append(['org', num(self.cfg['origin']), None])
            main.append(['data', 1, [num(1), num(2), num(3)]])
            main.insert(0, ['data', 1, [num(7), num(8)]])
        elif kind == 'dup_include' and len(files) > 1:
            main.append(['include', 1, files[1]['name']])
        elif kind == 'missing_include':
            main.insert(pos, ['include', None, 'missing.asm'])
        elif kind == 'ambiguous_include' and len(files) > 1:
            other = 'lib' if files[1]['dir'] == 'src' else 'src'
            case['extra_files'].append({'dir': other, 'name': files[1]['name'], 'text': '; shadow\n'})
            for st in main:
                if st[0] == 'include' and st[1] == 1:
                    st[1] = None
        elif kind == 'unmatched':
            main.insert(pos, rng.choice([['endif'], ['else'], ['elif', ['bare', '1']]]))
        elif kind == 'dup_zone':
            main.insert(pos, ['createzone', rng.choice(list(self.zones)), 0x700, 0x70f])
        elif kind == 'bad_zone':
            main.insert(pos, rng.choice([['createzone', 'zbad', 0x710, 0x70f], ['createzone', 'zbad', 0xfff0, 0x1000f],
                                         ['createzone', 'zbad', max(0, self.gstart - 1) if self.gstart else 0x8000, self.gend + 1]]))
        elif kind == 'enum_bad':
            main.insert(pos, ['instr', 'pick', [num(rng.choice([0, 3, 13]))]])
        elif kind == 'range_bad':
            main.insert(pos, rng.choice([['instr', 'setn', [num(rng.choice([16, -1]))]], ['instr', 'bset', [num(8)]]]))
        elif kind == 'const_fwd':
            main.insert(0, ['const', 'KFWD', ('lab', 'KLATER')])
            main.append(['const', 'KLATER', num(3)])
        elif kind == 'dup_define':
            main.insert(pos, ['define', 'DUPSYM', '1'])
            main.insert(pos, ['define', 'DUPSYM', '1'])
        elif kind == 'keyword_label':
            main.insert(pos, ['label', rng.choice(['org', 'byte', '_fill', '.zero', 'BYTE1', 'define', 'A', 'SP', 'b'])])   # keywords, registers in any case
        elif kind == 'cross_region':
            main += [['label', 'ra_1'], ['label', '.only_here'], ['instr', 'nop', []], ['label', 'rb_2'],
                     ['data', 2, [('lab', '.only_here')]]]
        elif kind == 'cross_file' and len(files) > 1:
            files[1]['stmts'].append(['label', '_only_inc'])
            main.append(['data', 2, [('lab', '_only_inc')]])
        elif kind == 'includer_file_label' and len(files) > 1:
            # the included file uses a file-scoped label that only its includer defines
            main.insert(0, ['label', '_only_main'])
            files[-1]['stmts'].append(['data', 2, [('lab', '_only_main')]])
        elif kind == 'diamond_include' and len(files) > 2:
            # file 2 is included by the main file and (again) by file 1
            files[1]['stmts'].append(['include', 2, files[2]['name']])
            if not any(st[0] == 'include' and st[1] == 2 for f in files[:1] for st in f['stmts']):
                main.append(['include', 2, files[2]['name']])
        elif kind == 'nested_dup_include' and len(files) > 2:
            # file 1 includes file 2 first, the main file includes it again later
            files[1]['stmts'].insert(0, ['include', 2, files[2]['name']])
            main[:] = [st for st in main if not (st[0] == 'include' and st[1] == 2)]
            idx1 = [i for i, st in enumerate(main) if st[0] == 'include' and st[1] == 1]
            main.insert((idx1[0] + 1) if idx1 else len(main), ['include', 2, files[2]['name']])
        return kind

    # ------------------------------------------------------------------ whole case
    def generate(self):
        rng = self.rng
        allow_inc = self.prof.get('p_include', 0.3)
        nfiles = 1 + (rng.choice([1, 1, 2]) if rng.random() < allow_inc else 0)
        self.globals_left = rng.sample(GLOBALS, rng.randint(1, 6))
        self.consts_left = rng.sample(CONSTS, rng.randint(0, 3))
        self.defs = []
        self.file_names = set()
        n = rng.randint(3, 14) if self.tier == 'quick' else rng.randint(3, 40)
        # main file with include points at top level
        skels = {}
        fs = self.new_file_state(0)
        inc_at = sorted(rng.sample(range(n + 1), min(nfiles - 1, n + 1))) if nfiles > 1 else []
        main_skel = []
        done = 0
        for j, at in enumerate(inc_at):
            main_skel += self.skeleton(at - done, fs, 2, True)
            done = at
            idx = j + 1
            if rng.random() < self.prof.get('p_org_before_include', 0.15):
                # an origin directly in front of the include: the included file's first line shares the .org line's address
                tgt = self.next_free_global() + rng.choice([0, 4, 0x10])
                if tgt <= self.gend - 0x40:
                    fs['zone'] = 'GLOBAL'
                    fs['region'] = None
                    fs['locals'] = []
                    self.cursor['GLOBAL'] = tgt
                    main_skel.append([['org', num(tgt), None], {'fidx': 0, 'region': None, 'zone': 'GLOBAL', 'addr': tgt, 'in_cond': 0}])
            main_skel.append([['include', idx, f'inc{idx}.asm'], {'fidx': 0, 'region': fs['region'], 'zone': fs['zone'], 'addr': 0, 'in_cond': 0}])
            ifs = self.new_file_state(idx)
            skels[idx] = self.skeleton(rng.randint(1, 6), ifs, 1, True)
        main_skel += self.skeleton(n - done, fs, 2, True)
        skels[0] = main_skel
        for idx in sorted(skels):
            self.fill(skels[idx])
        files = [{'name': 'main.asm', 'dir': 'src', 'stmts': [st for st, _ in skels[0]]}]
        for idx in range(1, nfiles):
            files.append({'name': f'inc{idx}.asm', 'dir': rng.choice(['src', 'lib']), 'stmts': [st for st, _ in skels[idx]]})
        if nfiles > 2 and rng.random() < 0.4:
            # nest: the last file is included from file 1 instead of from the main file (same position in the flat order
            # only if it directly follows; either way a legal program)
            m = files[0]['stmts']
            pos = [i for i, st in enumerate(m) if st[0] == 'include' and st[1] == 2]
            # moving the include earlier must not put a reference to a zone created in between into an unselected branch
            # (the implementation parses unselected lines and rejects unknown zones there; DESIGN.md section 8)
            uses_created = any((st[0] == 'memzone' and st[1].startswith('zc')) or (st[0] == 'org' and st[2] and st[2].startswith('zc'))
                               for st in files[2]['stmts'])
            if pos and not uses_created:
                del m[pos[0]]
                files[1]['stmts'].insert(rng.randrange(len(files[1]['stmts']) + 1), ['include', 2, 'inc2.asm'])
                self.nested = True
        case = {'cfg': self.cfg, 'files': files, 'include_dirs': ['lib'], 'extra_files': [], 'fault': None}
        if rng.random() < self.prof.get('p_fault', 0.12):
            import json as _json
            before = _json.dumps([files, case['extra_files']], default=str)
            kind = self.inject_fault(files, case)
            # a fault that needs something the program does not have (a second file, a label ...) changes nothing
            case['fault'] = kind if _json.dumps([files, case['extra_files']], default=str) != before else None
        o = {'start': 0, 'end': None, 'fill': rng.choice([0, 0, 0xEE, 255, 0x1AB])}
        if rng.random() < self.prof.get('p_window', 0.35):
            base = self.cfg['origin']
            o['start'] = max(0, base + rng.choice([0, 0, 1, 2, 3, 5, 0x10, 0x11, -1, 0x100, 0x200]))
            if rng.random() < 0.6:
                o['end'] = max(0, o['start'] + rng.choice([-1, 0, 1, 2, 3, 7, 15, 16, 31, 255, 256, 0x2ff]))
        case['opts'] = o
        return case


def gen_program(rng, prof, tier):
    # a generator slip (an empty range for some unusual configuration) must not stop a check: draw again
    for _ in range(20):
        try:
            return ProgGen(rng, prof, tier).generate()
        except (ValueError, IndexError, KeyError):
            continue
    return ProgGen(rng, prof, tier).generate()


def gen_placement(rng, tier):
    """C04 scenarios: a handful of byte-producing lines (sizes 0..3) placed through absolute origins, zone-relative
    origins and zone switches into a small, crowded address range, in arbitrary source order; overlapping zones."""
    cfg = dict(addr_bits=16, endian='big', origin=rng.choice([0, 0x18]), page=1, terminator=0, embedded=False,
               zones=[['ram', 0x20, 0x2f], ['rom', 0x28, 0x37]], consts=[], data=[], syms=[], cli=[])
    if rng.random() < 0.3:
        cfg['data'] = [['pdata', rng.randint(0x1c, 0x38), 0xAA, rng.choice([1, 2, 4])]]
    if rng.random() < 0.2:
        cfg['zones'].append(['vec', 0x34, 0x37])
    zones = [z[0] for z in cfg['zones']]
    stmts = []
    n = rng.randint(2, 5)
    mk = 1
    # "straight" programs: no origin or zone directive anywhere, the code simply grows from the default origin -- into a
    # predefined data block, or two predefined blocks lie on each other
    straight = rng.random() < 0.2
    if straight:
        cfg['origin'] = 0x18
        cfg['data'] = [['pdata', rng.randint(0x19, 0x22), 0xAA, rng.choice([1, 2, 4])]]
        if rng.random() < 0.3:
            cfg['data'].append(['pdata2', cfg['data'][0][1] + rng.choice([0, 1, 3, 6]), 0xBB, 2])
    for _ in range(n):
        r = 1.0 if straight else rng.random()
        if r < 0.45:
            stmts.append(['org', num(rng.randint(0x18, 0x3a)), None])
        elif r < 0.7:
            z = rng.choice(zones)
            zs, ze = [x for x in cfg['zones'] if x[0] == z][0][1:]
            stmts.append(['org', num(rng.randint(0, ze - zs)), z])
        elif r < 0.9:
            stmts.append(['memzone', rng.choice(zones + ['GLOBAL'])])
        size = rng.choice([0, 0, 1, 1, 2, 3])
        k = rng.random()
        if size == 0:
            stmts.append(rng.choice([['fill', num(0), num(mk)], ['zero', num(0)], ['zerountil', num(0)]]))
        elif k < 0.5:
            stmts.append(['fill', num(size), num(0x10 * mk + size)])
        elif k < 0.8:
            stmts.append(['data', 1, [num(0x10 * mk + i) for i in range(size)]])
        else:
            stmts.append(['instr', 'nop', []] if size == 1 else (['instr', 'ldi', ['a', num(mk)]] if size == 2 else ['instr', 'jmp', [num(0x100 + mk)]]))
        if rng.random() < 0.15:
            stmts.insert(len(stmts) - 1, ['mute'])
            stmts.append(['unmute'])
        mk += 1
    files = [{'name': 'main.asm', 'dir': 'src', 'stmts': stmts}]
    if rng.random() < 0.25 and len(stmts) > 3:
        cut = rng.randint(1, len(stmts) - 1)
        files = [{'name': 'main.asm', 'dir': 'src', 'stmts': stmts[:cut] + [['include', 1, 'inc1.asm']]},
                 {'name': 'inc1.asm', 'dir': 'src', 'stmts': stmts[cut:]}]
    # the image window mostly covers everything placed; now and then it starts above or ends below some of the lines
    # (what lies outside the window is left out of the image, it is still checked for overlaps)
    return {'cfg': cfg, 'files': files, 'include_dirs': [], 'extra_files': [], 'fault': 'placement',
            'opts': {'start': rng.choice([0x18, 0x18, 0x18, 0x20, 0x26, 0x2c]), 'end': rng.choice([0x3f, 0x3f, 0x3f, 0x30, 0x2d]),
                     'fill': 0xEE}}


def gen_paste_pair(rng, tier):
    """C17 metamorphic pair: a program split over include files, and the same text pasted in place, built so that the
    side conditions under which "paste" is meaningful hold (see DESIGN.md C17): includes at nesting depth 0 with the
    mute counter at 0 and GLOBAL selected; included files keep to GLOBAL, are mute-balanced, start with a non-local
    label and are followed by one; file-scoped names are distinct across files."""
    prof = {'w': {'org': 0, 'orgrel': 0, 'memzone': 0, 'createzone': 0, 'mute': 0, 'cond': 2, 'label': 14, 'align': 1},
            'p_include': 1.0, 'p_fault': 0.0, 'p_zones': 0.0, 'p_ref': 0.6, 'p_window': 0.2}
    for _ in range(20):
        g = ProgGen(rng, prof, tier)
        case = g.generate()
        files = case['files']
        if len(files) < 2 or getattr(g, 'nested', False):
            continue
        ok = True
        # rename file-scoped names per file so that they are disjoint
        def rename(st, k):
            import json
            t = json.dumps(st)
            for nm in FILEL + ['_fk']:
                t = t.replace('"' + nm + '"', '"' + nm + '_' + str(k) + '"')
            return json.loads(t)
        files2 = []
        for k, f in enumerate(files):
            files2.append(dict(f, stmts=[rename(st, k) for st in f['stmts']]))
        # includes only at depth 0 in main
        depth = 0
        main = []
        n_lab = 0
        for st in files2[0]['stmts']:
            if st[0] == 'if':
                depth += 1
            elif st[0] == 'endif':
                depth -= 1
            if st[0] == 'include':
                if depth != 0 or st[1] is None:
                    ok = False
                    break
                n_lab += 1
                main.append(st)
                main.append(['label', f'after_inc{n_lab}'])
            else:
                main.append(st)
        if not ok:
            continue
        files2[0] = dict(files2[0], stmts=main)
        for k in range(1, len(files2)):
            files2[k] = dict(files2[k], stmts=[['label', f'inc_entry{k}']] + files2[k]['stmts'])
        split = dict(case, files=files2)
        pasted_main = []
        for st in files2[0]['stmts']:
            if st[0] == 'include':
                pasted_main += files2[st[1]]['stmts']
            else:
                pasted_main.append(st)
        pasted = dict(case, files=[dict(files2[0], stmts=pasted_main)])
        return {'split': split, 'pasted': pasted}
    return None

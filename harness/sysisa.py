"""Generated instruction sets (deliberately ambiguous operand alternatives, prefix/suffix codes, reverse options, macros)
and statements written against them.  The ISA is rendered to YAML for the implementation and to a Coq `isa` term for
Match.assemble_stmt; operands are rendered to text and to their token lists.

Operand grammar generated here ("clean" operands): expression tokens limited to decimal/hex/binary numbers, plain labels,
+ - ( ), register names; brackets, braces and decorators only in the positions the operand kinds define."""
from __future__ import annotations

from . import common as C
from .sysgen import KEYWORDS

REGS = ['a', 'b', 'c', 'x', 'sp']
MNEMONICS = ['mov', 'ldx', 'add3', 'jmpz', 'tst', 'psh2', 'swp', 'cmpq']
MACROS = ['mac1', 'mac2', 'dbl']
KEYS = ['nz', 'cs', 'eq', 'lo']
DECS = {'plus': '+', 'plus_plus': '++', 'minus': '-', 'minus_minus': '--', 'exclamation': '!', 'at': '@'}
DEC_COQ = {'plus': 'DPlus', 'plus_plus': 'DPlusPlus', 'minus': 'DMinus', 'minus_minus': 'DMinusMinus', 'exclamation': 'DBang', 'at': 'DAt'}
DEC_TOKS = {'plus': ['OT (TOp OAdd)'], 'plus_plus': ['OT (TOp OAdd)', 'OT (TOp OAdd)'], 'minus': ['OT (TOp OSub)'],
            'minus_minus': ['OT (TOp OSub)', 'OT (TOp OSub)'], 'exclamation': ['OBang'], 'at': ['OAt']}
LABELS = ['lbl1', 'lbl2', 'tgt', 'K9']


# ------------------------------------------------------------------------------------------------ token helpers
def t_num(v):
    return f'OT (TNum {C.zlit(v)})'


def t_lab(n):
    return f'OT (TLabel {C.coq_string_codes(n)})'


def t_op(o):
    return f'OT (TOp {o})'


class Txt:
    """an operand (or expression) as text + token list"""

    def __init__(self, text='', toks=None):
        self.text = text
        self.toks = list(toks or [])

    def __add__(self, o):
        return Txt(self.text + o.text, self.toks + o.toks)


def x_num(rng, v):
    k = rng.randint(0, 3)
    if k == 0 or v < 0:
        return Txt(str(v), [t_num(v)]) if v >= 0 else Txt('(0-' + str(-v) + ')', ['OT TLPar', t_num(0), t_op('OSub'), t_num(-v), 'OT TRPar'])
    if k == 1:
        return Txt('$' + format(v, 'x'), [t_num(v)])
    if k == 2:
        return Txt('%' + format(v, 'b'), [t_num(v)])
    return Txt(str(v), [t_num(v)])


def x_value(rng, v, labels):
    """an expression (clean class) with value v, or a label"""
    r = rng.random()
    if labels and r < 0.2:
        n = rng.choice(labels)
        return Txt(n, [t_lab(n)])
    if r < 0.55:
        return x_num(rng, v)
    if r < 0.7:
        return Txt('(', ['OT TLPar']) + x_num(rng, v) + Txt(')', ['OT TRPar'])
    a = rng.randint(0, v) if v > 0 else 0
    sp = rng.choice(['', ' '])
    if rng.random() < 0.5:
        return x_num(rng, a) + Txt(sp + '+' + sp, [t_op('OAdd')]) + x_num(rng, v - a)
    return x_num(rng, v + a) + Txt(sp + '-' + sp, [t_op('OSub')]) + x_num(rng, a)


def x_expr(rng, pool_labels, regs_ok=False, depth=1, value_hint=None):
    """simple expression in the clean class"""
    r = rng.random()
    if depth <= 0 or r < 0.55:
        r2 = rng.random()
        if r2 < 0.25 and pool_labels:
            n = rng.choice(pool_labels)
            return Txt(n, [t_lab(n)])
        if regs_ok and r2 < 0.35:
            n = rng.choice(REGS)
            return Txt(n, [t_lab(n)])
        v = value_hint if value_hint is not None and rng.random() < 0.7 else rng.choice([0, 1, 2, 3, 5, 7, 8, 15, 16, 100, 127, 128, 255, 256, 1000])
        return x_num(rng, v)
    if r < 0.7:
        inner = x_expr(rng, pool_labels, regs_ok, depth - 1)
        return Txt('(', ['OT TLPar']) + inner + Txt(')', ['OT TRPar'])
    op = rng.choice(['+', '-'])
    sp = rng.choice(['', ' '])
    return x_expr(rng, pool_labels, regs_ok, depth - 1) + Txt(sp + op + sp, [t_op('OAdd' if op == '+' else 'OSub')]) + x_expr(rng, pool_labels, regs_ok, depth - 1)


# ------------------------------------------------------------------------------------------------ ISA generation
def gen_arg(rng, default_endian, sizes=(4, 8, 8, 12, 16, 16, 3, 5)):
    return {'size': rng.choice(sizes), 'align': rng.random() < 0.6, 'endian': rng.choice([None, None, 'big', 'little'])}


def gen_code(rng, allow_none=True):
    if allow_none and rng.random() < 0.2:
        return None
    size = rng.choice([1, 2, 2, 3, 3, 4, 4, 5, 8])
    return (rng.randrange(1 << size), size)


def gen_alt(rng, idx, kinds, default_endian, zones):
    kind = rng.choice(kinds)
    alt = {'id': f'op{idx}', 'kind': kind, 'code': gen_code(rng), 'pos': rng.choice(['suffix', 'suffix', 'prefix'])}
    if kind in ('register', 'indirect_register', 'indexed_register', 'indirect_indexed_register'):
        alt['register'] = rng.choice(REGS)
        alt['dec'] = None
        if kind in ('register', 'indirect_register', 'indirect_indexed_register') and rng.random() < 0.25:
            alt['dec'] = (rng.choice(list(DECS)), rng.random() < 0.5)
        if kind == 'indirect_register':
            alt['offset'] = gen_arg(rng, default_endian) if rng.random() < 0.6 else None
        if kind in ('indexed_register', 'indirect_indexed_register'):
            if alt['code'] is None:
                alt['code'] = gen_code(rng, allow_none=False)
            isz = rng.choice([1, 2, 3])
            idxs = []
            for j in range(rng.randint(1, 3)):
                r = rng.random()
                if r < 0.5:
                    idxs.append({'id': f'ix{idx}_{j}', 'kind': 'register', 'register': rng.choice(REGS), 'code': (rng.randrange(1 << isz), isz)})
                elif r < 0.8:
                    idxs.append({'id': f'ix{idx}_{j}', 'kind': 'numeric', 'code': (rng.randrange(1 << isz), isz), 'arg': gen_arg(rng, default_endian)})
                else:
                    # the index value itself is the code, range checked; negative values are packed in two's complement
                    lo = rng.choice([0, -(1 << (isz - 1)), -1])
                    idxs.append({'id': f'ix{idx}_{j}', 'kind': 'numeric_bytecode', 'code': None, 'code_size': isz, 'min': lo,
                                 'max': rng.choice([(1 << isz) - 1, (1 << (isz - 1)) - 1 if isz > 1 else 1, 1])})
            if rng.random() < 0.15 and not any(i['kind'] == 'numeric_bytecode' for i in idxs):      # index operands without codes
                for i in idxs:
                    i['code'] = None
            alt['idx'] = idxs
    elif kind in ('numeric', 'indirect_numeric', 'deferred_numeric'):
        alt['arg'] = gen_arg(rng, default_endian)
        alt['valid'] = rng.random() < 0.3
    elif kind == 'enumeration':
        keys = rng.sample(KEYS, rng.randint(1, 3))
        csz = rng.choice([2, 3, 4])
        alt['code'] = None
        alt['code_size'] = csz
        alt['code_dict'] = {k: rng.randrange(1 << csz) for k in keys if rng.random() < 0.85} if rng.random() < 0.7 else None
        alt['arg'] = gen_arg(rng, default_endian, sizes=(4, 8, 3))
        alt['arg_dict'] = {k: rng.randrange(1 << alt['arg']['size']) for k in keys}
    elif kind == 'numeric_enumeration':
        csz = rng.choice([2, 3, 4])
        alt['code'] = None
        alt['code_size'] = csz
        ks = rng.sample([0, 1, 2, 3, 5, 8, 12], rng.randint(1, 4))
        r = rng.random()
        alt['code_dict'] = {k: rng.randrange(1 << csz) for k in ks} if r < 0.7 else None
        alt['arg'] = gen_arg(rng, default_endian, sizes=(4, 8)) if r >= 0.5 else None
        alt['arg_dict'] = {k: rng.randrange(1 << alt['arg']['size']) for k in ks} if alt['arg'] else None
        if alt['code_dict'] is None and alt['arg_dict'] is None:
            alt['code_dict'] = {k: 1 for k in ks}
    elif kind == 'numeric_bytecode':
        csz = rng.choice([2, 3, 4, 4, 12, 16])
        alt['code'] = None
        alt['code_size'] = csz
        alt['min'] = 0
        alt['max'] = rng.choice([(1 << csz) - 1, (1 << csz) - 2, 1])
        if rng.random() < 0.25:
            alt['min'], alt['max'] = -(1 << (csz - 1)), rng.choice([0, 0, 1])       # a bound of exactly 0 is a bound
    elif kind == 'address':
        alt['arg'] = gen_arg(rng, default_endian, sizes=(8, 12, 16, 16))
        alt['zone'] = rng.choice([None] + [z[0] for z in zones])
        alt['slice'] = rng.random() < 0.3
        alt['msb'] = rng.random() < 0.7
        if not alt['slice']:
            alt['arg']['size'] = 16
    elif kind == 'relative_address':
        alt['arg'] = gen_arg(rng, default_endian, sizes=(8, 8, 6, 16))
        alt['curly'] = rng.random() < 0.5
        half = 1 << (alt['arg']['size'] - 1)
        alt['min'] = rng.choice([None, -half, -20])
        alt['max'] = rng.choice([None, half - 1, 20])
        alt['from_end'] = rng.random() < 0.4
    elif kind == 'empty':
        if alt['code'] is None:
            alt['code'] = gen_code(rng, allow_none=False)
    return alt


ALL_KINDS = ['register', 'register', 'indexed_register', 'indirect_register', 'indirect_indexed_register', 'numeric', 'numeric',
             'indirect_numeric', 'deferred_numeric', 'enumeration', 'numeric_enumeration', 'numeric_bytecode', 'address',
             'relative_address']


def gen_isa(rng, prof):
    default_endian = rng.choice(['big', 'little'])
    zones = [['zp', 0, 0xff]] if rng.random() < 0.4 else []
    isa = {'endian': default_endian, 'zones': zones, 'regs': list(REGS), 'sets': {}, 'instrs': {}, 'macros': {}, 'n': 0}
    kinds = prof.get('kinds', ALL_KINDS)

    def new_alt(extra_kinds=None):
        isa['n'] += 1
        return gen_alt(rng, isa['n'], extra_kinds or kinds, default_endian, zones)

    nsets = rng.randint(2, 4)
    for i in range(nsets):
        alts = [new_alt() for _ in range(rng.randint(1, 4))]
        isa['sets'][f'set{i}'] = alts
    setnames = list(isa['sets'])

    def gen_parser(count):
        p = {'count': count, 'specific': None, 'sets': None}
        r = rng.random()
        if count > 0 and r < 0.75:
            names = [rng.choice(setnames) for _ in range(count)]
            if count == 2 and rng.random() < 0.35:
                names = [names[0], names[0]]
            p['sets'] = {'list': names, 'rev_arg': rng.random() < 0.4, 'rev_code': rng.random() < 0.4, 'disallowed': []}
            if rng.random() < (0.5 if count == 2 and names[0] == names[1] else 0.12):
                ids = [rng.choice(isa['sets'][n])['id'] for n in names]
                p['sets']['disallowed'].append(ids)          # deliberately not symmetric
        if r >= 0.6 or p['sets'] is None:
            specs = []
            for _ in range(rng.randint(1, 2)):
                ops = []
                for _ in range(count):
                    ops.append(new_alt(kinds + (['empty'] if rng.random() < 0.3 else [])))
                # 'empty' operands take no text: the statement then has fewer operands than count
                specs.append({'ops': ops, 'rev_arg': rng.random() < 0.4, 'rev_code': rng.random() < 0.4})
            p['specific'] = specs
        return p

    def gen_variant():
        osz = rng.choice([2, 3, 4, 4, 5, 6, 8, 8, 8, 12])
        v = {'opcode': (rng.randrange(1 << osz), osz), 'endian': rng.choice([None, None, 'big', 'little']),
             'suffix': (lambda s: (rng.randrange(1 << s), s))(rng.choice([1, 2, 3, 4, 4, 9, 12, 16])) if rng.random() < 0.3 else None,
             'parser': None}
        cnt = rng.choice([0, 1, 1, 2, 2, 2, 3])
        if cnt > 0 or rng.random() < 0.3:
            v['parser'] = gen_parser(cnt)
        return v

    def narrow_parser(p):
        """a parser accepting a subset of what p's operand sets accept: one alternative per position, listed explicitly"""
        if not p or not p['sets']:
            return None
        ops = []
        for n in p['sets']['list']:
            a = dict(rng.choice(isa['sets'][n]))
            isa['n'] += 1
            a['id'] = f'op{isa["n"]}'
            if 'idx' in a:
                a['idx'] = [dict(i, id=f'{i["id"]}n{isa["n"]}') for i in a['idx']]
            ops.append(a)
        return {'count': p['count'], 'specific': [{'ops': ops, 'rev_arg': rng.random() < 0.4, 'rev_code': rng.random() < 0.4}], 'sets': None}

    for mn in rng.sample(MNEMONICS, rng.randint(2, 5)):
        vs = [gen_variant() for _ in range(rng.randint(1, 3))]
        if len(vs) >= 2 and rng.random() < 0.4:
            np_ = narrow_parser(vs[1]['parser'])
            if np_:
                vs[0]['parser'] = np_          # variant 0 accepts a strict subset of what variant 1 accepts
        isa['instrs'][mn] = vs
    if rng.random() < 0.3:
        # an earlier variant taking a number or label, a later one taking a register in the same place: the register name
        # must fall through to the later variant, whatever options the numeric operand has
        free = [m for m in MNEMONICS if m not in isa['instrs']]
        if free:
            rg = rng.choice(REGS)
            nk, rk = rng.choice([('numeric', 'register'), ('indirect_numeric', 'indirect_register'), ('numeric', 'register')])
            isa['n'] += 2
            na = {'id': f'op{isa["n"] - 1}', 'kind': nk, 'code': gen_code(rng), 'pos': 'suffix', 'arg': gen_arg(rng, default_endian, sizes=(8, 16)),
                  'valid': rng.random() < 0.7}
            ra = {'id': f'op{isa["n"]}', 'kind': rk, 'code': gen_code(rng, allow_none=False), 'pos': 'suffix', 'register': rg, 'dec': None}
            if rk == 'indirect_register':
                ra['offset'] = None

            def one(alt, opc):
                return {'opcode': (opc, 8), 'endian': None, 'suffix': None,
                        'parser': {'count': 1, 'sets': None, 'specific': [{'ops': [alt], 'rev_arg': False, 'rev_code': False}]}}
            isa['instrs'][free[0]] = [one(na, rng.randrange(256)), one(ra, rng.randrange(256))]
    if rng.random() < prof.get('p_macros', 0.4):
        for mn in rng.sample(MACROS, rng.randint(1, 2)):
            mvs = []
            for _ in range(rng.randint(1, 2)):
                cnt = rng.choice([0, 1, 1, 2])
                mv = {'parser': gen_parser(cnt) if cnt > 0 else None, 'steps': []}
                for _ in range(rng.randint(1, 3)):
                    mv['steps'].append(gen_step(rng, isa, mv['parser']))
                mvs.append(mv)
            if len(mvs) >= 2 and rng.random() < 0.5:
                np_ = narrow_parser(mvs[1]['parser'])
                if np_:
                    mvs[0]['parser'] = np_
                    mvs[0]['steps'] = [gen_step(rng, isa, np_) for _ in range(rng.randint(1, 2))]
                    if rng.random() < 0.5:
                        # a placeholder that cannot be filled by what this variant matches: the invocation must be
                        # rejected, not handed on to the next variant
                        k0 = np_['specific'][0]['ops'][0]['kind']
                        ph = 'ARG' if k0 in ('register', 'numeric_bytecode') else 'REG'
                        if k0 in ('register', 'numeric_bytecode', 'numeric', 'indirect_numeric', 'deferred_numeric', 'address',
                                  'relative_address', 'enumeration', 'numeric_enumeration'):
                            tgt = [m for m, vs_ in isa['instrs'].items() if any(v_['parser'] and v_['parser']['count'] == 1 for v_ in vs_)]
                            if tgt:
                                mvs[0]['steps'].append({'mn': rng.choice(tgt), 'ops': [[('ph', ph, 0)]]})
            isa['macros'][mn] = mvs
    return isa


def gen_step(rng, isa, macro_parser):
    """a macro step: mnemonic + operand templates (literal tokens and placeholders) aimed at one variant of the step's
    instruction; placeholders refer to operands of the macro whose kind suits the position"""
    mn = rng.choice(list(isa['instrs']))
    v = rng.choice(isa['instrs'][mn])
    p = v['parser']
    src = []
    if p:
        if p['specific'] and (not p['sets'] or rng.random() < 0.5):
            src = [o for o in rng.choice(p['specific'])['ops'] if o['kind'] != 'empty']
        elif p['sets']:
            src = [rng.choice(isa['sets'][n]) for n in p['sets']['list']]
    # kinds of the macro's own operands (first alternative of each position is what invocations mostly use)
    mkinds = []
    if macro_parser:
        if macro_parser['sets']:
            mkinds = [isa['sets'][n] for n in macro_parser['sets']['list']]
        elif macro_parser['specific']:
            mkinds = [[o] for o in macro_parser['specific'][0]['ops']]
    ops = []
    for alt in src:
        cands = []
        for n, alts in enumerate(mkinds):
            for a in alts:
                if a['kind'] == alt['kind'] and a.get('register') == alt.get('register') and a.get('dec') == alt.get('dec'):
                    cands.append(('OP', n))
                if alt['kind'] == 'numeric' and a['kind'] in ('numeric', 'indirect_numeric', 'deferred_numeric', 'address'):
                    cands.append(('ARG', n))
                if alt['kind'] == 'register' and not alt.get('dec') and a['kind'] in ('register', 'indirect_register') and a.get('register') == alt['register']:
                    cands.append(('REG', n))
        r = rng.random()
        if cands and r < 0.6:
            ph, n = rng.choice(cands)
            t = [('ph', ph, n)]
            if ph == 'ARG' and rng.random() < 0.45:
                # the placeholder is replaced by the argument's text: an operator next to it binds as it would in that text
                t = rng.choice([t + [('tok', '+', t_op('OAdd')), ('tok', '1', t_num(1))],
                                t + [('tok', '*', t_op('OMul')), ('tok', '2', t_num(2))],
                                [('tok', '3', t_num(3)), ('tok', '*', t_op('OMul'))] + t,
                                [('tok', '9', t_num(9)), ('tok', '-', t_op('OSub'))] + t,
                                t + [('tok', '>>', t_op('OShr')), ('tok', '1', t_num(1))]])
            ops.append(t)
        elif r < 0.9 or not mkinds:
            x = operand_for(rng, alt, [], 0)
            ops.append([('lit', [x.text, x.toks])])
        else:
            ops.append([('ph', rng.choice(['ARG', 'REG', 'OP']), rng.randrange(len(mkinds)))])
    return {'mn': mn, 'ops': ops}


# ------------------------------------------------------------------------------------------------ YAML rendering
def y_arg(a, extra=None):
    d = {'size': a['size'], 'byte_align': a['align']}
    if a.get('endian'):
        d['endian'] = a['endian']
    if extra:
        d.update(extra)
    return d


def y_alt(alt):
    k = alt['kind']
    d = {'type': k}
    bc = {}
    if alt.get('code') is not None:
        bc = {'value': alt['code'][0], 'size': alt['code'][1]}
    if k in ('register', 'indirect_register', 'indexed_register', 'indirect_indexed_register'):
        d['register'] = alt['register']
        if alt.get('dec'):
            d['decorator'] = {'type': alt['dec'][0], 'is_prefix': alt['dec'][1]}
        if k == 'indirect_register' and alt.get('offset'):
            d['offset'] = y_arg(alt['offset'])
        if k in ('indexed_register', 'indirect_indexed_register'):
            d['index_operands'] = {}
            for ix in alt['idx']:
                e = {'type': ix['kind']}
                if ix['kind'] == 'register':
                    e['register'] = ix['register']
                elif ix['kind'] == 'numeric_bytecode':
                    e['bytecode'] = {'size': ix['code_size'], 'min': ix['min'], 'max': ix['max']}
                else:
                    e['argument'] = y_arg(ix['arg'])
                if ix['code'] is not None:
                    e['bytecode'] = {'value': ix['code'][0], 'size': ix['code'][1]}
                d['index_operands'][ix['id']] = e
    elif k in ('numeric', 'indirect_numeric', 'deferred_numeric'):
        d['argument'] = y_arg(alt['arg'], {'valid_address': True} if alt['valid'] else None)
    elif k == 'enumeration':
        bc = {'size': alt['code_size']}
        if alt['code_dict'] is not None:
            bc['value_dict'] = dict(alt['code_dict'])
        d['argument'] = y_arg(alt['arg'], {'value_dict': dict(alt['arg_dict'])})
    elif k == 'numeric_enumeration':
        bc = {'size': alt['code_size']}
        if alt['code_dict'] is not None:
            bc['value_dict'] = {int(a): b for a, b in alt['code_dict'].items()}
        if alt['arg'] is not None:
            d['argument'] = y_arg(alt['arg'], {'value_dict': {int(a): b for a, b in alt['arg_dict'].items()}})
    elif k == 'numeric_bytecode':
        bc = {'size': alt['code_size'], 'min': alt['min'], 'max': alt['max']}
    elif k == 'address':
        ex = {}
        if alt['zone']:
            ex['memory_zone'] = alt['zone']
        if alt['slice']:
            ex['slice_lsb'] = True
            ex['match_address_msb'] = alt['msb']
        d['argument'] = y_arg(alt['arg'], ex)
    elif k == 'relative_address':
        ex = {}
        if alt['min'] is not None:
            ex['min'] = alt['min']
        if alt['max'] is not None:
            ex['max'] = alt['max']
        d['argument'] = y_arg(alt['arg'], ex)
        if alt['curly']:
            d['use_curly_braces'] = True
        if alt['from_end']:
            d['offset_from_instruction_end'] = True
    if bc:
        bc['position'] = alt['pos']
        d['bytecode'] = bc
    return d


def y_parser(p):
    d = {'count': p['count']}
    if p['sets']:
        s = {'list': list(p['sets']['list'])}
        if p['sets']['rev_arg']:
            s['reverse_argument_order'] = True
        if p['sets']['rev_code']:
            s['reverse_bytecode_order'] = True
        if p['sets']['disallowed']:
            s['disallowed_pairs'] = [list(x) for x in p['sets']['disallowed']]
        d['operand_sets'] = s
    if p['specific']:
        d['specific_operands'] = {}
        for i, sp in enumerate(p['specific']):
            e = {'list': {o['id']: y_alt(o) for o in sp['ops']}}
            if sp['rev_arg']:
                e['reverse_argument_order'] = True
            if sp['rev_code']:
                e['reverse_bytecode_order'] = True
            d['specific_operands'][f'sp{i}'] = e
    return d


def step_text(st):
    parts = []
    for o in st['ops']:
        s = ''
        for t in o:
            if t[0] == 'ph':
                s += f'@{t[1]}({t[2]})'
            elif t[0] == 'tok':
                s += t[1]
            else:
                s += t[1][0]
        parts.append(s)
    return st.get('mn_text', st['mn']) + (' ' + ', '.join(parts) if parts else '')


def isa_doc(isa, cfg):
    doc = {
        'description': 'verif generated ISA',
        'general': {'address_size': cfg['addr_bits'], 'endian': isa['endian'], 'origin': cfg['origin'], 'page_size': cfg['page'],
                    'registers': list(isa['regs']), 'identifier': {'name': 'verif-gen', 'version': '1.0.0'}},
        'operand_sets': {n: {'operand_values': {a['id']: y_alt(a) for a in alts}} for n, alts in isa['sets'].items()},
        'instructions': {},
    }
    pre = {}
    if isa['zones']:
        pre['memory_zones'] = [{'name': n, 'start': s, 'end': e} for n, s, e in isa['zones']]
    if cfg.get('consts'):
        pre['constants'] = [{'name': n, 'value': v} for n, v in cfg['consts']]
    if pre:
        doc['predefined'] = pre
    for mn, vs in isa['instrs'].items():
        def yv(v):
            d = {'bytecode': {'value': v['opcode'][0], 'size': v['opcode'][1]}}
            if v['endian']:
                d['bytecode']['endian'] = v['endian']
            if v['suffix']:
                d['bytecode']['suffix'] = {'value': v['suffix'][0], 'size': v['suffix'][1]}
            if v['parser']:
                d['operands'] = y_parser(v['parser'])
            return d
        first = yv(vs[0])
        if len(vs) > 1:
            first['variants'] = [yv(v) for v in vs[1:]]
        doc['instructions'][mn] = first
    if isa['macros']:
        doc['macros'] = {}
        for mn, mvs in isa['macros'].items():
            lst = []
            for mv in mvs:
                d = {'instructions': [step_text(s) for s in mv['steps']]}
                if mv['parser']:
                    d['operands'] = y_parser(mv['parser'])
                lst.append(d)
            doc['macros'][mn] = lst
    return doc


def isa_yaml(isa, cfg):
    import yaml
    return yaml.safe_dump(isa_doc(isa, cfg), default_flow_style=False, sort_keys=False)


# ------------------------------------------------------------------------------------------------ Coq rendering
def c_opt(x, f=str):
    return 'None' if x is None else f'(Some {f(x)})'


def c_pair(p):
    return f'({C.zlit(p[0])}, {C.zlit(p[1])})'


def c_end(e, default):
    e = e or default
    return 'Little' if e == 'little' else 'Big'


def c_arg(a, default):
    return f'{{| a_size := {a["size"]}; a_align := {C.coq_bool(a["align"])}; a_endian := {c_end(a.get("endian"), default)} |}}'


def c_dec(d):
    return 'None' if not d else f'(Some ({DEC_COQ[d[0]]}, {C.coq_bool(d[1])}))'


def c_sdict(d):
    return '[' + '; '.join(f'({C.coq_string_codes(k)}, {C.zlit(v)})' for k, v in d.items()) + ']'


def c_zdict(d):
    # (keys come back as text when a case has been through a JSON replay file)
    return '[' + '; '.join(f'({C.zlit(int(k))}, {C.zlit(int(v))})' for k, v in d.items()) + ']'


def c_idx(ix, default):
    if ix['kind'] == 'register':
        return f'IdxReg {C.coq_string_codes(ix["register"])} {c_opt(ix["code"], c_pair)}'
    if ix['kind'] == 'numeric_bytecode':
        return f'IdxNumBc {ix["code_size"]} {C.zlit(ix["min"])} {C.zlit(ix["max"])}'
    return f'IdxNum {c_opt(ix["code"], c_pair)} {c_arg(ix["arg"], default)}'


def c_alt(alt, isa, gbounds):
    k = alt['kind']
    default = isa['endian']
    gb = f'(Some ({C.zlit(gbounds[0])}, {C.zlit(gbounds[1])}))'
    code = alt.get('code')
    code_size = code[1] if code is not None else alt.get('code_size', 0)
    if k == 'register':
        kind = f'KRegister {C.coq_string_codes(alt["register"])} {c_dec(alt["dec"])}'
    elif k == 'indexed_register':
        kind = f'KIndexedReg {C.coq_string_codes(alt["register"])} [' + '; '.join(c_idx(i, default) for i in alt['idx']) + ']'
    elif k == 'indirect_register':
        off = 'None' if not alt['offset'] else f'(Some {c_arg(alt["offset"], default)})'
        kind = f'KIndirectReg {C.coq_string_codes(alt["register"])} {c_dec(alt["dec"])} {off}'
    elif k == 'indirect_indexed_register':
        kind = f'KIndirectIndexedReg {C.coq_string_codes(alt["register"])} {c_dec(alt["dec"])} [' + '; '.join(c_idx(i, default) for i in alt['idx']) + ']'
    elif k in ('numeric', 'indirect_numeric', 'deferred_numeric'):
        nm = {'numeric': 'KNumeric', 'indirect_numeric': 'KIndirectNumeric', 'deferred_numeric': 'KDeferredNumeric'}[k]
        kind = f'{nm} {c_arg(alt["arg"], default)} {gb if alt["valid"] else "None"}'
    elif k == 'enumeration':
        kind = f'KEnumeration {c_opt(alt["code_dict"], c_sdict)} {c_sdict(alt["arg_dict"])} {c_arg(alt["arg"], default)}'
    elif k == 'numeric_enumeration':
        a = 'None' if alt['arg'] is None else f'(Some {c_arg(alt["arg"], default)})'
        kind = f'KNumericEnum {c_opt(alt["code_dict"], c_zdict)} {c_opt(alt["arg_dict"], c_zdict)} {a}'
    elif k == 'numeric_bytecode':
        kind = f'KNumericBytecode {C.zlit(alt["min"])} {C.zlit(alt["max"])}'
    elif k == 'address':
        b = gb
        if alt['zone']:
            z = [z for z in isa['zones'] if z[0] == alt['zone']][0]
            b = f'(Some ({C.zlit(z[1])}, {C.zlit(z[2])}))'
        kind = f'KAddress {c_arg(alt["arg"], default)} {b} {C.coq_bool(alt["slice"])} {C.coq_bool(alt["slice"] and alt["msb"])}'
    elif k == 'relative_address':
        kind = (f'KRelative {c_arg(alt["arg"], default)} {C.coq_bool(alt["curly"])} {c_opt(alt["min"], C.zlit)} '
                f'{c_opt(alt["max"], C.zlit)} {C.coq_bool(alt["from_end"])} {gb}')
    else:
        kind = 'KEmpty'
    pos = 'PosPrefix' if alt['pos'] == 'prefix' else 'PosSuffix'
    return (f'{{| op_id := {C.coq_string_codes(alt["id"])}; op_kind := {kind}; op_code := {c_opt(code[0] if code else None, C.zlit)}; '
            f'op_code_size := {code_size}; op_pos := {pos} |}}')


def c_parser(p, isa, gb):
    spec = 'None'
    if p['specific']:
        spec = '(Some [' + '; '.join(
            '{| sp_ops := [' + '; '.join(c_alt(o, isa, gb) for o in sp['ops']) + f']; sp_rev_arg := {C.coq_bool(sp["rev_arg"])}; '
            f'sp_rev_code := {C.coq_bool(sp["rev_code"])} |}}' for sp in p['specific']) + '])'
    sets = 'None'
    if p['sets']:
        s = p['sets']
        sets = ('(Some {| sm_sets := [' + '; '.join('[' + '; '.join(c_alt(a, isa, gb) for a in isa['sets'][n]) + ']' for n in s['list'])
                + f']; sm_rev_arg := {C.coq_bool(s["rev_arg"])}; sm_rev_code := {C.coq_bool(s["rev_code"])}; '
                + 'sm_disallowed := [' + '; '.join('[' + '; '.join(C.coq_string_codes(i) for i in ids) + ']' for ids in s['disallowed']) + '] |})')
    return f'{{| pp_count := {p["count"]}; pp_specific := {spec}; pp_sets := {sets} |}}'


def c_step(st):
    ops = []
    for o in st['ops']:
        ts = []
        for t in o:
            if t[0] == 'ph':
                ts.append({'ARG': 'PArg', 'REG': 'PReg', 'OP': 'POp'}[t[1]] + f' {t[2]}%nat')
            elif t[0] == 'tok':
                ts.append(f'TT ({t[2]})')
            else:
                ts += [f'TT ({x})' for x in t[1][1]]
        ops.append('[' + '; '.join(ts) + ']')
    return f'{{| st_mnemonic := {C.coq_string_codes(st["mn"])}; st_operands := [' + '; '.join(ops) + '] |}'


def isa_term(isa, gb):
    entries = []
    for mn, vs in isa['instrs'].items():
        vts = []
        for v in vs:
            par = 'None' if not v['parser'] else f'(Some {c_parser(v["parser"], isa, gb)})'
            vts.append(f'{{| v_opcode := {v["opcode"][0]}; v_opsize := {v["opcode"][1]}; v_endian := {c_end(v["endian"], isa["endian"])}; '
                       f'v_suffix := {c_opt(v["suffix"], c_pair)}; v_parser := {par} |}}')
        entries.append(f'({C.coq_string_codes(mn)}, EInstr [' + '; '.join(vts) + '])')
    for mn, mvs in isa['macros'].items():
        mts = []
        for mv in mvs:
            par = 'None' if not mv['parser'] else f'(Some {c_parser(mv["parser"], isa, gb)})'
            mts.append(f'{{| mv_parser := {par}; mv_steps := [' + '; '.join(c_step(s) for s in mv['steps']) + '] |}')
        entries.append(f'({C.coq_string_codes(mn)}, EMacro [' + '; '.join(mts) + '])')
    return '[' + ';\n     '.join(entries) + ']'


# ------------------------------------------------------------------------------------------------ statements
CLEAN = [False]      # set by gen_statement: statements that are meant to be plain well-formed uses of their variant


def operand_for(rng, alt, labels, addr_hint=0):
    """an operand text aimed at this alternative (mostly matching)"""
    k = alt['kind']
    sp = lambda: rng.choice(['', '', ' '])

    def reg(r):
        if rng.random() < 0.08:
            r = r.upper()
        return Txt(r, [t_lab(r)])

    def decorate(x, d):
        if not d:
            return x
        dt = Txt(DECS[d[0]], DEC_TOKS[d[0]])
        return dt + x if d[1] else x + dt
    if k == 'register':
        return decorate(reg(alt['register']), alt['dec'])
    if k in ('indexed_register', 'indirect_indexed_register'):
        ix = rng.choice(alt['idx'])
        if ix['kind'] == 'register':
            inner = reg(ix['register'])
        elif ix['kind'] == 'numeric_bytecode':
            # the index pattern of this kind is a single token: a number, or a (possibly negative) constant
            r = rng.random()
            if r < 0.45:
                n = rng.choice(['KM1', 'KM2', 'K9'])
                inner = Txt(n, [t_lab(n)])
            elif r < 0.9:
                inner = x_num(rng, rng.choice([0, 1, max(0, ix['max']), ix['max'] + 1]))
            else:
                inner = x_value(rng, rng.choice([ix['min'], 0, -1]), [])
        else:
            inner = x_value(rng, rng.choice([0, 1, 5 % (1 << ix['arg']['size'])]), [])
        body = reg(alt['register']) + Txt(sp() + '+' + sp(), [t_op('OAdd')]) + inner
        if k == 'indirect_indexed_register':
            body = decorate(Txt('[' + sp(), ['OLBr']) + body + Txt(sp() + ']', ['ORBr']), alt['dec'])
        return body
    if k == 'indirect_register':
        body = reg(alt['register'])
        r = rng.random()
        if alt['offset'] and r < 0.6:
            s = rng.choice(['+', '-'])
            lim = 1 << (alt['offset']['size'] - 1)
            body = body + Txt(sp() + s + sp(), [t_op('OAdd' if s == '+' else 'OSub')]) + x_num(rng, rng.choice([0, 1, 2 % lim, lim - 1]))
            if rng.random() < 0.3:
                # an offset of several terms: the sign in front of it belongs to its first term only ([sp - 2 + 1] is -1); the
                # offset after a minus is subtracted as a whole first term ([sp - 6 % 4] is -(6 % 4), not (-6) % 4)
                s2 = rng.choice(['+', '-', '%', '*'])
                opn = {'+': 'OAdd', '-': 'OSub', '%': 'OMod', '*': 'OMul'}[s2]
                body = body + Txt(' ' + s2 + ' ', [t_op(opn)]) + x_num(rng, rng.choice([1, 3, 2 % lim] if s2 in '+-*' else [4, 3, 5]))
        return decorate(Txt('[' + sp(), ['OLBr']) + body + Txt(sp() + ']', ['ORBr']), alt['dec'])
    if k in ('numeric', 'indirect_numeric', 'deferred_numeric'):
        size = alt['arg']['size']
        e = x_value(rng, rng.choice([0, 1, (1 << size) - 1, (1 << (size - 1)) - 1, 5 % (1 << size), (1 << size) if rng.random() < 0.05 else 2 % (1 << size)]),
                    labels if size >= 16 else [])
        if not CLEAN[0] and rng.random() < 0.25:
            # a register name where a number or label is expected: never accepted by this alternative
            rg = rng.choice(REGS)
            if rng.random() < 0.4:
                rg = rg.upper()                  # a register is a register in any letter case
            e = rng.choice([Txt(rg, [t_lab(rg)]), Txt(rg + '+1', [t_lab(rg), t_op('OAdd'), t_num(1)]),
                            Txt('1+' + rg, [t_num(1), t_op('OAdd'), t_lab(rg)])])
        if k == 'indirect_numeric':
            return Txt('[' + sp(), ['OLBr']) + e + Txt(sp() + ']', ['ORBr'])
        if k == 'deferred_numeric':
            return Txt('[[' + sp(), ['OLBr', 'OLBr']) + e + Txt(sp() + ']]', ['ORBr', 'ORBr'])
        return e
    if k == 'enumeration':
        key = rng.choice(list(alt['arg_dict']))
        return Txt(key, [t_lab(key)])
    if k == 'numeric_enumeration':
        d = alt['code_dict'] or alt['arg_dict']
        if not CLEAN[0] and rng.random() < 0.3:
            return x_num(rng, rng.choice([-1, -2, max(d) + 1, -max(d), 255]))          # not a member
        return x_num(rng, rng.choice(list(d)))
    if k == 'numeric_bytecode':
        if not CLEAN[0] and rng.random() < 0.5:
            return x_num(rng, rng.choice([alt['min'] - 1, alt['max'] + 1, -1, 1]))       # just outside (or at) a bound
        return x_num(rng, rng.randint(alt['min'], alt['max']))
    if k == 'address':
        if alt['slice']:
            page = addr_hint & ~((1 << alt['arg']['size']) - 1)
            return x_num(rng, page + rng.randrange(1 << min(alt['arg']['size'], 8)))
        if alt['zone']:
            return x_num(rng, rng.choice([0, 1, 0x7f, 0xff]))
        return rng.choice([x_num(rng, rng.choice([0, 0x1234, 0xffff])), Txt(labels[0], [t_lab(labels[0])]) if labels else x_num(rng, 3)])
    if k == 'relative_address':
        lo = alt['min'] if alt['min'] is not None else -(1 << (alt['arg']['size'] - 1))
        hi = alt['max'] if alt['max'] is not None else (1 << (alt['arg']['size'] - 1)) - 1
        off = rng.choice([lo, hi, 0, 1, rng.randint(lo, hi)])
        tgt = max(0, addr_hint + off)
        e = x_num(rng, tgt)
        if alt['curly']:
            return Txt('{' + sp(), ['OLCu']) + e + Txt(sp() + '}', ['ORCu'])
        return e
    return None


def random_operand(rng, labels):
    """an operand of arbitrary shape (to exercise priorities and rejections)"""
    r = rng.random()
    reg = rng.choice(REGS)
    if r < 0.2:
        return Txt(reg, [t_lab(reg)])
    if r < 0.3:
        return Txt('[' + reg + ']', ['OLBr', t_lab(reg), 'ORBr'])
    if r < 0.4:
        e = x_expr(rng, labels, depth=1)
        return Txt('[' + reg + '+', ['OLBr', t_lab(reg), t_op('OAdd')]) + e + Txt(']', ['ORBr'])
    if r < 0.5:
        r2 = rng.choice(REGS)
        return Txt(reg + '+' + r2, [t_lab(reg), t_op('OAdd'), t_lab(r2)])
    if r < 0.6:
        k = rng.choice(KEYS)
        return Txt(k, [t_lab(k)])
    if r < 0.7:
        e = x_expr(rng, labels, depth=1)
        return Txt('[', ['OLBr']) + e + Txt(']', ['ORBr'])
    if r < 0.75:
        e = x_expr(rng, labels, depth=1)
        return Txt('{', ['OLCu']) + e + Txt('}', ['ORCu'])
    if r < 0.8:
        d = rng.choice(list(DECS))
        return Txt(reg + DECS[d], [t_lab(reg)] + DEC_TOKS[d])
    return x_expr(rng, labels, regs_ok=rng.random() < 0.3, depth=1)


def gen_statement(rng, isa, labels, addr_hint, focus=None, clean=False):
    """['asm', mnemonic, [[text, tokens] operands]]; clean: no deliberately odd operand"""
    CLEAN[0] = clean
    pool = list(isa['instrs']) + list(isa['macros'])
    mn = focus if focus and rng.random() < 0.6 else rng.choice(pool)
    vs = isa['instrs'].get(mn) or isa['macros'].get(mn)
    v = rng.choice(vs)
    p = v['parser']
    ops = []
    if p:
        src = None
        if p['specific'] and (not p['sets'] or rng.random() < 0.5):
            sp = rng.choice(p['specific'])
            src = [o for o in sp['ops']]
        elif p['sets']:
            src = [rng.choice(isa['sets'][n]) for n in p['sets']['list']]
            if p['sets']['disallowed'] and rng.random() < 0.6:
                ids = list(p['sets']['disallowed'][0])
                if rng.random() < 0.7:
                    ids.reverse()              # the mirrored combination is NOT disallowed
                byid = {a['id']: a for n in p['sets']['list'] for a in isa['sets'][n]}
                cand = [byid.get(i) for i in ids]
                if all(c is not None for c in cand) and all(c in isa['sets'][n] for c, n in zip(cand, p['sets']['list'])):
                    src = cand
        for alt in src or []:
            if alt['kind'] == 'empty':
                continue
            if not clean and rng.random() < 0.1:
                ops.append(random_operand(rng, labels))
            else:
                ops.append(operand_for(rng, alt, labels, addr_hint))
                if not clean and rng.random() < 0.2:
                    # text left over after a well-formed operand must not be ignored
                    ops[-1] = ops[-1] + rng.choice([Txt('!', ['OBang']), Txt(' @ 9', ['OAt', t_num(9)]), Txt(' junk', [t_lab('junk')]),
                                                    Txt('+1', [t_op('OAdd'), t_num(1)]), Txt(' 7', [t_num(7)]), Txt(' ! 3', ['OBang', t_num(3)])])
    r = 1.0 if clean else rng.random()
    if r < 0.05 and ops:
        ops.pop()
    elif r < 0.1:
        ops.append(random_operand(rng, labels))
    if rng.random() < 0.06:
        mn = mn.upper()
    return ['asm', mn, [[o.text, o.toks] for o in ops]]


def asm_text(st):
    return '    ' + st[1] + (' ' + ', '.join(o[0] for o in st[2]) if st[2] else '')


def asm_term(st):
    ops = '[' + '; '.join('[' + '; '.join(o[1]) + ']' for o in st[2]) + ']'
    return f'AAsm {C.coq_string_codes(st[1])} {ops}'


# ------------------------------------------------------------------------------------------------ whole cases
def _gen_isa_case(rng, prof, tier):
    from .sysgen import num
    isa = gen_isa(rng, prof)
    cfg = dict(addr_bits=16, endian=isa['endian'], origin=rng.choice([0, 0, 0x100]), page=1, terminator=0, embedded=False,
               zones=[list(z) for z in isa['zones']], consts=[['K9', rng.choice([1, 5, 200])], ['KM1', -1], ['KM2', -2]], data=[], syms=[], cli=[])
    labels = ['lbl1', 'lbl2', 'K9']
    stmts = []
    addr = cfg['origin']
    n = rng.randint(1, 4) if tier == 'quick' else rng.randint(1, 10)
    placed = set()
    focus = rng.choice(list(isa['macros']) or list(isa['instrs'])) if rng.random() < 0.6 else None
    odd = rng.randrange(n) if rng.random() < 0.45 else -1        # at most one deliberately odd statement per program
    for i in range(n):
        if rng.random() < 0.2:
            cands = [x for x in ('lbl1', 'lbl2') if x not in placed]
            if cands:
                placed.add(cands[0])
                stmts.append(['label', cands[0]])
        stmts.append(gen_statement(rng, isa, labels, addr, focus, clean=(i != odd)))
        addr += 2
    for x in ('lbl1', 'lbl2'):
        if x not in placed:
            stmts.append(['label', x])
    return {'cfg': cfg, 'isa': isa, 'isa_yaml': isa_yaml(isa, cfg), 'files': [{'name': 'main.asm', 'dir': 'src', 'stmts': stmts}],
            'include_dirs': [], 'extra_files': [], 'opts': {'start': cfg['origin'], 'end': None, 'fill': 0}}


def gen_isa_case(rng, prof, tier):
    # a generator slip for some unusual draw must not stop a check: draw again
    for _ in range(20):
        try:
            return _gen_isa_case(rng, prof, tier)
        except (ValueError, IndexError, KeyError):
            continue
    return _gen_isa_case(rng, prof, tier)


def isa_case_term(case):
    from . import sysgen
    cfg = case['cfg']
    gb = (0, 2 ** cfg['addr_bits'] - 1)
    for z in cfg.get('zones', []):
        if z[0] == 'GLOBAL':
            gb = (z[1], z[2])
    files = []
    for f in case['files']:
        items = []
        for st in f['stmts']:
            items.append(asm_term(st) if st[0] == 'asm' else f'AItem ({sysgen.stmt_item_term(cfg, st)})')
        files.append('[' + '; '.join(items) + ']')
    o = case['opts']
    end = 'None' if o['end'] is None else f'(Some {C.zlit(o["end"])})'
    cfg_t = sysgen.config_term(dict(cfg, **{}))
    cfg_t = cfg_t.replace(f'c_registers := {sysgen.str_list(sysgen.REGISTERS)}', f'c_registers := {sysgen.str_list(case["isa"]["regs"])}')
    return (f'({isa_term(case["isa"], gb)},\n    {cfg_t},\n    [' + ';\n    '.join(files) +
            f'],\n    {{| o_start := {C.zlit(o["start"])}; o_end := {end}; o_fill := {C.zlit(o["fill"])} |}})')


# ------------------------------------------------------------------------------------------------ macro scenarios
def gen_macro_scenario(rng, prof=None, tier='quick'):
    """a small hand-shaped ISA aimed at macro expansion: placeholders next to operators (the placeholder is replaced by the
    argument's text, so `@ARG(0)*2` with argument `1+2` is `1+2*2`), macro variants whose operand list contains an `empty`
    operand (selected exactly as an instruction variant would be), steps of different sizes followed by labels"""
    from .sysgen import num
    e = rng.choice(['big', 'little'])
    asz = rng.choice([8, 16, 16])
    origin = rng.choice([0, 0x100])
    tbl = ['tbl', origin + 0x40, origin + 0x7f]        # a zone narrower than the 256-byte page the program lives in

    def numeric(i):
        return {'id': f'n{i}', 'kind': 'numeric', 'code': None, 'pos': 'suffix', 'arg': {'size': asz, 'align': True, 'endian': None}, 'valid': False}

    def regalt(i, r, code):
        return {'id': f'r{i}', 'kind': 'register', 'code': (code, 4), 'pos': 'suffix', 'register': r, 'dec': None}

    def empty(i, code):
        return {'id': f'e{i}', 'kind': 'empty', 'code': (code, 4), 'pos': 'suffix'}
    isa = {'endian': e, 'zones': [tbl], 'regs': list(REGS), 'sets': {'imm': [numeric(1)], 'rr': [regalt(2, 'a', 1), regalt(3, 'b', 2)]},
           'instrs': {}, 'macros': {}, 'n': 10}

    def sets_parser(names):
        return {'count': len(names), 'specific': None, 'sets': {'list': list(names), 'rev_arg': False, 'rev_code': False, 'disallowed': []}}

    def spec_parser(count, lists):
        return {'count': count, 'sets': None, 'specific': [{'ops': ops, 'rev_arg': False, 'rev_code': False} for ops in lists]}

    def variant(opc, size, parser):
        return {'opcode': (opc, size), 'endian': None, 'suffix': None, 'parser': parser}
    isa['instrs']['ldx'] = [variant(0x10, 8, sets_parser(['imm']))]
    isa['instrs']['tst'] = [variant(0, 8, None)]
    isa['instrs']['mov'] = [variant(0x3, 4, sets_parser(['rr']))]
    # an instruction with an implied operand: the same operand configuration a macro variant below uses
    isa['instrs']['swp'] = [variant(0x5, 4, spec_parser(1, [[empty(4, 9)]])), variant(0x6, 4, sets_parser(['rr']))]
    # a relative jump measured from the end of the instruction: inside a macro, from the end of that step
    rel_from_end = rng.random() < 0.7
    isa['sets']['rel'] = [{'id': 'rl1', 'kind': 'relative_address', 'code': None, 'pos': 'suffix',
                           'arg': {'size': 8, 'align': True, 'endian': None}, 'curly': False, 'min': -8, 'max': 8, 'from_end': rel_from_end}]
    isa['instrs']['jmpz'] = [variant(0xE0, 8, sets_parser(['rel']))]
    isa['macros']['mac3'] = [{'parser': sets_parser(['rel']), 'steps': rng.choice([
        [{'mn': 'jmpz', 'ops': [[('ph', 'OP', 0)]]}, {'mn': 'ldx', 'ops': [[('tok', '7', t_num(7))]]}],
        [{'mn': 'ldx', 'ops': [[('tok', '7', t_num(7))]]}, {'mn': 'jmpz', 'ops': [[('ph', 'OP', 0)]]}],
        [{'mn': 'tst', 'ops': []}, {'mn': 'jmpz', 'ops': [[('ph', 'OP', 0)]]}, {'mn': 'tst', 'ops': []}]])}]
    # an indexed register whose index value is itself the (range checked, possibly negative) code
    isa['sets']['ixr'] = [{'id': 'ix1', 'kind': 'indexed_register', 'code': (1, 2), 'pos': 'suffix', 'register': 'x', 'dec': None,
                           'idx': [{'id': 'ix1_0', 'kind': 'register', 'register': 'a', 'code': (5, 3)},
                                   {'id': 'ix1_1', 'kind': 'numeric_bytecode', 'code': None, 'code_size': 3, 'min': -4, 'max': 3}]}]
    isa['instrs']['add3'] = [variant(0x5, 3, sets_parser(['ixr']))]
    # an enumeration whose code for one key is 0 (a code of zero is still a code), followed by fields that are not byte aligned
    isa['sets']['enm'] = [{'id': 'en1', 'kind': 'enumeration', 'code': None, 'pos': 'suffix', 'code_size': 3,
                           'code_dict': {'nz': 0, 'cs': 5, 'eq': 0}, 'arg': {'size': 4, 'align': False, 'endian': None},
                           'arg_dict': {'nz': 9, 'cs': 0, 'eq': 15}}]
    v = variant(0x2, 3, sets_parser(['enm']))
    v['suffix'] = (1, 2)
    isa['instrs']['cmpq'] = [v]
    # a macro whose later variant accepts everything the earlier one does, and more: which variant an invocation gets must
    # not depend on what was assembled before it
    isa['macros']['mac4'] = [{'parser': spec_parser(1, [[regalt(9, 'a', 1)]]), 'steps': [{'mn': 'mov', 'ops': [[('ph', 'OP', 0)]]}]},
                             {'parser': sets_parser(['rr']), 'steps': [{'mn': 'tst', 'ops': []}, {'mn': 'mov', 'ops': [[('ph', 'OP', 0)]]}]}]
    # the first variant that accepts `a` uses a placeholder that `a` cannot fill (a register has no argument text): the
    # invocation is rejected, not handed on to the later variant that would also accept it
    isa['macros']['mac5'] = [{'parser': spec_parser(1, [[regalt(11, 'a', 1)]]), 'steps': [{'mn': 'ldx', 'ops': [[('ph', 'ARG', 0)]]}]},
                             {'parser': sets_parser(['rr']), 'steps': [{'mn': 'mov', 'ops': [[('ph', 'OP', 0)]]}]}]
    # a sliced address (low byte emitted, high byte must equal the instruction's own) confined to a zone inside the page
    isa['sets']['sla'] = [{'id': 'sa1', 'kind': 'address', 'code': None, 'pos': 'suffix', 'arg': {'size': 8, 'align': True, 'endian': None},
                           'zone': 'tbl', 'slice': True, 'msb': True}]
    isa['instrs']['psh2'] = [variant(0xE4, 8, sets_parser(['sla']))]
    # reversed argument order concerns the emitted arguments only: placeholder n is still operand n
    rev = sets_parser(['imm', 'imm'])
    rev['sets']['rev_arg'] = True
    isa['macros']['mac6'] = [{'parser': rev, 'steps': [{'mn': 'ldx', 'ops': [[('ph', 'ARG', 0)]]}, {'mn': 'ldx', 'ops': [[('ph', 'ARG', 1)]]}]}]
    # two listed operand combinations, the first of which starts with an `empty` operand: trying (and abandoning) it must leave
    # no trace when the second is tried
    isa['instrs']['jmpz2'] = [variant(0x7, 4, spec_parser(2, [[empty(12, 5), regalt(13, 'a', 1)], [regalt(14, 'b', 2), numeric(15)]]))]
    # an instruction whose own byte order differs from the default, with a suffix wide enough for the order to matter
    wide = variant(0xC1, 8, sets_parser(['rr']))
    wide['endian'] = 'little' if e == 'big' else 'big'
    wide['suffix'] = (0x1234, 16)
    isa['instrs']['swp2'] = [wide]
    # range-checked codes whose bounds include 0: a bound of exactly 0 is a bound like any other
    isa['sets']['nb1'] = [{'id': 'nbp', 'kind': 'numeric_bytecode', 'code': None, 'pos': 'suffix', 'code_size': 3, 'min': 0, 'max': 7}]
    isa['sets']['nb2'] = [{'id': 'nbn', 'kind': 'numeric_bytecode', 'code': None, 'pos': 'suffix', 'code_size': 4, 'min': -8, 'max': 0}]
    # three variants, the last two of which both accept a plain number: which one a statement gets depends on the statement
    # alone, never on which variants earlier statements of the same mnemonic used
    isa['sets']['wide'] = [{'id': 'w16', 'kind': 'numeric', 'code': None, 'pos': 'suffix', 'arg': {'size': 16, 'align': True, 'endian': None}, 'valid': False},
                           {'id': 'wind', 'kind': 'indirect_numeric', 'code': (3, 4), 'pos': 'suffix', 'arg': {'size': 16, 'align': True, 'endian': None}, 'valid': False}]
    isa['instrs']['ld3'] = [variant(0x40, 8, sets_parser(['rr'])), variant(0x41, 8, sets_parser(['imm'])), variant(0x42, 8, sets_parser(['wide']))]
    # a listed combination that needs more operands than the statement has, in front of one that accepts it
    isa['instrs']['ld2'] = [variant(0x50, 8, spec_parser(2, [[regalt(20, 'a', 1), numeric(21)], [regalt(22, 'a', 1), empty(23, 7)]]))]
    # a first variant whose indirect register takes no offset, a second whose does: an offset is no reason to stop looking
    def indreg(i, off):
        return {'id': f'ir{i}', 'kind': 'indirect_register', 'code': (i, 4), 'pos': 'suffix', 'register': 'x', 'dec': None,
                'offset': {'size': 8, 'align': True, 'endian': None} if off else None}
    isa['instrs']['pop2'] = [variant(0x6, 4, spec_parser(1, [[indreg(1, False)]])), variant(0x7, 4, spec_parser(1, [[indreg(2, True)]]))]
    isa['sets']['irs'] = [indreg(3, False), indreg(4, True)]
    isa['instrs']['pop3'] = [variant(0x8, 4, sets_parser(['irs']))]
    # an index whose configured range reaches beyond what its 3 bit field can hold: the field width still applies
    isa['sets']['ixw'] = [{'id': 'ix2', 'kind': 'indexed_register', 'code': (2, 2), 'pos': 'suffix', 'register': 'x', 'dec': None,
                           'idx': [{'id': 'ix2_0', 'kind': 'numeric_bytecode', 'code': None, 'code_size': 3, 'min': -6, 'max': 9}]}]
    isa['instrs']['add4'] = [variant(0x6, 3, sets_parser(['ixw']))]
    # a macro variant whose step invokes another variant of the same macro (a finite expansion)
    isa['macros']['mself'] = [{'parser': spec_parser(1, [[regalt(30, 'a', 1)]]), 'steps': [{'mn': 'mself', 'ops': [[('tok', '5', t_num(5))]]},
                                                                                           {'mn': 'tst', 'ops': []}]},
                              {'parser': sets_parser(['imm']), 'steps': [{'mn': 'ldx', 'ops': [[('ph', 'ARG', 0)]]}]}]
    # @ARG of an indirect register operand: the offset text with its sign (a negative offset is 0 - offset)
    isa['macros']['mind'] = [{'parser': spec_parser(1, [[indreg(5, True)]]),
                              'steps': [{'mn': 'pop2', 'ops': [[('tok', '[', 'OLBr'), ('ph', 'REG', 0), ('tok', '+', t_op('OAdd')), ('tok', '(', 'OT TLPar'),
                                                                 ('ph', 'ARG', 0), ('tok', ')', 'OT TRPar'), ('tok', ']', 'ORBr')]]}]}]
    # the same decorator in front of and behind the same register: two different operands
    isa['sets']['pre'] = [{'id': 'dpre', 'kind': 'register', 'code': (4, 4), 'pos': 'suffix', 'register': 'x', 'dec': ('plus_plus', True)}]
    isa['sets']['post'] = [{'id': 'dpost', 'kind': 'register', 'code': (5, 4), 'pos': 'suffix', 'register': 'x', 'dec': ('plus_plus', False)}]
    isa['instrs']['ldd'] = [variant(0xB, 4, sets_parser(['pre']))]
    isa['instrs']['std'] = [variant(0xC, 4, sets_parser(['post']))]
    # a register declared in upper case, written in lower case where an earlier variant takes a number
    isa['regs'] = list(REGS) + ['HL']
    isa['instrs']['ldh'] = [variant(0x44, 8, sets_parser(['imm'])),
                            variant(0x45, 8, spec_parser(1, [[{'id': 'rhl', 'kind': 'register', 'code': (6, 4), 'pos': 'suffix', 'register': 'HL', 'dec': None}]]))]
    # an indexed register without byte code of its own whose index has a code: the code is still part of the encoding
    isa['sets']['ixn'] = [{'id': 'ix3', 'kind': 'indexed_register', 'code': None, 'pos': 'suffix', 'register': 'x', 'dec': None,
                           'idx': [{'id': 'ix3_0', 'kind': 'numeric_bytecode', 'code': None, 'code_size': 4, 'min': 0, 'max': 15},
                                   {'id': 'ix3_1', 'kind': 'register', 'register': 'b', 'code': (12, 4)}]}]
    isa['instrs']['ldq'] = [variant(0xA, 4, sets_parser(['ixn']))]
    # an alternative that reads its text as an expression (and finds it malformed) in front of one that accepts such text
    isa['sets']['mixd'] = [{'id': 'ne1', 'kind': 'numeric_enumeration', 'code': None, 'pos': 'suffix', 'code_size': 4, 'code_dict': {1: 6, 2: 7},
                            'arg': None, 'arg_dict': None},
                           {'id': 'rd1', 'kind': 'register', 'code': (9, 4), 'pos': 'suffix', 'register': 'x', 'dec': ('plus', False)}]
    isa['instrs']['ldm'] = [variant(0x9, 4, sets_parser(['mixd']))]
    # three operands, one combination of which is disallowed
    tri = sets_parser(['rr', 'rr', 'rr'])
    tri['sets']['disallowed'] = [['r2', 'r3', 'r2'], ['r3', 'r3', 'r3']]
    isa['instrs']['tri'] = [variant(0xA, 4, tri)]
    isa['instrs']['add3b'] = [variant(0x1A, 5, sets_parser(['nb1']))]
    isa['instrs']['cmpq2'] = [variant(0xB, 4, sets_parser(['nb2']))]
    ph = ('ph', 'ARG', 0)
    forms = [[ph], [ph, ('tok', '*', t_op('OMul')), ('tok', '2', t_num(2))], [('tok', '3', t_num(3)), ('tok', '*', t_op('OMul')), ph],
             [ph, ('tok', '+', t_op('OAdd')), ('tok', '1', t_num(1))], [('tok', '9', t_num(9)), ('tok', '-', t_op('OSub')), ph],
             [ph, ('tok', '>>', t_op('OShr')), ('tok', '1', t_num(1))], [('tok', '(', 'OT TLPar'), ph, ('tok', ')', 'OT TRPar'), ('tok', '*', t_op('OMul')), ('tok', '2', t_num(2))]]
    steps = [{'mn': 'ldx', 'mn_text': rng.choice(['ldx', 'ldx', 'LDX', 'Ldx']), 'ops': [list(rng.choice(forms))]} for _ in range(rng.randint(1, 3))]
    if rng.random() < 0.5:
        steps.insert(rng.randrange(len(steps) + 1), {'mn': 'tst', 'ops': []})
    isa['macros']['dbl'] = [{'parser': sets_parser(['imm']), 'steps': steps}]
    # variants: a register, or nothing at all (an `empty` operand takes no text)
    isa['macros']['mac1'] = [{'parser': spec_parser(1, [[regalt(5, 'a', 1)]]), 'steps': [{'mn': 'mov', 'ops': [[('ph', 'OP', 0)]]}]},
                             {'parser': spec_parser(1, [[empty(6, 7)]]), 'steps': [{'mn': 'tst', 'ops': []}, {'mn': 'swp', 'ops': []}]}]
    isa['macros']['mac2'] = [{'parser': spec_parser(2, [[regalt(7, 'b', 2), empty(8, 3)]]),
                              'steps': [{'mn': 'mov', 'ops': [[('ph', 'REG', 0)]]}, {'mn': 'ldx', 'ops': [[('tok', '7', t_num(7))]]}]}]
    cfg = dict(addr_bits=16, endian=e, origin=origin, page=1, terminator=0, embedded=False, zones=[list(tbl)],
               consts=[['K9', rng.choice([1, 5])], ['KM1', -1], ['KM2', -2]], data=[], syms=[], cli=[])
    labels = ['lbl1', 'lbl2', 'K9']
    stmts = []
    placed = set()

    def small_expr():
        r = rng.random()
        a, b = rng.choice([1, 2, 3, 4]), rng.choice([1, 2, 3])
        if r < 0.25:
            return Txt(str(a), [t_num(a)])
        if r < 0.6:
            return Txt(f'{a}+{b}', [t_num(a), t_op('OAdd'), t_num(b)])
        if r < 0.75:
            return Txt(f'{a + b}-{b}', [t_num(a + b), t_op('OSub'), t_num(b)])
        n = rng.choice(labels)
        if rng.random() < 0.5:
            return Txt(n, [t_lab(n)])
        return Txt(f'{n}+{b}', [t_lab(n), t_op('OAdd'), t_num(b)])
    kinds = ['dbl'] * 5 + ['mac1'] * 2 + ['mac2'] * 2 + ['swp', 'mac3', 'mac3', 'add3', 'add3', 'cmpq', 'cmpq', 'mac4', 'mac4', 'mac5', 'mac5',
                                                          'ldx', 'tst', 'psh2', 'psh2', 'mac6', 'mac6', 'jmpz2', 'jmpz2', 'swp2', 'add3b', 'add3b', 'add3b', 'cmpq2', 'cmpq2', 'cmpq2',
                                                          'ld3', 'ld3', 'ld2', 'ld2', 'pop2', 'pop2', 'pop2', 'add4', 'add4', 'add4', 'add4', 'ldm', 'ldm', 'tri', 'tri', 'ldq', 'ldq', 'mself', 'mself', 'mind', 'mind', 'ldd', 'ldd', 'ldh', 'ldh']
    # a program is rejected as a whole by one unacceptable statement: at most one statement kind that may be unacceptable
    risky_left = 1 if rng.random() < 0.5 else 0
    for _ in range(rng.randint(2, 7)):
        k = rng.choice(kinds)
        if k == 'dbl':
            x = small_expr()
            stmts.append(['asm', 'dbl', [[x.text, x.toks]]])
        elif k == 'mac1':
            ok = [[], [['a', [t_lab('a')]]]]
            stmts.append(['asm', 'mac1', rng.choice(ok + ([[['b', [t_lab('b')]]]] if risky_left else []))])
            risky_left = 0 if stmts[-1][2] and stmts[-1][2][0][0] == 'b' else risky_left
        elif k == 'mac2':
            ok = [[['b', [t_lab('b')]]]]
            pick = rng.choice(ok + ([[['a', [t_lab('a')]]], []] if risky_left else []))
            risky_left = 0 if pick not in ok else risky_left
            stmts.append(['asm', 'mac2', pick])
        elif k == 'swp':
            stmts.append(['asm', 'swp', rng.choice([[], [['a', [t_lab('a')]]]])])
        elif k == 'mac3':
            n = rng.choice(['lbl1', 'lbl2'])
            x = rng.choice([Txt(n, [t_lab(n)]), Txt(f'{n}+1', [t_lab(n), t_op('OAdd'), t_num(1)]), Txt(f'{n}-2', [t_lab(n), t_op('OSub'), t_num(2)])])
            stmts.append(['asm', rng.choice(['mac3', 'mac3', 'jmpz']), [[x.text, x.toks]]])
        elif k == 'add3':
            i = rng.choice(['KM1', 'KM2', 'a', '3', '0'] + (['K9', '4'] if risky_left else []))
            risky_left = 0 if i in ('K9', '4') else risky_left
            tok = t_num(int(i)) if i.isdigit() else t_lab(i)
            stmts.append(['asm', 'add3', [[f'x+{i}', [t_lab('x'), t_op('OAdd'), tok]]]])
        elif k == 'cmpq':
            kk = rng.choice(['nz', 'cs', 'eq'] + (['lo'] if risky_left else []))
            risky_left = 0 if kk == 'lo' else risky_left
            stmts.append(['asm', 'cmpq', [[kk, [t_lab(kk)]]]])
        elif k == 'mac4':
            for rg in rng.choice([['b', 'a'], ['a', 'b', 'a'], ['a'], ['b', 'a', 'a']]):
                stmts.append(['asm', 'mac4', [[rg, [t_lab(rg)]]]])
        elif k == 'mac5':
            rg = rng.choice(['b', 'b'] + (['a', 'a'] if risky_left else []))
            risky_left = 0 if rg == 'a' else risky_left
            stmts.append(['asm', 'mac5', [[rg, [t_lab(rg)]]]])
        elif k == 'ldx':
            x = small_expr()
            stmts.append(['asm', 'ldx', [[x.text, x.toks]]])
        elif k == 'mac6':
            a1, a2 = rng.sample([3, 4, 5, 6, 7], 2)
            stmts.append(['asm', 'mac6', [[str(a1), [t_num(a1)]], [str(a2), [t_num(a2)]]]])
        elif k == 'jmpz2':
            stmts.append(['asm', 'jmpz2', rng.choice([[['b', [t_lab('b')]], ['5', [t_num(5)]]], [['a', [t_lab('a')]]],
                                                      [['b', [t_lab('b')]], ['7', [t_num(7)]]]])])
        elif k == 'ld3':
            for form in rng.choice([['ind', 'num'], ['num', 'ind', 'num'], ['reg', 'ind', 'num', 'num'], ['num']]):
                if form == 'ind':
                    stmts.append(['asm', 'ld3', [['[5]', ['OLBr', t_num(5), 'ORBr']]]])
                elif form == 'num':
                    v = rng.choice([5, 7, 9])
                    stmts.append(['asm', 'ld3', [[str(v), [t_num(v)]]]])
                else:
                    stmts.append(['asm', 'ld3', [['a', [t_lab('a')]]]])
        elif k == 'ld2':
            stmts.append(['asm', 'ld2', rng.choice([[['a', [t_lab('a')]]], [['a', [t_lab('a')]], ['5', [t_num(5)]]], [['A', [t_lab('A')]]]])])
        elif k == 'pop2':
            form = rng.choice([Txt('[x]', ['OLBr', t_lab('x'), 'ORBr']), Txt('[x+2]', ['OLBr', t_lab('x'), t_op('OAdd'), t_num(2), 'ORBr']),
                               Txt('[x - 1]', ['OLBr', t_lab('x'), t_op('OSub'), t_num(1), 'ORBr']),
                               Txt('[ x + K9 ]', ['OLBr', t_lab('x'), t_op('OAdd'), t_lab('K9'), 'ORBr']),
                               # the offset after a minus sign is subtracted as an expression of its own: -(6 % 4), not (-6) % 4
                               Txt('[x - 6 % 4]', ['OLBr', t_lab('x'), t_op('OSub'), t_num(6), t_op('OMod'), t_num(4), 'ORBr']),
                               Txt('[x - 7 % 3 + 1]', ['OLBr', t_lab('x'), t_op('OSub'), t_num(7), t_op('OMod'), t_num(3), t_op('OAdd'), t_num(1), 'ORBr']),
                               Txt('[x - 2 * 3]', ['OLBr', t_lab('x'), t_op('OSub'), t_num(2), t_op('OMul'), t_num(3), 'ORBr'])])
            stmts.append(['asm', rng.choice(['pop2', 'pop2', 'pop3']), [[form.text, form.toks]]])
        elif k == 'add4':
            i = rng.choice([0, 3, -4, 7] + ([8, 9, -5, -6, 8, 9, 10, -7] if risky_left else []))
            risky_left = 0 if i not in (0, 3, -4, 7) else risky_left
            x = x_num(rng, i)
            stmts.append(['asm', 'add4', [['x+' + x.text, [t_lab('x'), t_op('OAdd')] + x.toks]]])
        elif k == 'mself':
            stmts.append(['asm', 'mself', rng.choice([[['a', [t_lab('a')]]], [['7', [t_num(7)]]]])])
        elif k == 'mind':
            form = rng.choice([Txt('[x+2]', ['OLBr', t_lab('x'), t_op('OAdd'), t_num(2), 'ORBr']), Txt('[x-4]', ['OLBr', t_lab('x'), t_op('OSub'), t_num(4), 'ORBr']),
                               Txt('[x - K9]', ['OLBr', t_lab('x'), t_op('OSub'), t_lab('K9'), 'ORBr']), Txt('[x]', ['OLBr', t_lab('x'), 'ORBr'])])
            stmts.append(['asm', 'mind', [[form.text, form.toks]]])
        elif k == 'ldd':
            for which in rng.choice([['std', 'ldd'], ['ldd', 'std'], ['ldd'], ['std', 'std', 'ldd']]):
                o = Txt('++x', ['OT (TOp OAdd)', 'OT (TOp OAdd)', t_lab('x')]) if which == 'ldd' else Txt('x++', [t_lab('x'), 'OT (TOp OAdd)', 'OT (TOp OAdd)'])
                stmts.append(['asm', which, [[o.text, o.toks]]])
        elif k == 'ldh':
            o = rng.choice([Txt('hl', [t_lab('hl')]), Txt('HL', [t_lab('HL')]), Txt('5', [t_num(5)]), Txt('Hl', [t_lab('Hl')])])
            stmts.append(['asm', 'ldh', [[o.text, o.toks]]])
        elif k == 'ldq':
            i = rng.choice(['3', '0', '15', 'b', 'K9'])
            tok = t_num(int(i)) if i.isdigit() else t_lab(i)
            stmts.append(['asm', 'ldq', [[f'x + {i}', [t_lab('x'), t_op('OAdd'), tok]]]])
        elif k == 'ldm':
            form = rng.choice([Txt('x+', [t_lab('x'), t_op('OAdd')]), Txt('2', [t_num(2)]), Txt('1', [t_num(1)]), Txt('X+', [t_lab('X'), t_op('OAdd')])]
                              + ([Txt('x', [t_lab('x')]), Txt('3', [t_num(3)])] if risky_left else []))
            risky_left = 0 if form.text in ('x', '3') else risky_left
            stmts.append(['asm', 'ldm', [[form.text, form.toks]]])
        elif k == 'tri':
            ok3 = [['a', 'a', 'a'], ['a', 'b', 'b'], ['b', 'a', 'b'], ['a', 'b', 'a'][::-1]]
            bad3 = [['a', 'b', 'a'], ['b', 'b', 'b']]
            pick = rng.choice(ok3 + (bad3 if risky_left else []))
            risky_left = 0 if pick in bad3 else risky_left
            stmts.append(['asm', 'tri', [[r_, [t_lab(r_)]] for r_ in pick]])
        elif k == 'swp2':
            rg = rng.choice(['a', 'b'])
            stmts.append(['asm', 'swp2', [[rg, [t_lab(rg)]]]])
        elif k in ('add3b', 'cmpq2'):
            good, bad = ([0, 7, 3], [-1, 8, -4]) if k == 'add3b' else ([-8, 0, -1], [1, 7, 15, -9])
            v = rng.choice(good + (bad if risky_left else []))
            risky_left = 0 if v in bad else risky_left
            x = x_num(rng, v)
            stmts.append(['asm', k, [[x.text, x.toks]]])
        elif k == 'psh2':
            inside = [tbl[1], tbl[2], tbl[1] + 5]
            outside = [tbl[1] - 1, tbl[2] + 1, origin + 0x100 + 0x45, origin + 2]
            v = rng.choice(inside + (outside if risky_left else []))
            risky_left = 0 if v in outside else risky_left
            stmts.append(['asm', 'psh2', [[f'${v:04x}', [t_num(v)]]]])
        else:
            stmts.append(['asm', 'tst', []])
        if risky_left and stmts and stmts[-1][0] == 'asm' and stmts[-1][2] and rng.random() < 0.15:
            # a stray comma: an operand with no text is an operand all the same, for macros as for instructions
            ops = stmts[-1][2]
            ops.insert(rng.choice([0, len(ops), len(ops)]), ['', []])
            risky_left = 0
        if rng.random() < 0.3:
            c = [x for x in ('lbl1', 'lbl2') if x not in placed]
            if c:
                placed.add(c[0])
                stmts.append(['label', c[0]])
    for x in ('lbl1', 'lbl2'):
        if x not in placed:
            stmts.append(['label', x])
    stmts.append(['data', 2, [('lab', 'lbl1'), ('lab', 'lbl2')]])
    files = [{'name': 'main.asm', 'dir': 'src', 'stmts': stmts}]
    if rng.random() < 0.3:
        def fb(n):
            return [['label', '_fb'], ['data', 1, [num(n)]], ['asm', 'dbl', [['_fb', [t_lab('_fb')]]]],
                    ['asm', 'ldx', [['_fb+1', [t_lab('_fb'), t_op('OAdd'), t_num(1)]]]]]
        stmts += fb(1) + [['include', 1, 'inc1.asm']]
        files.append({'name': 'inc1.asm', 'dir': 'src', 'stmts': [['data', 1, [num(9)]]] + fb(2)})
    return {'cfg': cfg, 'isa': isa, 'isa_yaml': isa_yaml(isa, cfg), 'files': files,
            'include_dirs': [], 'extra_files': [], 'opts': {'start': cfg['origin'], 'end': None, 'fill': 0}}


# ------------------------------------------------------------------------------------------------ constraint boundaries (C12)
def gen_constraint_scenario(rng, prof=None, tier='quick'):
    """operand value constraints at configurations the generic generator seldom reaches: sliced addresses whose slice is
    narrower than half the address width (every bit above the slice must equal the instruction's own, not only the next
    few), in 16 and 24 bit address spaces and with slice widths that are not byte multiples; relative offsets for which
    only one of min / max is configured (that one bound is still enforced), measured from the instruction or its end.
    Each statement stands at an address of its own (an origin in front of it); targets are written as numbers on, next to
    and far beyond every boundary.  At most one statement of a program is one the model may reject."""
    from .sysgen import num
    e = rng.choice(['big', 'little'])
    bits = rng.choice([16, 16, 24])
    ssz = rng.choice([4, 5, 6, 8, 8]) if bits == 16 else rng.choice([8, 8, 12, 4, 6])
    base = rng.choice([0x1230, 0x0450, 0x2300, 0x5a10]) if bits == 16 else rng.choice([0x010010, 0x123440, 0x020100])
    osz = 8 if ssz % 8 == 0 else 4
    from_end = rng.random() < 0.5
    mx, mn = rng.choice([20, 100, 0, 200, 255]), rng.choice([-20, -100, 0])

    def sets_parser(names):
        return {'count': len(names), 'specific': None, 'sets': {'list': list(names), 'rev_arg': False, 'rev_code': False, 'disallowed': []}}

    def variant(opc, size, parser):
        return {'opcode': (opc, size), 'endian': None, 'suffix': None, 'parser': parser}

    def rel(i, lo, hi):
        return {'id': f'rl{i}', 'kind': 'relative_address', 'code': None, 'pos': 'suffix', 'arg': {'size': 8, 'align': True, 'endian': None},
                'curly': False, 'min': lo, 'max': hi, 'from_end': from_end}
    isa = {'endian': e, 'zones': [], 'regs': list(REGS), 'instrs': {}, 'macros': {}, 'n': 10, 'sets': {
        'sla': [{'id': 'sa1', 'kind': 'address', 'code': None, 'pos': 'suffix', 'arg': {'size': ssz, 'align': ssz % 8 == 0, 'endian': None},
                 'zone': None, 'slice': True, 'msb': True}],
        'relmax': [rel(1, None, mx)], 'relmin': [rel(2, mn, None)], 'relboth': [rel(3, mn, mx)]}}
    isa['instrs']['jps'] = [variant(0xC if osz == 4 else 0xC4, osz, sets_parser(['sla']))]
    isa['instrs']['skp'] = [variant(0xE0, 8, sets_parser(['relmax']))]
    isa['instrs']['lop'] = [variant(0xE1, 8, sets_parser(['relmin']))]
    isa['instrs']['brb'] = [variant(0xE2, 8, sets_parser(['relboth']))]
    isa['instrs']['tst'] = [variant(0, 8, None)]
    # a numeric operand whose value must be a valid address (inside GLOBAL), however the value is written
    isa['sets']['vnum'] = [{'id': 'vn1', 'kind': 'numeric', 'code': None, 'pos': 'suffix', 'arg': {'size': bits, 'align': True, 'endian': None},
                            'valid': True}]
    isa['instrs']['lea'] = [variant(0xE3, 8, sets_parser(['vnum']))]
    # membership in a numeric enumeration whose keys are small non-negative numbers
    isa['sets']['nen'] = [{'id': 'ne2', 'kind': 'numeric_enumeration', 'code': None, 'pos': 'suffix', 'code_size': 4, 'code_dict': {1: 1, 2: 2, 4: 3, 8: 4},
                           'arg': None, 'arg_dict': None}]
    isa['instrs']['sel'] = [variant(0x9, 4, sets_parser(['nen']))]
    # slice_lsb without match_address_msb: nothing is cut off, so a value wider than the field does not fit
    isa['sets']['slb'] = [{'id': 'sb1', 'kind': 'address', 'code': None, 'pos': 'suffix', 'arg': {'size': ssz, 'align': ssz % 8 == 0, 'endian': None},
                           'zone': None, 'slice': True, 'msb': False}]
    isa['instrs']['ldz'] = [variant(0xD if osz == 4 else 0xD4, osz, sets_parser(['slb']))]
    cfg = dict(addr_bits=bits, endian=e, origin=base, page=1, terminator=0, embedded=False, zones=[], consts=[], data=[], syms=[], cli=[])
    top = (1 << bits) - 1
    mask = (1 << ssz) - 1
    gs, ge = 0, top
    if rng.random() < 0.4:
        # GLOBAL narrowed around the program
        gs, ge = max(0, base - 0x300), min(top, base + 0x1fff)
        isa['zones'] = [['GLOBAL', gs, ge]]
        cfg['zones'] = [['GLOBAL', gs, ge]]
    stmts = []
    risky_left = 1 if rng.random() < 0.5 else 0
    at = base
    for i in range(rng.randint(2, 6)):
        if i > 0:
            at += rng.choice([0x10, 0x24, 0x31, 1 << ssz])
            stmts.append(['org', num(at), None])
        k = rng.choice(['jps', 'jps', 'skp', 'lop', 'brb', 'tst', 'lea', 'ldz', 'sel'])
        if k == 'jps' and rng.random() < 0.3 and i > 0:
            # the jump is the last thing in its page: the page is that of the instruction's own address
            at = (at | mask) - rng.choice([0, 1])
            stmts[-1] = ['org', num(at), None]
        if k == 'sel':
            good, bad = [1, 2, 4, 8], [-1, -5, -7, -8, 0, 3, 9, 255]
            v = rng.choice(good + (bad if risky_left else []))
            risky_left = 0 if v in bad else risky_left
            x = x_num(rng, v)
            stmts.append(['asm', 'sel', [[x.text, x.toks]]])
        elif k == 'ldz':
            good = [v_ for v_ in (0, 1, mask, mask // 2) if gs <= v_ <= ge]
            bad = [v_ for v_ in (mask + 1, at, at | mask, (mask + 1) * 3 + 2) if v_ > mask and gs <= v_ <= ge]
            pool = good + (bad if risky_left else [])
            if pool:
                v = rng.choice(pool)
                risky_left = 0 if v in bad else risky_left
                stmts.append(['asm', 'ldz', [[f'${v:x}', [t_num(v)]]]])
            else:
                stmts.append(['asm', 'tst', []])
        elif k == 'lea':
            good = [gs, ge, base, (gs + ge) // 2]
            bad = [x for x in (gs - 1, ge + 1, 0 if gs > 0 else -1, top if ge < top else -1) if 0 <= x <= top and not gs <= x <= ge]
            v = rng.choice(good + (bad if risky_left else []))
            risky_left = 0 if v in bad else risky_left
            if rng.random() < 0.6:
                stmts.append(['asm', 'lea', [[f'${v:x}', [t_num(v)]]]])
            else:
                stmts.append(['asm', 'lea', [[f'${v:x}+0', [t_num(v), t_op('OAdd'), t_num(0)]]]])
        elif k == 'jps':
            good = [at, (at & ~mask) | rng.randrange(1 << ssz), at & ~mask, at | mask]
            bad = [at ^ (1 << ssz), at ^ (1 << (bits - 1)), (at | mask) + 1, (at | mask) + 3]
            if 2 * ssz < bits:
                bad += [at ^ (1 << (2 * ssz)), at ^ (1 << (2 * ssz)), at ^ (3 << (2 * ssz)) & top]
            bad = [b for b in bad if 0 <= b <= top]
            v = rng.choice(good + (bad if risky_left else []))
            risky_left = 0 if v in bad else risky_left
            stmts.append(['asm', 'jps', [[f'${v:x}', [t_num(v)]]]])
        elif k in ('skp', 'lop', 'brb'):
            hi = mx if k in ('skp', 'brb') else None
            lo = mn if k in ('lop', 'brb') else None
            good = [0, 1, -1]
            bad = []
            if hi is not None:
                good += [hi, hi - 1]
                bad += [hi + 1, 127] if hi < 127 else ([hi + 1] if hi < 255 else [])
                good += [hi - 50, 128] if hi >= 200 else []
            else:
                good += [100, 127, 21]
            if lo is not None:
                good += [lo, lo + 1]
                bad += [lo - 1, -128] if lo > -128 else []
            else:
                good += [-100, -128, -21]
            good = [g for g in good if (hi is None or g <= hi) and (lo is None or g >= lo)]
            off = rng.choice(good + (bad if risky_left else []))
            risky_left = 0 if off in bad else risky_left
            v = at + off + (1 if from_end else 0)
            stmts.append(['asm', k, [[f'${v:x}', [t_num(v)]]]])
        else:
            stmts.append(['asm', 'tst', []])
    if rng.random() < 0.3:
        # a muted region emits nothing, but what stands in it is still assembled and checked
        stmts = [['mute']] + stmts + [['unmute'], ['asm', 'tst', []]]
    return {'cfg': cfg, 'isa': isa, 'isa_yaml': isa_yaml(isa, cfg), 'files': [{'name': 'main.asm', 'dir': 'src', 'stmts': stmts}],
            'include_dirs': [], 'extra_files': [], 'opts': {'start': base, 'end': None, 'fill': 0}}

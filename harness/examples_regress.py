"""Assemble every bundled example with the package under <root>/src and print {program: sha256|status}.
Used to validate that a `fix:` commit leaves the shipped examples byte-identical."""
import hashlib
import json
import os
import subprocess
import sys
import tempfile
from pathlib import Path


def main(root):
    root = Path(root)
    ex = root / 'examples'
    out = {}
    for d in sorted(p for p in ex.iterdir() if p.is_dir()):
        cfgs = sorted(d.glob('*.yaml'))
        if not cfgs:
            continue
        progs = [p for p in sorted(d.rglob('*')) if p.is_file() and p.suffix not in ('.yaml', '.md', '.pdf', '')
                 and 'documentation' not in p.parts and p.name != '.gitattributes']
        for prog in progs:
            with tempfile.TemporaryDirectory() as td:
                o = Path(td) / 'out.bin'
                lst = Path(td) / 'out.lst'
                env = dict(os.environ, PYTHONPATH=str(root / 'src'), PYTHONHASHSEED='0')
                p = subprocess.run(['/venv/bin/python', '-m', 'bespokeasm', 'compile', str(prog), '-c', str(cfgs[0]),
                                    '-o', str(o), '-p', '--pretty-print-output', str(lst), '-I', str(prog.parent)],
                                   capture_output=True, env=env, timeout=120, cwd=td)
                key = str(prog.relative_to(ex))
                if p.returncode == 0 and o.exists():
                    out[key] = hashlib.sha256(o.read_bytes()).hexdigest()[:16] + ':' + \
                        hashlib.sha256(lst.read_bytes().replace(str(root).encode(), b'<root>')).hexdigest()[:16]
                else:
                    out[key] = f'rc={p.returncode}'
    print(json.dumps(out, indent=1, sort_keys=True))


if __name__ == '__main__':
    main(sys.argv[1] if len(sys.argv) > 1 else '/repo')

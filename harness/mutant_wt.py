"""Run checks against seeded changes WITHOUT touching /repo: each change is applied in its own scratch worktree of /repo's
HEAD and the checks are pointed at it (VERIF_REPO), with their cases/evidence/replays kept apart (VERIF_SCRATCH).
Equivalent to `git -C /repo apply p; ./check ...; git -C /repo checkout -- .` but safe to run while other checks use /repo.

Usage: mutant_wt.py [-j N] Cxx/k:pid[,pid] ...      (patches are looked up under /tmp/mut/out/<Cxx/k>/)"""
import json
import os
import subprocess
import sys
from concurrent.futures import ThreadPoolExecutor


def sh(cmd, **kw):
    return subprocess.run(cmd, shell=True, capture_output=True, text=True, **kw)


def one(pair):
    m, pids = pair.split(':')
    tag = m.replace('/', '_')
    wt = f'/tmp/mut/sweep_{tag}'
    patch = f'/tmp/mut/out/{m}/patch_ported.diff'
    if not os.path.exists(patch):
        patch = f'/tmp/mut/out/{m}/patch.diff'
    sh(f'git -C /repo worktree remove --force {wt}')
    r = sh(f'git -C /repo worktree add --detach {wt} HEAD')
    if r.returncode != 0:
        return m, {'error': r.stderr[-300:]}
    res = {}
    try:
        a = sh(f'git -C {wt} apply {patch}')
        if a.returncode != 0:
            a = sh(f'cd {wt} && patch -p1 --fuzz=3 < {patch}')
            if a.returncode != 0:
                return m, {'applies': False}
        for pid in pids.split(','):
            env = dict(os.environ, VERIF_REPO=wt, VERIF_SCRATCH=f'mut_{tag}')
            r = sh(f'cd /verif && ./check {pid} --tier quick', env=env, timeout=3000)
            flagged = [l.strip() for l in r.stdout.splitlines() if (' tie ' in l or ' oracle ' in l) and 'violations=0' not in l]
            res[pid] = {'exit': r.returncode, 'violation_lines': sum(1 for l in r.stdout.splitlines() if l.startswith('VIOLATION')),
                        'flagged_by': flagged[:6]}
    finally:
        sh(f'git -C /repo worktree remove --force {wt}')
        sh(f'rm -rf /verif/.work/mut_{tag}')
    return m, res


def main():
    args = sys.argv[1:]
    j = 4
    if args and args[0] == '-j':
        j = int(args[1])
        args = args[2:]
    out = {}
    with ThreadPoolExecutor(max_workers=j) as ex:
        for m, res in ex.map(one, args):
            out[m] = res
            print(m, json.dumps({p: (r.get('exit'), (r.get('flagged_by') or [''])[0][:110]) if isinstance(r, dict) else r
                                 for p, r in res.items()}), flush=True)
    old = {}
    if os.path.exists('/verif/.work/mutant_wt_last.json'):
        old = json.load(open('/verif/.work/mutant_wt_last.json'))
    old.update(out)
    json.dump(old, open('/verif/.work/mutant_wt_last.json', 'w'), indent=1)


if __name__ == '__main__':
    main()

"""Builds /verif/seeded/<Cxx-k>/ from the sub-agents' outputs under /tmp/mut/out: patch.diff (ported to the current tree
where a later fix moved the code), the demonstration, and meta.json (which property it breaks, what it needs in order to
manifest, what was run: the sub-agent's own commands, my re-validation on the current tree, and which check catches it).

Usage: seed_build.py [--run-checks] [Cxx/k ...]"""
import json
import os
import shutil
import subprocess
import sys
from pathlib import Path

OUT = Path('/tmp/mut/out')
SEEDED = Path('/verif/seeded')
VALID = json.loads(Path('/verif/.work/mutant_validation.json').read_text())

# extra checks (besides the property's own) known to be sensitive to a change
ALSO = {'C01/A': ['C12'], 'C12/A': ['C01'], 'C03/A': ['C14'], 'C16/A': ['C15']}


def sh(cmd, **kw):
    return subprocess.run(cmd, shell=True, capture_output=True, text=True, **kw)


def run_checks(name, pids):
    """each seeded change in its own scratch worktree of /repo's HEAD, checks pointed at it (harness/mutant_wt.py)"""
    sys.path.insert(0, '/verif/harness')
    import mutant_wt
    _, res = mutant_wt.one(f'{name}:{",".join(pids)}')
    return res


def main():
    args = sys.argv[1:]
    do_run = '--run-checks' in args
    only = [a for a in args if not a.startswith('--')]
    head = sh('git -C /repo rev-parse --short HEAD').stdout.strip()
    for d in sorted(OUT.glob('C*/[A-P]')):
        name = f'{d.parent.name}/{d.name}'
        if only and name not in only:
            continue
        sid = f'{d.parent.name}-{d.name}'
        dst = SEEDED / sid
        dst.mkdir(parents=True, exist_ok=True)
        ported = d / 'patch_ported.diff'
        if ported.exists():
            shutil.copy(ported, dst / 'patch.diff')
            shutil.copy(d / 'patch.diff', dst / 'patch_original.diff')
        else:
            shutil.copy(d / 'patch.diff', dst / 'patch.diff')
        for demo in ('demo.py', 'demo.sh'):
            if (d / demo).exists():
                shutil.copy(d / demo, dst / demo)
        meta = json.loads((d / 'meta.json').read_text())
        v = VALID.get(name, {})
        confirmed = bool(v.get('applies')) and v.get('demo_clean') == 0 and v.get('demo_patched') == 1 and 'passed' in v.get('tests', '')
        old = {}
        if (dst / 'meta.json').exists():
            old = json.loads((dst / 'meta.json').read_text())
        m = {
            'id': sid,
            'property': meta.get('property', d.parent.name),
            'what_it_breaks': meta.get('what_it_breaks'),
            'needs_to_manifest': meta.get('needs_to_manifest'),
            'files_changed': meta.get('files_changed'),
            'origin': 'written by a fresh sub-agent given only the property text and a scratch worktree of /repo',
            'subagent_commands_run': meta.get('commands_run'),
            'ported': ported.exists(),
            'revalidated_on': {'repo_head': head, 'how': 'harness/mutant_validate.py in a scratch worktree under /tmp: git apply; '
                               'pytest (81 tests); demo on clean tree; demo on patched tree', **v},
            'status': 'confirmed' if confirmed else 'obsolete',
            'checks': old.get('checks', {}),
        }
        if not confirmed:
            m['status_note'] = old.get('status_note') or OBSOLETE.get(name, 'no longer breaks the property on the current tree')
        last = {}
        if os.path.exists('/verif/.work/mutant_wt_last.json'):
            last = json.loads(open('/verif/.work/mutant_wt_last.json').read())
        if confirmed and not do_run and name in last and 'applies' not in last[name] and 'error' not in last[name]:
            m['checks'] = last[name]
            m['checks_run_as'] = ('harness/mutant_wt.py: scratch worktree of /repo HEAD with seeded/%s/patch.diff applied; VERIF_REPO=<worktree> '
                                  './check <pid> --tier quick (equivalent to: git -C /repo apply <patch>; ./check <pid>; '
                                  'git -C /repo checkout -- .)') % sid
        if do_run and confirmed:
            pids = [m['property']] + ALSO.get(name, [])
            m['checks'] = run_checks(name, pids)
            m['checks_run_as'] = ('scratch worktree of /repo HEAD with seeded/%s/patch.diff applied; VERIF_REPO=<worktree> ./check <pid> --tier quick '
                                  '(equivalent to: git -C /repo apply <patch>; ./check <pid>; git -C /repo checkout -- .)') % sid
            print(sid, {p: (r['exit'], r['flagged_by'][:1]) for p, r in m['checks'].items()} if isinstance(m['checks'], dict) and 'applies' not in m['checks'] else m['checks'], flush=True)
        (dst / 'meta.json').write_text(json.dumps(m, indent=1) + '\n')


OBSOLETE = {
    'C15/D': 'does not apply since fix a4f3185 (the instruction extraction pattern was rewritten); ported by hand it is harmless: the order '
             'of the mnemonic alternation no longer decides which text is extracted, the demo passes with the ported patch',
    'C15/F': 'as C15/D: does not apply since fix a4f3185, and the ported change is harmless (alternation order no longer matters)',
    'C18/D': 'does not apply: the comment splitting it changed was replaced by fix ef3fc9e (PATTERN_LINE_PARTS, quote aware)',
    'C18/M': 'made harmless by fix b826d0d: numeric alternatives now refuse a register name in any letter case, so the order in which '
             'the index alternatives are tried no longer matters; demo passes with the patch',
    'C08/A': 'made harmless by fix 028f92b: branch selection is now decided once by ConditionStack._decisions / evaluate_own, and no '
             'longer goes through the is_lineage_true recursion the change weakens; demo passes with the patch',
    'C14/A': 'made harmless by fix 83a5fb8: a value outside the range of its field is rejected before it reaches PackedBits, so the '
             'changed conversion never sees one; demo passes with the patch',
    'C14/B': 'does not apply: the image writer it changed was rewritten by fix 277df5b (image built from an address->byte map)',
    'C15/A': 'made harmless by fix f3e7cef: substitution is whole-word, so the order in which symbols are substituted no longer matters; '
             'demo passes with the patch',
    'C15/B': 'no longer applies after fix 08ab61c (enumeration keys are escaped and the whole operand must match, so the order in which '
             'the keys are joined - which the change made hash dependent - no longer influences matching)',
    'C16/B': 'made harmless by fix 374d186 (the compact hex printer writes address records from the addresses of the bytes, not from '
             'the order in which lines arrive); demo passes with the patch',
}

main()

import argparse
import importlib
import os
import sys

from . import common as C
from .framework import run_check


def main():
    ap = argparse.ArgumentParser()
    ap.add_argument('pid')
    ap.add_argument('--tier', default=os.environ.get('VERIF_TIER', 'quick'), choices=['quick', 'thorough'])
    ap.add_argument('--replay', default=None)
    a = ap.parse_args()
    seed = int(os.environ.get('VERIF_SEED', '0'))
    mod = importlib.import_module(f'harness.props.{a.pid}')
    rc = run_check(mod.SPEC, a.tier, seed, a.replay)
    sys.exit(rc)


if __name__ == '__main__':
    main()
